//! C15 — channel state is discarded only when safely buried; channel ids are never reused.
//!
//! A real persisting `Node` (KVVPersister<MemoryKVVStore>), channels created with `new_channel(dbid)`,
//! made ready with `setup_channel`, forgotten with `forget_channel`, pruned by `get_heartbeat`;
//! blocks are connected/disconnected as the protocol handler does (tracker call + `update_tracker`);
//! `restart` drops the node and restores it with `Node::restore_node`.
//! Per channel d ∈ 1..4 the pool has: funding F_d, double-spend D_d, mutual close M_d, holder
//! commitment U_d (our output only, built with the channel's keys) and its sweep S_d.
//! Model: `prune`.  Monitor (ghost ledger over the harness' own copy of the chain): a ready channel
//! disappears only in a heartbeat, after `forget_channel` was acknowledged and a double-spend / mutual
//! close / fully swept unilateral close is buried ≥ 100 blocks on the surviving chain; after a forget
//! of an existing channel d no `new_channel(d' ≤ d)` creates a channel, also after restarts.
use super::c14::world::{coinbase, deliver_add, deliver_remove, mk_tx, panic_msg};
use crate::common::*;
use lightning_signer::bitcoin::bip32::DerivationPath;
use lightning_signer::bitcoin::{Block, Network, OutPoint, Transaction, Txid};
use lightning_signer::channel::{ChannelBase, ChannelId, ChannelSlot, CommitmentType};
use lightning_signer::node::{Node, NodeConfig, NodeServices};
use lightning_signer::persist::Persist;
use lightning_signer::policy::simple_validator::{make_default_simple_policy, SimpleValidatorFactory};
use lightning_signer::signer::derive::KeyDerivationStyle;
use lightning_signer::lightning::types::payment::PaymentHash;
use lightning_signer::tx::tx::{CommitmentInfo2, HTLCInfo2};
use lightning_signer::util::clock::ManualClock;
use lightning_signer::util::test_utils::*;
use std::collections::{BTreeMap, BTreeSet, HashMap};
use std::panic::{catch_unwind, AssertUnwindSafe};
use std::sync::{Arc, OnceLock};
use std::time::Duration;
use lightning_signer::bitcoin::hashes::Hash as _;
use vls_persist::kvv::memory::MemoryKVVStore;
use vls_persist::kvv::{JsonFormat, KVVPersister};

const MIN_DEPTH_SPEC: usize = 100; // "the required number of blocks"
const PEER: [u8; 33] = [2u8; 33];
const NCH: u64 = 4;

pub fn fid(d: u64) -> u64 { 10 * d + 1 }
pub fn did(d: u64) -> u64 { 10 * d + 2 }
pub fn mid(d: u64) -> u64 { 10 * d + 3 }
fn ucid(d: u64) -> u64 { 10 * d + 8 } // counterparty commitment paying us a to_remote output
fn scid(d: u64) -> u64 { 10 * d + 9 } // sweep of that output
fn uhid(d: u64) -> u64 { 100 + 10 * d + 1 } // counterparty commitment with our to_remote output and one HTLC it offered (we know the preimage)
fn shid(d: u64) -> u64 { 100 + 10 * d + 2 } // sweep of our to_remote output of UH
fn thid(d: u64) -> u64 { 100 + 10 * d + 3 } // our claim of the HTLC output of UH (with the preimage)
fn vhid(d: u64) -> u64 { 100 + 10 * d + 4 } // spend of the claim's output
fn upid(d: u64) -> u64 { 100 + 10 * d + 5 } // the counterparty's PREVIOUS, not yet revoked commitment (number 6) with an HTLC we offered that is not in 7
fn spid(d: u64) -> u64 { 100 + 10 * d + 6 } // sweep of our to_remote output of UP
fn tpid(d: u64) -> u64 { 100 + 10 * d + 7 } // our timeout claim of the HTLC output of UP
fn vpid(d: u64) -> u64 { 100 + 10 * d + 8 } // spend of that claim's output
fn uid(d: u64) -> u64 { 10 * d + 4 }
fn sid(d: u64) -> u64 { 10 * d + 5 }
fn tid(d: u64) -> u64 { 10 * d + 6 } // spend of the HTLC output of U_d
fn vid(d: u64) -> u64 { 10 * d + 7 } // spend of the second-level output T_d:0

fn funding_tx(d: u64) -> Transaction {
    mk_tx(vec![make_outpoint(10 * d as u32 + 1), make_outpoint(10 * d as u32 + 2)], 1, 200 + d as u32)
}

/// `max_channels`: `None` = the default policy (MAX_CHANNELS); `Some(m)` = the default policy with `max_channels = m`
/// (configuration branch of `find_or_create_channel`: the channel map is full)
/// `permissive` (round 9): the node runs with `PolicyFilter::new_permissive()` (every filterable policy violation is only a
/// warning, as with VLS_PERMISSIVE=1) — configuration branch: what the property demands must not depend on the filter
fn services(persister: Arc<dyn Persist>, max_channels: Option<usize>, permissive: bool) -> NodeServices {
    let factory = if max_channels.is_none() && !permissive {
        SimpleValidatorFactory::new()
    } else {
        let mut p = make_default_simple_policy(Network::Regtest);
        if let Some(m) = max_channels { p.max_channels = m; }
        if permissive { p.filter = lightning_signer::policy::filter::PolicyFilter::new_permissive(); }
        SimpleValidatorFactory::new_with_policy(p)
    };
    NodeServices {
        validator_factory: Arc::new(factory),
        starting_time_factory: make_genesis_starting_time_factory(Network::Regtest),
        persister,
        clock: Arc::new(ManualClock::new(Duration::from_secs(1_700_000_000))),
        trusted_oracle_pubkeys: vec![],
    }
}

pub struct W15 {
    pub persister: Arc<dyn Persist>,
    pub node: Arc<Node>,
    seed: [u8; 32],
    pub txs: BTreeMap<u64, Transaction>,
    pub ids: HashMap<Txid, u64>,
    kinds: BTreeMap<u64, String>,
    pub blocks: Vec<Block>,
    pub chain: Vec<Vec<u64>>,
    pub cb: u32,
    pub max_channels: Option<usize>,
    pub permissive: bool,
}

fn chan_id(d: u64) -> ChannelId {
    ChannelId::new_from_peer_id_and_oid(&PEER, d)
}

impl W15 {
    pub fn new() -> W15 { W15::new_with(None) }

    /// a node whose policy allows at most `max_channels` entries in the channel map
    pub fn new_with(max_channels: Option<usize>) -> W15 { W15::new_cfg(max_channels, false) }

    /// `permissive`: see `services`
    pub fn new_cfg(max_channels: Option<usize>, permissive: bool) -> W15 {
        let persister: Arc<dyn Persist> = Arc::new(KVVPersister(MemoryKVVStore::new([7u8; 16]), JsonFormat));
        let mut seed = [0u8; 32];
        seed.copy_from_slice(&hex::decode(TEST_SEED[1]).unwrap());
        // regtest: blocks of regtest difficulty can cross the retarget boundary at 2016 (on testnet they exceed the chain maximum)
        let config = NodeConfig { network: Network::Regtest, key_derivation_style: KeyDerivationStyle::Native, use_checkpoints: false, allow_deep_reorgs: true };
        let node = Arc::new(Node::new(config, &seed, vec![], services(persister.clone(), max_channels, permissive)));
        persister.new_node(&node.get_id(), &config, &*node.get_state()).unwrap();
        persister.new_tracker(&node.get_id(), &node.get_tracker()).unwrap();
        node.add_allowlist(&[]).unwrap();
        let mut w = W15 { persister, node, seed, txs: BTreeMap::new(), ids: HashMap::new(), kinds: BTreeMap::new(), blocks: vec![], chain: vec![], cb: 0, max_channels, permissive };
        w.ids.insert(lightning_signer::bitcoin::hashes::Hash::all_zeros(), 0);
        for d in 1..=NCH {
            let f = funding_tx(d);
            let fo = OutPoint::new(f.compute_txid(), 0);
            w.put(fid(d), f);
            w.put(did(d), mk_tx(vec![make_outpoint(10 * d as u32 + 2)], 1, 210 + d as u32));
            w.put(mid(d), mk_tx(vec![fo], 2, 220 + d as u32));
        }
        // three blocks first: restore_node fast-forwards a tracker at height 0 to the checkpoint
        // (regtest-difficulty headers as in the repo's `init_channel`; later blocks inherit these bits)
        {
            let mut tracker = w.node.get_tracker();
            for _ in 0..3 {
                let (header, proof) = make_testnet_header(tracker.tip(), tracker.height());
                tracker.add_block(header, proof).unwrap();
            }
            w.persister.update_tracker(&w.node.get_id(), &tracker).unwrap();
        }
        w
    }

    fn put(&mut self, id: u64, t: Transaction) {
        self.ids.insert(t.compute_txid(), id);
        self.txs.insert(id, t);
    }

    fn token(&self, id: u64) -> String {
        let t = &self.txs[&id];
        let ins: Vec<String> = t.input.iter().map(|i| format!("{}.{}", self.ids.get(&i.previous_output.txid).cloned().unwrap_or(999), i.previous_output.vout)).collect();
        format!("T{}:{}:{}:{}", id, ins.join(";"), t.output.len(), self.kinds.get(&id).cloned().unwrap_or("p".into()))
    }

    pub fn new_channel(&self, d: u64) -> Result<(), String> {
        self.node.new_channel(d, &PEER, &self.node).map(|_| ()).map_err(|e| e.message().to_string())
    }

    /// setup_channel + what sign_onchain_tx does for the funding inputs + the commitment/sweep of this channel
    pub fn setup(&mut self, d: u64) -> Result<(), String> {
        let f = funding_tx(d);
        let fo = OutPoint::new(f.compute_txid(), 0);
        let mut setup = make_test_channel_setup();
        setup.funding_outpoint = fo;
        // channel type per channel: odd ids static-remotekey, even ids anchors with zero-fee HTLC transactions
        setup.commitment_type = if d % 2 == 0 { CommitmentType::AnchorsZeroFeeHtlc } else { CommitmentType::StaticRemoteKey };
        let id = chan_id(d);
        let was_ready = matches!(self.node.get_channel(&id).ok().map(|s| matches!(&*s.lock().unwrap(), ChannelSlot::Ready(_))), Some(true));
        self.node.setup_channel(id.clone(), None, setup.clone(), &DerivationPath::master()).map_err(|e| e.message().to_string())?;
        if was_ready {
            return Ok(());
        }
        self.node.with_channel(&id, |chan| {
            chan.monitor.add_funding_inputs(&f);
            Ok(())
        }).unwrap();
        {
            let mut tracker = self.node.get_tracker();
            tracker.add_listener_watches(&fo, f.input.iter().map(|i| i.previous_output).collect());
            self.persister.update_tracker(&self.node.get_id(), &tracker).unwrap();
        }
        if !self.txs.contains_key(&uid(d)) {
            // holder commitment 7 with our output and one offered HTLC (which the node must sweep through a
            // second-level transaction), known to the enforcement state and persisted
            let commit_num = 7u64;
            let cp_point = lightning_signer::util::test_utils::key::make_test_pubkey(12);
            let (to_holder, to_cp, feerate) = (1_000_000u64 + d, 1_950_000u64, 1000u32);
            let offered = vec![HTLCInfo2 { value_sat: 30_000 + d, payment_hash: PaymentHash([d as u8; 32]), cltv_expiry: 100 }];
            let preimage = [0x40 + d as u8; 32];
            let in_hash = PaymentHash(lightning_signer::bitcoin::hashes::sha256::Hash::hash(&preimage).to_byte_array());
            let cp_offered = vec![HTLCInfo2 { value_sat: 20_000 + d, payment_hash: in_hash, cltv_expiry: 120 }];
            let (uh_to_holder, uh_to_cp) = (1_300_000u64 + d, 1_650_000u64);
            let prev_point = lightning_signer::util::test_utils::key::make_test_pubkey(14);
            let we_offered_prev = vec![HTLCInfo2 { value_sat: 50_000 + d, payment_hash: PaymentHash([0x20 + d as u8; 32]), cltv_expiry: 130 }];
            let (up_to_holder, up_to_cp) = (1_400_000u64 + d, 1_500_000u64);
            let persister = self.persister.clone();
            let node_id = self.node.get_id();
            self.node.with_channel(&id, |chan| {
                chan.set_next_holder_commit_num_for_testing(commit_num + 1);
                // the counterparty has signed 6 (previous, not yet revoked) and 7 (current), with different HTLC sets
                chan.set_next_counterparty_commit_num_for_testing(commit_num, prev_point);
                chan.set_next_counterparty_commit_num_for_testing(commit_num + 1, cp_point);
                chan.set_next_counterparty_revoke_num_for_testing(commit_num - 1);
                chan.enforcement_state.previous_counterparty_commit_info =
                    Some(CommitmentInfo2::new(true, up_to_holder, up_to_cp, vec![], we_offered_prev.clone(), feerate));
                chan.enforcement_state.current_holder_commit_info =
                    Some(CommitmentInfo2::new(false, to_cp, to_holder, offered.clone(), vec![], feerate));
                // the counterparty's current commitment carries one HTLC it offered to us
                chan.enforcement_state.current_counterparty_commit_info =
                    Some(CommitmentInfo2::new(true, uh_to_holder, uh_to_cp, cp_offered.clone(), vec![], feerate));
                persister.update_channel(&node_id, chan).unwrap();
                Ok(())
            }).unwrap();
            // ... for an invoice this node issued and whose preimage it has learned (incoming payment fulfilled):
            // node state as `add_invoice` + `htlcs_fulfilled` leave it, persisted
            {
                let mut st = self.node.get_state();
                st.issued_invoices.insert(in_hash, lightning_signer::node::PaymentState {
                    invoice_hash: [0x70 + d as u8; 32],
                    amount_msat: (20_000 + d) * 1000,
                    payee: self.node.get_id(),
                    duration_since_epoch: Duration::from_secs(1_700_000_000),
                    expiry_duration: Duration::from_secs(10 * 365 * 86400),
                    is_fulfilled: true,
                    payment_type: lightning_signer::node::PaymentType::Invoice,
                });
                let mut rp = lightning_signer::node::RoutedPayment::new();
                rp.preimage = Some(lightning_signer::lightning::types::payment::PaymentPreimage(preimage));
                st.payments.insert(in_hash, rp);
                self.persister.update_node(&self.node.get_id(), &st).unwrap();
            }
            let secp_ctx = lightning_signer::bitcoin::secp256k1::Secp256k1::signing_only();
            let node_ctx = TestNodeContext { node: self.node.clone(), secp_ctx };
            let counterparty_keys = make_test_counterparty_keys(&node_ctx, &id, setup.channel_value_sat);
            let chan_ctx = TestChannelContext { channel_id: id.clone(), setup: setup.clone(), counterparty_keys };
            let commit = channel_commitment(&node_ctx, &chan_ctx, commit_num, feerate, to_holder, to_cp, offered.clone(), vec![]).tx.unwrap();
            let u = commit.trust().built_transaction().transaction.clone();
            let our = u.output.iter().position(|o| o.value.to_sat() == to_holder).unwrap() as u32;
            let hv = u.output.iter().position(|o| o.value.to_sat() == 30_000 + d).unwrap() as u32;
            self.kinds.insert(uid(d), format!("c{}/{}", our, hv));
            let s = mk_tx(vec![OutPoint::new(u.compute_txid(), our)], 1, 230 + d as u32);
            let t = mk_tx(vec![OutPoint::new(u.compute_txid(), hv)], 1, 240 + d as u32);
            let v = mk_tx(vec![OutPoint::new(t.compute_txid(), 0)], 1, 250 + d as u32);
            // the counterparty's commitment (no HTLC): our to_remote output is p2wpkh (static-remotekey) or the
            // anchored p2wsh (anchors); the harness knows which output it built as ours
            let (uc_to_holder, uc_to_cp) = (1_100_000u64 + d, 1_880_000u64);
            let uc = self.node.with_channel(&id, |chan| Ok(chan.make_counterparty_commitment_tx(&cp_point, commit_num, feerate, uc_to_holder, uc_to_cp, vec![])))
                .unwrap().trust().built_transaction().transaction.clone();
            let uc_our = uc.output.iter().position(|o| o.value.to_sat() == uc_to_holder).unwrap() as u32;
            self.kinds.insert(ucid(d), format!("c{}/-", uc_our));
            let sc = mk_tx(vec![OutPoint::new(uc.compute_txid(), uc_our)], 1, 260 + d as u32);
            // counterparty commitment with that HTLC
            let oic = lightning_signer::channel::Channel::htlcs_info2_to_oic(&cp_offered, &vec![]);
            let uh = self.node.with_channel(&id, |chan| Ok(chan.make_counterparty_commitment_tx(&cp_point, commit_num, feerate, uh_to_holder, uh_to_cp, oic.clone())))
                .unwrap().trust().built_transaction().transaction.clone();
            let uh_our = uh.output.iter().position(|o| o.value.to_sat() == uh_to_holder).unwrap() as u32;
            let uh_h = uh.output.iter().position(|o| o.value.to_sat() == 20_000 + d).unwrap() as u32;
            self.kinds.insert(uhid(d), format!("c{}/{}", uh_our, uh_h));
            let sh = mk_tx(vec![OutPoint::new(uh.compute_txid(), uh_our)], 1, 270 + d as u32);
            let th = mk_tx(vec![OutPoint::new(uh.compute_txid(), uh_h)], 1, 280 + d as u32);
            let vh = mk_tx(vec![OutPoint::new(th.compute_txid(), 0)], 1, 290 + d as u32);
            // the counterparty's previous commitment 6 with the HTLC that exists only there
            let oic_prev = lightning_signer::channel::Channel::htlcs_info2_to_oic(&vec![], &we_offered_prev);
            let up = self.node.with_channel(&id, |chan| Ok(chan.make_counterparty_commitment_tx(&prev_point, commit_num - 1, feerate, up_to_holder, up_to_cp, oic_prev.clone())))
                .unwrap().trust().built_transaction().transaction.clone();
            let up_our = up.output.iter().position(|o| o.value.to_sat() == up_to_holder).unwrap() as u32;
            let up_h = up.output.iter().position(|o| o.value.to_sat() == 50_000 + d).unwrap() as u32;
            self.kinds.insert(upid(d), format!("c{}/{}", up_our, up_h));
            let sp = mk_tx(vec![OutPoint::new(up.compute_txid(), up_our)], 1, 300 + d as u32);
            let tp = mk_tx(vec![OutPoint::new(up.compute_txid(), up_h)], 1, 310 + d as u32);
            let vp = mk_tx(vec![OutPoint::new(tp.compute_txid(), 0)], 1, 320 + d as u32);
            self.put(upid(d), up);
            self.put(spid(d), sp);
            self.put(tpid(d), tp);
            self.put(vpid(d), vp);
            self.put(uhid(d), uh);
            self.put(shid(d), sh);
            self.put(thid(d), th);
            self.put(vhid(d), vh);
            self.put(ucid(d), uc);
            self.put(scid(d), sc);
            self.put(uid(d), u);
            self.put(sid(d), s);
            self.put(tid(d), t);
            self.put(vid(d), v);
        }
        Ok(())
    }

    fn add_block(&mut self, ids: &[u64]) -> String {
        self.cb += 1;
        let mut txs = vec![coinbase(self.cb)];
        txs.extend(ids.iter().map(|i| self.txs.get(i).expect("pool id").clone()));
        let node = self.node.clone();
        let mut tracker = node.get_tracker();
        let tip = tracker.tip().clone();
        let block = make_block(tip.0, txs);
        match catch_unwind(AssertUnwindSafe(|| deliver_add(&mut tracker, &block, false))) {
            Err(e) => format!("panic {}", panic_msg(e)),
            Ok(Err(e)) => format!("err {:?}", e),
            Ok(Ok(_)) => {
                self.persister.update_tracker(&node.get_id(), &tracker).unwrap();
                self.blocks.push(block);
                self.chain.push(ids.to_vec());
                "ok".into()
            }
        }
    }

    fn remove_block(&mut self) -> String {
        let block = self.blocks.last().expect("malformed case: nothing to remove").clone();
        let node = self.node.clone();
        let mut tracker = node.get_tracker();
        match catch_unwind(AssertUnwindSafe(|| deliver_remove(&mut tracker, &block, false))) {
            Err(e) => format!("panic {}", panic_msg(e)),
            Ok(Err(e)) => format!("err {:?}", e),
            Ok(Ok(_)) => {
                self.persister.update_tracker(&node.get_id(), &tracker).unwrap();
                self.blocks.pop();
                self.chain.pop();
                "ok".into()
            }
        }
    }

    pub fn restart(&mut self) {
        let (node_id, entry) = self.persister.get_nodes().unwrap().into_iter().next().unwrap();
        let node = Node::restore_node(&node_id, entry, &self.seed, services(self.persister.clone(), self.max_channels, self.permissive)).unwrap();
        self.node = node;
    }

    fn dbid_of(&self, id: &ChannelId) -> u64 { id.oid() }

    pub fn digest(&self) -> String {
        let mut ch = Vec::new();
        for (id, slot) in self.node.get_channels().iter() {
            let s = slot.lock().unwrap();
            let d = self.dbid_of(id);
            ch.push(match &*s {
                ChannelSlot::Stub(st) => format!("{}:s{}", d, st.blockheight),
                ChannelSlot::Ready(_) => format!("{}:r{}", d, d),
            });
        }
        let hwm = self.node.get_state().dbid_high_water_mark;
        let tracker = self.node.get_tracker();
        let mut ls = Vec::new();
        let mut keys: Vec<(u64, OutPoint)> = tracker.listeners.keys().map(|k| (self.ids.get(&k.txid).cloned().unwrap_or(999) / 10, *k)).collect();
        keys.sort();
        for (d, k) in keys {
            let (m, _) = tracker.listeners.get(&k).unwrap();
            let st = serde_json::to_value(&*m.get_state()).unwrap();
            let on = |v: &serde_json::Value| if v.is_null() { "-".to_string() } else { v.to_string() };
            ls.push(format!(
                "{}:h{}:sf{}:ds{}:mc{}:uc{}:csh{}:done{}",
                d, st["height"], st["saw_forget_channel"].as_bool().unwrap() as u8, on(&st["funding_double_spent_height"]),
                on(&st["mutual_closing_height"]), on(&st["unilateral_closing_height"]), on(&st["closing_swept_height"]), m.is_done() as u8
            ));
        }
        let h = tracker.height();
        drop(tracker);
        let node_id = self.node.get_id();
        let mut sch: Vec<(u64, String)> = self.persister.get_node_channels(&node_id).unwrap().into_iter().map(|(id, e)| {
            let d = id.oid();
            (d, if e.channel_setup.is_some() { format!("{}:r{}", d, d) } else { format!("{}:s{}", d, e.blockheight.map(|b| b.to_string()).unwrap_or("?".into())) })
        }).collect();
        sch.sort();
        let shwm = self.persister.get_nodes().unwrap().into_iter().next().unwrap().1.state.dbid_high_water_mark;
        format!("ch=[{}] hwm={} h={} L=[{}] st:ch=[{}] hwm={}", ch.join(","), hwm, h, ls.join(";"),
                sch.into_iter().map(|x| x.1).collect::<Vec<_>>().join(","), shwm)
    }

    fn ready_set(&self) -> BTreeSet<u64> {
        self.node.get_channels().iter().filter(|(_, s)| matches!(&*s.lock().unwrap(), ChannelSlot::Ready(_))).map(|(id, _)| id.oid()).collect()
    }
    fn has_channel(&self, d: u64) -> bool {
        self.node.get_channels().contains_key(&chan_id(d))
    }

    /// ghost: depth (tip = 1) of the deepest terminal event of channel d on the surviving chain
    fn burial_depth(&self, d: u64) -> Option<usize> {
        let n = self.chain.len();
        let depth = |id: u64| self.chain.iter().position(|b| b.contains(&id)).map(|i| n - i);
        // all outputs the harness built as the node's are swept: holder commitment (our delayed output, the HTLC,
        // its second-level output) or counterparty commitment (our to_remote output)
        let swept = match (depth(uid(d)), depth(sid(d)), depth(tid(d)), depth(vid(d))) {
            (Some(a), Some(b), Some(c), Some(e)) => Some(a.min(b).min(c).min(e)),
            _ => match (depth(ucid(d)), depth(scid(d))) {
                (Some(a), Some(b)) => Some(a.min(b)),
                _ => match (depth(uhid(d)), depth(shid(d)), depth(thid(d)), depth(vhid(d))) {
                    // counterparty commitment with an HTLC the node can claim: to_remote, the HTLC claim and its output
                    (Some(a), Some(b), Some(c), Some(e)) => Some(a.min(b).min(c).min(e)),
                    // the counterparty's previous commitment: to_remote, our claim of the HTLC we offered, its output
                    _ => match (depth(upid(d)), depth(spid(d)), depth(tpid(d)), depth(vpid(d))) {
                        (Some(a), Some(b), Some(c), Some(e)) => Some(a.min(b).min(c).min(e)),
                        _ => None,
                    },
                },
            },
        };
        [depth(did(d)), depth(mid(d)), swept].into_iter().flatten().max()
    }

    /// ghost: is a terminal event of channel d buried ≥ MIN_DEPTH on the surviving chain?
    fn buried(&self, d: u64) -> bool {
        let n = self.chain.len();
        let depth = |id: u64| self.chain.iter().position(|b| b.contains(&id)).map(|i| n - i);
        let deep = |x: Option<usize>| x.map(|k| k >= MIN_DEPTH_SPEC).unwrap_or(false);
        // unilateral close with all of the node's outputs swept: U_d, the sweep of our output S_d, the HTLC
        // spend T_d and the second-level sweep V_d are all on the surviving chain; the latest of them counts
        // all outputs the harness built as the node's are swept: holder commitment (our delayed output, the HTLC,
        // its second-level output) or counterparty commitment (our to_remote output)
        let swept = match (depth(uid(d)), depth(sid(d)), depth(tid(d)), depth(vid(d))) {
            (Some(a), Some(b), Some(c), Some(e)) => Some(a.min(b).min(c).min(e)),
            _ => match (depth(ucid(d)), depth(scid(d))) {
                (Some(a), Some(b)) => Some(a.min(b)),
                _ => match (depth(uhid(d)), depth(shid(d)), depth(thid(d)), depth(vhid(d))) {
                    // counterparty commitment with an HTLC the node can claim: to_remote, the HTLC claim and its output
                    (Some(a), Some(b), Some(c), Some(e)) => Some(a.min(b).min(c).min(e)),
                    // the counterparty's previous commitment: to_remote, our claim of the HTLC we offered, its output
                    _ => match (depth(upid(d)), depth(spid(d)), depth(tpid(d)), depth(vpid(d))) {
                        (Some(a), Some(b), Some(c), Some(e)) => Some(a.min(b).min(c).min(e)),
                        _ => None,
                    },
                },
            },
        };
        deep(depth(did(d))) || deep(depth(mid(d))) || deep(swept)
    }
}

static TOKENS: OnceLock<BTreeMap<u64, String>> = OnceLock::new();
fn tokens() -> &'static BTreeMap<u64, String> {
    TOKENS.get_or_init(|| {
        let mut w = W15::new();
        for d in 1..=NCH {
            w.new_channel(d).unwrap();
            w.setup(d).unwrap();
        }
        w.txs.keys().map(|k| (*k, w.token(*k))).collect()
    })
}
fn tok(id: u64) -> String { tokens()[&id].clone() }

/// execute an op on the generator's live node (results ignored)
fn apply_basic(w: &mut W15, op: &str) {
    let t: Vec<&str> = op.split_whitespace().collect();
    match t.as_slice() {
        ["new", d] => { let _ = w.new_channel(d.parse().unwrap()); }
        ["setup", d] => { let _ = w.setup(d.parse().unwrap()); }
        ["forget", d] => { let _ = w.node.forget_channel(&chan_id(d.parse().unwrap())); }
        ["heartbeat"] => { let _ = w.node.get_heartbeat(); }
        ["restart"] => w.restart(),
        ["add", rest @ ..] => {
            let ids: Vec<u64> = rest.iter().map(|tk| super::c14::world::parse_token_id(tk)).collect();
            w.add_block(&ids);
        }
        ["addn", k] => { for _ in 0..k.parse::<u64>().unwrap() { w.add_block(&[]); } }
        ["remove", ..] => { w.remove_block(); }
        _ => {}
    }
}

fn forgot_or_pruned_ok(_op: &str) -> bool { true }

/// `init` = default policy; `init m<K>` = policy with `max_channels = K`
/// a trailing `perm` = permissive policy filter (implementation only: the model line drops it)
fn init_max(op: &str) -> Option<usize> {
    op.split_whitespace().skip(1).find_map(|t| t.strip_prefix('m').and_then(|k| k.parse().ok()))
}
fn init_perm(op: &str) -> bool { op.split_whitespace().skip(1).any(|t| t == "perm") }

pub struct C15;

impl Group for C15 {
    fn property(&self) -> &'static str { "C15" }
    fn model(&self) -> Option<&'static str> { Some("prune") }
    fn rule(&self) -> &'static str {
        "real persisting Node, dbids 1..4 (+ ids around the high-water mark), interleavings of new_channel / setup_channel / \
         forget_channel / get_heartbeat / restart with consensus-valid blocks containing the channels' funding, double-spend, \
         mutual close, unilateral close and sweep, runs of 90..110 empty blocks around MIN_DEPTH=100, reorgs of depth 1-3; \
         non-trivial = a forget of an existing channel followed by a new_channel attempt or a heartbeat at depth >= 95"
    }
    fn budget(&self, tier: Tier) -> usize { if tier == Tier::Quick { 300 } else { 3000 } }
    fn corpus(&self) -> Vec<Vec<String>> {
        let mk = |s: &str| -> Vec<String> {
            s.split('|').map(|x| {
                let t: Vec<&str> = x.split_whitespace().collect();
                if t[0] == "add" || t[0] == "remove" { let mut l = t[0].to_string(); for id in &t[1..] { l.push(' '); l.push_str(&tok(id.parse().unwrap())); } l } else { x.to_string() }
            }).collect()
        };
        // F18 witness: monitor created after its funding tx confirmed, then that block is reorged out
        let late = vec![mk("init|new 3|add 31|setup 3|remove 31|add 31|add 33|heartbeat")];
        let mut v = vec![
            // forget, restart, id reuse attempts
            mk("init|new 2|new 3|forget 3|restart|new 3|new 2|new 1|new 4|heartbeat"),
            // round 9: the same under a permissive policy filter (every filterable violation only a warning), with a full map too
            mk("init perm|new 2|new 3|forget 3|new 3|new 2|restart|new 3|new 2|new 1|new 4|heartbeat"),
            mk("init m2 perm|new 1|new 2|new 3|forget 2|new 2|new 1|restart|new 2|new 3|heartbeat"),
            // holder commitment with an HTLC: our main output swept, the HTLC output never; forgotten; aged far beyond MIN_DEPTH and
            // beyond the depth a closed channel is watched for: must survive every heartbeat
            mk("init|new 1|setup 1|add 11|add 14|add 15|forget 1|addn 2020|heartbeat|addn 10|heartbeat|restart|heartbeat"),
            // capacity 2: third id refused, the existing id refused as well (guard before lookup), room after forgetting a stub,
            // the forgotten id stays refused; restart in between
            mk("init m2|new 1|new 2|new 3|new 1|forget 2|restart|new 3|new 2|new 4|heartbeat"),
            // capacity 1 with a ready channel: setup does not need room; after close + forget + burial the prune frees the slot
            mk("init m1|new 1|setup 1|new 2|add 11|add 13|forget 1|addn 99|heartbeat|new 2|new 1"),
            // mutual close buried exactly 99 / 100 deep
            mk("init|new 1|setup 1|add 11|add 13|forget 1|addn 98|heartbeat|addn 1|heartbeat|restart|new 1"),
            // not forgotten: survives; forget flag and restart
            mk("init|new 1|setup 1|add 11|add 13|addn 120|heartbeat|restart|heartbeat|forget 1|restart|heartbeat"),
            // full sweep, reorg of the second-level sweep only (not re-mined), forget, burial: must NOT be pruned (seeded change C15/1)
            mk("init|new 1|setup 1|add 11|add 14|add 15 16|add 17|remove 17|forget 1|addn 99|heartbeat|addn 1|heartbeat|addn 5|heartbeat"),
            // the same with the sweep re-mined: pruned exactly at depth 100
            mk("init|new 1|setup 1|add 11|add 14|add 15 16|add 17|remove 17|add 17|forget 1|addn 98|heartbeat|addn 1|heartbeat|addn 1|heartbeat"),
            // anchors channel closed by the counterparty's commitment, our to_remote output NOT swept: must survive (seeded change C15/2 of round 2)
            mk("init|new 2|setup 2|add 21|add 28|forget 2|addn 100|heartbeat|addn 5|heartbeat"),
            // the same swept: pruned when the sweep is 100 deep; static-remotekey channel likewise
            mk("init|new 2|setup 2|add 21|add 28|add 29|forget 2|addn 98|heartbeat|addn 1|heartbeat|addn 1|heartbeat"),
            mk("init|new 1|setup 1|add 11|add 18|forget 1|addn 100|heartbeat|add 19|addn 99|heartbeat"),
            // an open channel whose forget was requested survives far beyond MAX_CLOSING_DEPTH (2016) blocks
            mk("init|new 1|setup 1|add 11|forget 1|addn 2030|heartbeat|restart|heartbeat|new 1"),
            // counterparty close carrying an HTLC of an issued, fulfilled invoice; restart before the close; only the main output swept
            mk("init|new 1|setup 1|restart|add 11|add 111|add 112|forget 1|addn 100|heartbeat|addn 3|heartbeat"),
            // the same fully swept (main output, HTLC claim, its output): pruned at depth 100
            mk("init|new 2|setup 2|restart|add 21|add 121|add 122 123|add 124|forget 2|addn 98|heartbeat|addn 1|heartbeat"),
            // the counterparty closes with its PREVIOUS commitment, whose HTLC is not in the current one; only the main output is
            // swept: must not be pruned; after the HTLC claim and its output are spent too: pruned at depth 100
            mk("init|new 1|setup 1|add 11|add 115|add 116|forget 1|addn 100|heartbeat|addn 3|heartbeat|add 117|add 118|addn 98|heartbeat|addn 1|heartbeat"),
            // mutual close seen before a restart, reorg of the close after it (follower-built proofs), forget, burial: not pruned
            mk("init|new 1|setup 1|add 11|add 13|restart|remove 13|forget 1|addn 101|heartbeat|add 13|addn 99|heartbeat"),
            // unilateral close, swept later; double spend on another channel
            mk("init|new 1|new 2|setup 1|setup 2|add 11 22|add 14|forget 1|forget 2|addn 50|add 15 16|add 17|addn 60|heartbeat|addn 45|heartbeat"),
        ];
        v.extend(late);
        v
    }
    fn gen_case(&self, rng: &mut Rng, tier: Tier) -> Vec<String> {
        // the generator runs a live node alongside, so that blocks only carry transactions of channels
        // that are ready at that moment (a monitor never meets its own funding tx in a block that was
        // connected before the monitor existed, see notes: observation F18)
        let mut w = W15::new();
        let mut ops = vec!["init".to_string()];
        let mut push = |w: &mut W15, ops: &mut Vec<String>, op: String| {
            apply_basic(w, &op);
            ops.push(op);
        };
        if super::c13::FUNDING_UNDO_TOLERANT && rng.chance(1, 8) {
            // late set-up family (finding F18, only where the source tolerates it): the funding transaction is
            // confirmed BEFORE setup_channel creates the monitor (a counterparty broadcasting early); then a reorg
            // disconnects that block (must not abort), the funding is re-mined and the channel lives on
            let d = rng.range(1, NCH);
            let fl = { let mut l = "add".to_string(); l.push(' '); l.push_str(&tok(fid(d))); l };
            push(&mut w, &mut ops, format!("new {}", d));
            for _ in 0..rng.below(2) { push(&mut w, &mut ops, "add".into()); }
            push(&mut w, &mut ops, fl.clone());
            let gap = rng.below(2);
            for _ in 0..gap { push(&mut w, &mut ops, "add".into()); }
            push(&mut w, &mut ops, format!("setup {}", d));
            let after = rng.below(2);
            for _ in 0..after { push(&mut w, &mut ops, "add".into()); }
            if rng.chance(1, 3) { push(&mut w, &mut ops, "restart".into()); }
            for _ in 0..(gap + after) { push(&mut w, &mut ops, "remove".into()); }
            push(&mut w, &mut ops, fl.replacen("add", "remove", 1));
            if rng.chance(2, 3) {
                push(&mut w, &mut ops, fl.clone());
                push(&mut w, &mut ops, { let mut l = "add".to_string(); l.push(' '); l.push_str(&tok(mid(d))); l });
                push(&mut w, &mut ops, format!("forget {}", d));
                push(&mut w, &mut ops, "addn 99".into());
                push(&mut w, &mut ops, "heartbeat".into());
            }
            push(&mut w, &mut ops, "heartbeat".into());
            return ops;
        }
        if rng.chance(2, 5) {
            // directed family: unilateral close whose outputs (ours, the HTLC, the second-level output) are swept
            // over several blocks; reorg of a suffix of the sweep blocks (re-mined or not); forget; burial of the
            // last sweep at MIN_DEPTH-1 / MIN_DEPTH / MIN_DEPTH+1 with a heartbeat at each depth
            let d = rng.range(1, NCH);
            let addl = |ids: &[u64]| { let mut l = "add".to_string(); for x in ids { l.push(' '); l.push_str(&tok(*x)); } l };
            push(&mut w, &mut ops, format!("new {}", d));
            push(&mut w, &mut ops, format!("setup {}", d));
            let forget_early = rng.chance(1, 3);
            if forget_early { push(&mut w, &mut ops, format!("forget {}", d)); }
            push(&mut w, &mut ops, addl(&[fid(d)]));
            let path = rng.below(7); // 0,1: counterparty commitment without HTLC; 2: with an HTLC we can claim; 3: its PREVIOUS commitment; else holder commitment
            let cp_close = path <= 1;
            let cp_htlc = path == 2 || path == 3;
            let (c_u, c_s, c_t, c_v) = if path == 3 { (upid(d), spid(d), tpid(d), vpid(d)) } else { (uhid(d), shid(d), thid(d), vhid(d)) };
            let mut order = vec![sid(d), tid(d)];
            if rng.chance(1, 2) { order.swap(0, 1); }
            let pos = order.iter().position(|x| *x == tid(d)).unwrap() + 1 + rng.below((order.len() - order.iter().position(|x| *x == tid(d)).unwrap()) as u64) as usize;
            order.insert(pos.min(order.len()), vid(d));
            if cp_close { order = vec![scid(d)]; }
            if cp_htlc {
                order = vec![c_s, c_t];
                if rng.chance(1, 2) { order.swap(0, 1); }
                let p = order.iter().position(|x| *x == c_t).unwrap() + 1;
                order.insert(if rng.chance(1, 2) { p } else { order.len() }, c_v);
            }
            // a restart between set-up and the close: what the node knew (preimages, commitment infos) must survive it
            if rng.chance(1, 3) { push(&mut w, &mut ops, "restart".into()); }
            let mut first = vec![if cp_close { ucid(d) } else if cp_htlc { c_u } else { uid(d) }];
            if rng.chance(1, 3) { first.push(order.remove(0)); }
            push(&mut w, &mut ops, addl(&first));
            let mut partial = false; // some output of ours stays unswept for good
            if cp_close && rng.chance(1, 3) { order.clear(); partial = true; } // our output stays unswept: must never be pruned
            if cp_htlc && rng.chance(1, 3) { order.retain(|x| *x == c_s); partial = true; } // only the main output is swept, the HTLC is not: must never be pruned
            // holder commitment: only our main output is swept, the HTLC output (and hence its second-level output) never is
            if !cp_close && !cp_htlc && rng.chance(1, 4) { order.retain(|x| *x == sid(d)); partial = true; }
            let mut sweep_blocks = 0u64;
            while !order.is_empty() {
                if rng.chance(1, 4) { push(&mut w, &mut ops, "add".into()); sweep_blocks += 1; }
                let k = if order.len() >= 2 && order[1] != vid(d) && order[1] != c_v && rng.chance(1, 3) { 2 } else { 1 };
                let blk: Vec<u64> = order.drain(..k).collect();
                push(&mut w, &mut ops, addl(&blk));
                sweep_blocks += 1;
            }
            if rng.chance(1, 4) { push(&mut w, &mut ops, "restart".into()); }
            match rng.below(4) {
                0 => {}
                r => {
                    // undo a suffix of the sweep blocks
                    let k = rng.range(1, sweep_blocks.max(1).min(3));
                    let mut removed: Vec<Vec<u64>> = Vec::new();
                    for _ in 0..k {
                        let blk = w.chain.last().unwrap().clone();
                        push(&mut w, &mut ops, addl(&blk).replacen("add", "remove", 1));
                        removed.push(blk);
                    }
                    if r == 3 {
                        // re-mine them in one block
                        let all: Vec<u64> = removed.iter().rev().flatten().cloned().collect();
                        push(&mut w, &mut ops, addl(&all));
                    }
                }
            }
            if !forget_early && rng.chance(5, 6) { push(&mut w, &mut ops, format!("forget {}", d)); }
            if rng.chance(1, 3) { push(&mut w, &mut ops, "restart".into()); }
            // long burial: a close that is only partially swept (or fully swept) ages far beyond MIN_DEPTH - weeks of blocks,
            // around and beyond the 2016 blocks a closed channel's HTLC sweeps are watched for; a partially swept close
            // must survive every heartbeat however old it gets
            if (partial && rng.chance(1, 3)) || (!partial && rng.chance(1, 30)) {
                let k = *rng.pick(&[300u64, 2014, 2015, 2016, 2017, 2300]);
                push(&mut w, &mut ops, format!("addn {}", k));
                for _ in 0..2 {
                    push(&mut w, &mut ops, "heartbeat".into());
                    push(&mut w, &mut ops, "addn 1".into());
                }
                push(&mut w, &mut ops, "heartbeat".into());
                if rng.chance(1, 3) { push(&mut w, &mut ops, "restart".into()); push(&mut w, &mut ops, "heartbeat".into()); }
                push(&mut w, &mut ops, format!("new {}", d));
                return ops;
            }
            // the tip block counts as depth 1
            let k = *rng.pick(&[97u64, 98, 98]);
            push(&mut w, &mut ops, format!("addn {}", k));
            for _ in 0..3 {
                push(&mut w, &mut ops, "heartbeat".into());
                push(&mut w, &mut ops, "addn 1".into());
            }
            push(&mut w, &mut ops, "heartbeat".into());
            push(&mut w, &mut ops, format!("new {}", d));
            return ops;
        }
        // configuration branch: a small `policy.max_channels` (1/4 of the generic cases), so that `new_channel` meets a full
        // channel map: refusals at capacity (also for an id that exists), room again after a forgotten stub / a prune
        if rng.chance(1, 4) {
            let m = rng.range(1, 3);
            ops[0] = format!("init m{}", m);
            w = W15::new_with(Some(m as usize));
        }
        // configuration branch (round 9): a permissive policy filter (1/4 of the generic cases, combined with either capacity);
        // the id-reuse refusal, the capacity refusal and pruning must be the same as under the default filter
        if rng.chance(1, 4) {
            ops[0] = format!("{} perm", ops[0]);
            w = W15::new_cfg(w.max_channels, true);
        }
        let steps = rng.range(5, if tier == Tier::Quick { 14 } else { 24 });
        let mut long_runs = 0;
        for _ in 0..steps {
            let d = rng.range(1, NCH);
            match rng.below(16) {
                0 | 1 => push(&mut w, &mut ops, format!("new {}", d)),
                2 | 3 => {
                    if !w.has_channel(d) { push(&mut w, &mut ops, format!("new {}", d)); }
                    push(&mut w, &mut ops, format!("setup {}", d));
                }
                4 | 5 => {
                    push(&mut w, &mut ops, format!("forget {}", d));
                    // probes right after a forget
                    if rng.chance(1, 2) { push(&mut w, &mut ops, "restart".into()); }
                    push(&mut w, &mut ops, format!("new {}", rng.range(1, NCH + 1)));
                }
                6 | 7 => push(&mut w, &mut ops, "heartbeat".into()),
                8 => push(&mut w, &mut ops, "restart".into()),
                9 | 10 | 11 => {
                    // a block with transactions of the channels that are ready now
                    let flat: Vec<u64> = w.chain.iter().flatten().cloned().collect();
                    let has = |x: u64| flat.contains(&x);
                    let mut blk: Vec<u64> = Vec::new();
                    for c in w.ready_set() {
                        let inb = |b: &Vec<u64>, x: u64| b.contains(&x);
                        let mut cand = Vec::new();
                        if !has(fid(c)) && !has(did(c)) && !inb(&blk, did(c)) { cand.push(fid(c)); }
                        if !has(fid(c)) && !has(did(c)) && !inb(&blk, fid(c)) { cand.push(did(c)); }
                        if (has(fid(c)) || inb(&blk, fid(c))) && !has(mid(c)) && !has(uid(c)) && !has(ucid(c)) && !has(uhid(c)) && !has(upid(c)) { cand.push(*rng.pick(&[mid(c), uid(c), ucid(c), uhid(c), upid(c)])); }
                        if has(ucid(c)) && !has(scid(c)) { cand.push(scid(c)); }
                        if has(upid(c)) && !has(spid(c)) { cand.push(spid(c)); }
                        if has(upid(c)) && !has(tpid(c)) { cand.push(tpid(c)); }
                        if has(tpid(c)) && !has(vpid(c)) { cand.push(vpid(c)); }
                        if has(uhid(c)) && !has(shid(c)) { cand.push(shid(c)); }
                        if has(uhid(c)) && !has(thid(c)) { cand.push(thid(c)); }
                        if has(thid(c)) && !has(vhid(c)) { cand.push(vhid(c)); }
                        if (has(uid(c)) || inb(&blk, uid(c))) && !has(sid(c)) { cand.push(sid(c)); }
                        if (has(uid(c)) || inb(&blk, uid(c))) && !has(tid(c)) { cand.push(tid(c)); }
                        if has(tid(c)) && !has(vid(c)) { cand.push(vid(c)); }
                        for x in cand { if rng.chance(1, 2) && !blk.contains(&x) && !(x == did(c) && blk.contains(&fid(c))) { blk.push(x); } }
                    }
                    let mut l = "add".to_string();
                    for x in &blk { l.push(' '); l.push_str(&tok(*x)); }
                    push(&mut w, &mut ops, l);
                }
                12 | 13 => {
                    let k = if long_runs < 2 { long_runs += 1; *rng.pick(&[90u64, 98, 99, 100, 101, 110]) } else { 3 };
                    push(&mut w, &mut ops, format!("addn {}", k));
                }
                _ => {
                    let k = rng.range(1, 3).min(w.chain.len() as u64);
                    for _ in 0..k {
                        let blk = w.chain.last().unwrap().clone();
                        let mut l = "remove".to_string();
                        for x in &blk { l.push(' '); l.push_str(&tok(*x)); }
                        push(&mut w, &mut ops, l);
                    }
                }
            }
        }
        ops.push("heartbeat".into());
        ops
    }
    fn model_line(&self, op: &str) -> Option<String> {
        let t: Vec<&str> = op.split_whitespace().collect();
        Some(match t.as_slice() {
            ["init"] | ["init", "perm"] => "init 3 1".to_string(),
            ["init", m] | ["init", m, "perm"] => format!("init 3 1 {}", m.trim_start_matches('m')),
            ["setup", d] => {
                let d: u64 = d.parse().unwrap();
                format!("setup {} {} {} 0 0.{};0.{}", d, d, fid(d), 10 * d + 1, 10 * d + 2)
            }
            _ => op.to_string(),
        })
    }
    fn exec_case(&self, ops: &[String]) -> CaseOut {
        let mut co = CaseOut::default();
        let mut w: Option<W15> = None;
        let mut dead = false;
        let mut forgot_req: BTreeSet<u64> = BTreeSet::new(); // forget acknowledged for a ready channel
        let mut forgotten_max: u64 = 0; // highest id of an existing channel that was forgotten
        let mut gone: BTreeSet<u64> = BTreeSet::new(); // forgotten stubs and pruned channels: must never come back
        let mut interesting = false;
        for (i, op) in ops.iter().enumerate() {
            if dead { co.out.push("dead".into()); continue; }
            let t: Vec<&str> = op.split_whitespace().collect();
            if t[0] == "init" {
                w = Some(W15::new_cfg(init_max(op), init_perm(op)));
                co.out.push(format!("ok {}", w.as_ref().unwrap().digest()));
                continue;
            }
            let wd = w.as_mut().expect("init first");
            let ready_before = wd.ready_set();
            let existed_before: BTreeSet<u64> = (1..=NCH + 1).filter(|d| wd.has_channel(*d)).collect();
            let res: String = match t.as_slice() {
                ["new", d] => {
                    let d: u64 = d.parse().unwrap();
                    let existed = wd.has_channel(d);
                    let count_before = existed_before.len();
                    let r = wd.new_channel(d);
                    if forgotten_max > 0 { interesting = true; }
                    if let Some(m) = wd.max_channels {
                        let count_after = (1..=NCH + 1).filter(|x| wd.has_channel(*x)).count();
                        if count_before >= m { interesting = true; }
                        // the configured capacity is never exceeded, and a refusal leaves the map alone
                        if count_after > m.max(count_before) {
                            co.violations.push(Violation { kind: "channel-capacity-exceeded".into(),
                                desc: format!("new_channel({}) left {} channels, policy.max_channels = {}", d, count_after, m), at: i });
                        }
                        co.tags.insert(format!("new:{}:{}", if count_before >= m { "at-capacity" } else { "below-capacity" },
                            if r.is_ok() { if existed { "existing" } else { "created" } } else { "refused" }));
                    }
                    if r.is_ok() && !existed && d <= forgotten_max {
                        co.violations.push(Violation { kind: "channel-id-reuse".into(),
                            desc: format!("new_channel({}) created a channel although channel {} was forgotten before", d, forgotten_max), at: i });
                    }
                    if r.is_err() && !existed && wd.has_channel(d) {
                        co.violations.push(Violation { kind: "channel-id-reuse".into(),
                            desc: format!("new_channel({}) was refused but the channel exists afterwards", d), at: i });
                    }
                    co.tags.insert(format!("new:{}", if r.is_ok() { if existed { "existing" } else { "created" } } else { "refused" }));
                    if r.is_ok() { "ok".into() } else { "err".into() }
                }
                ["setup", d] => {
                    let d: u64 = d.parse().unwrap();
                    match wd.setup(d) { Ok(()) => { co.tags.insert("setup:ok".into()); "ok".into() } Err(_) => { co.tags.insert("setup:err".into()); "err".into() } }
                }
                ["forget", d] => {
                    let d: u64 = d.parse().unwrap();
                    let existed = wd.has_channel(d);
                    let was_ready = ready_before.contains(&d);
                    let r = wd.node.forget_channel(&chan_id(d));
                    if r.is_ok() && existed { forgotten_max = forgotten_max.max(d); }
                    if r.is_ok() && was_ready { forgot_req.insert(d); }
                    co.tags.insert(format!("forget:{}", if !existed { "absent" } else if was_ready { "ready" } else { "stub" }));
                    if r.is_ok() { "ok".into() } else { "err".into() }
                }
                ["heartbeat"] => {
                    let deep_any = (1..=NCH).any(|d| wd.chain.len() >= 95 && ready_before.contains(&d));
                    if deep_any { interesting = true; }
                    match catch_unwind(AssertUnwindSafe(|| wd.node.get_heartbeat())) { Ok(_) => "ok".into(), Err(e) => format!("panic {}", panic_msg(e)) }
                }
                ["restart"] => {
                    co.tags.insert("restart".into());
                    match catch_unwind(AssertUnwindSafe(|| wd.restart())) {
                        Ok(()) => "ok".into(),
                        Err(e) => {
                            // the persisted state cannot be restored (e.g. a channel whose listener is gone): the signer is dead
                            co.violations.push(Violation { kind: "restart-abort".into(), desc: format!("restore_node panicked: {}", panic_msg(e)), at: i });
                            dead = true;
                            co.out.push("panic".into());
                            continue;
                        }
                    }
                }
                ["add", rest @ ..] => {
                    let ids: Vec<u64> = rest.iter().map(|tk| super::c14::world::parse_token_id(tk)).collect();
                    wd.add_block(&ids)
                }
                ["addn", k] => {
                    let mut r = "ok".to_string();
                    for _ in 0..k.parse::<u64>().unwrap() { r = wd.add_block(&[]); if r != "ok" { break; } }
                    r
                }
                ["remove", rest @ ..] => {
                    let ids: Vec<u64> = rest.iter().map(|tk| super::c14::world::parse_token_id(tk)).collect();
                    assert_eq!(wd.chain.last().expect("malformed case: nothing to remove"), &ids, "malformed case: remove of a block that is not the tip");
                    wd.remove_block()
                }
                _ => "bad-op".into(),
            };
            if res.starts_with("panic") {
                dead = true;
                co.tags.insert(format!("abort:{}:{}", t[0], res.chars().take(90).collect::<String>()));
                // finding F18: undoing the confirmation of a funding tx that was confirmed before the monitor existed
                let late_monitor = t[0] == "remove" && res.contains("left == right") && res.contains("left: None");
                co.violations.push(Violation { kind: if late_monitor { "late-monitor-funding-reorg-abort".into() } else { "abort".into() }, desc: format!("{} panicked: {}", op, res), at: i });
                co.out.push("panic".into());
                continue;
            }
            // monitor: a channel that was forgotten-and-removed or pruned never reappears (e.g. out of the store on restart)
            if t[0] == "forget" || t[0] == "heartbeat" {
                for d in 1..=NCH + 1 {
                    if existed_before.contains(&d) && !wd.has_channel(d) && forgot_or_pruned_ok(t[0]) { gone.insert(d); }
                }
            }
            if t[0] == "restart" {
                for d in gone.iter() {
                    if wd.has_channel(*d) {
                        co.violations.push(Violation { kind: "forgotten-channel-resurrected".into(),
                            desc: format!("channel {} had been removed (forgotten stub / pruned) and exists again after the restart", d), at: i });
                    }
                }
            }
            if t[0] == "new" { if let Ok(d) = t[1].parse::<u64>() { if wd.has_channel(d) { gone.remove(&d); } } }
            // monitor: ready channels disappear only when allowed
            let ready_after = wd.ready_set();
            for d in ready_before.difference(&ready_after) {
                let allowed = t[0] == "heartbeat" && forgot_req.contains(d) && wd.buried(*d);
                co.tags.insert(format!("pruned:{}", if allowed { "allowed" } else { "NOT-ALLOWED" }));
                if let Some(k) = wd.burial_depth(*d) { if k <= MIN_DEPTH_SPEC + 1 { co.tags.insert(format!("pruned:at-depth-{}", k)); } }
                if !allowed {
                    co.violations.push(Violation { kind: "ready-channel-discarded-early".into(),
                        desc: format!("ready channel {} disappeared in `{}` (forget acknowledged: {}, terminal event buried >= {}: {})",
                                      d, op, forgot_req.contains(d), MIN_DEPTH_SPEC, wd.buried(*d)), at: i });
                }
            }
            if t[0] == "heartbeat" {
                for d in ready_after.iter() {
                    if forgot_req.contains(d) {
                        match wd.burial_depth(*d) {
                            Some(k) if k + 1 == MIN_DEPTH_SPEC => { co.tags.insert("kept:forgotten-at-depth-99".into()); }
                            None => { co.tags.insert("kept:forgotten-not-terminated-or-unswept".into()); }
                            _ => {}
                        }
                    }
                    if forgot_req.contains(d) && wd.buried(*d) { co.tags.insert("kept-although-prunable".into()); }
                }
            }
            let cls = if res == "ok" { "ok" } else if res.starts_with("err") { "err" } else { "bad-op" };
            co.out.push(format!("{} {}", cls, wd.digest()));
        }
        co.nontrivial = interesting;
        co
    }
}

pub fn groups() -> Vec<Box<dyn Group>> {
    vec![Box::new(C15)]
}
