//! C19: generators of the opaque leaves (transactions, PSBTs, txoo proofs) with the real libraries.
use crate::common::Rng;
use lightning_signer::bitcoin;
use lightning_signer::bitcoin::absolute::LockTime;
use lightning_signer::bitcoin::consensus::serialize;
use lightning_signer::bitcoin::hashes::Hash;
use lightning_signer::bitcoin::psbt::Psbt;
use lightning_signer::bitcoin::transaction::Version;
use lightning_signer::bitcoin::{
    Amount, OutPoint, ScriptBuf, Sequence, Transaction, TxIn, TxOut, Txid, Witness,
};
use lightning_signer::chain::tracker::Headers;
use lightning_signer::txoo::filter::BlockSpendFilter;
use lightning_signer::util::test_utils::make_testnet_header;
use std::sync::OnceLock;

/// script pubkeys around the witness-program boundary of `Script::is_witness_program`
pub fn gen_script(rng: &mut Rng) -> Vec<u8> {
    let prog = |v: u8, n: usize, rng: &mut Rng| {
        let mut s = vec![v, n as u8];
        s.extend(rng.bytes(n));
        s
    };
    match rng.below(14) {
        0 => prog(0x00, 20, rng),                  // p2wpkh
        1 => prog(0x00, 32, rng),                  // p2wsh
        2 => prog(0x51, 32, rng),                  // p2tr
        3 => prog(0x60, 2, rng),                   // OP_16, minimal program (len 4)
        4 => prog(0x60, 40, rng),                  // maximal program (len 42)
        5 => prog(0x00, 41, rng),                  // len 43: too long
        6 => prog(0x00, 1, rng),                   // len 3: too short
        7 => prog(0x50, 20, rng),                  // OP_RESERVED: not a version
        8 => prog(0x61, 20, rng),                  // OP_NOP: not a version
        9 => {
            let mut s = prog(0x00, 20, rng); // push length does not match
            s.push(0);
            s
        }
        10 => {
            let mut s = vec![0x76, 0xa9, 0x14]; // p2pkh
            s.extend(rng.bytes(20));
            s.extend([0x88, 0xac]);
            s
        }
        11 => {
            let mut s = vec![0xa9, 0x14]; // p2sh
            s.extend(rng.bytes(20));
            s.push(0x87);
            s
        }
        12 => vec![],
        _ => {
            let n = rng.below(50) as usize;
            rng.bytes(n)
        }
    }
}

pub fn gen_txout(rng: &mut Rng) -> TxOut {
    let v = match rng.below(4) {
        0 => 0,
        1 => 21_000_000 * 100_000_000,
        2 => u64::MAX,
        _ => rng.below(1 << 40),
    };
    TxOut { value: Amount::from_sat(v), script_pubkey: ScriptBuf::from(gen_script(rng)) }
}

pub fn gen_outpoint(rng: &mut Rng) -> OutPoint {
    let mut t = [0u8; 32];
    t.copy_from_slice(&rng.bytes(32));
    let vout = *rng.pick(&[0u32, 1, 2, 0xffff, u32::MAX]);
    OutPoint { txid: Txid::from_byte_array(t), vout }
}

/// a transaction; `signed` = inputs may carry script_sig / witness data
pub fn gen_tx(rng: &mut Rng, signed: bool, min_inputs: u64) -> Transaction {
    let nin = min_inputs + rng.below(3);
    let nout = rng.below(4);
    let input = (0..nin)
        .map(|_| TxIn {
            previous_output: gen_outpoint(rng),
            script_sig: if signed && rng.chance(1, 3) {
                let n = rng.below(30) as usize;
                ScriptBuf::from(rng.bytes(n))
            } else {
                ScriptBuf::new()
            },
            sequence: Sequence(*rng.pick(&[0u32, 1, 0xffff_fffd, u32::MAX])),
            witness: if signed && rng.chance(1, 2) {
                let k = 1 + rng.below(3) as usize;
                let items: Vec<Vec<u8>> = (0..k)
                    .map(|_| {
                        let n = rng.below(80) as usize;
                        rng.bytes(n)
                    })
                    .collect();
                Witness::from_slice(&items)
            } else {
                Witness::default()
            },
        })
        .collect();
    let output = (0..nout).map(|_| gen_txout(rng)).collect();
    Transaction {
        version: *rng.pick(&[Version::ONE, Version::TWO, Version::non_standard(0)]),
        lock_time: LockTime::from_consensus(*rng.pick(&[0u32, 1, 499_999_999, 500_000_000, u32::MAX])),
        input,
        output,
    }
}

/// PSBT whose decode as `StreamedPSBT` is the identity (no non_witness_utxo)
pub fn gen_psbt_plain(rng: &mut Rng) -> Psbt {
    let tx = gen_tx(rng, false, 0);
    let mut p = Psbt::from_unsigned_tx(tx).expect("unsigned");
    for i in p.inputs.iter_mut() {
        if rng.chance(1, 2) {
            // (a legacy p2pkh witness_utxo without previous tx is refused by the streamed decoder by
            // design; those are generated in the Streamed group, where the model refuses them too)
            let mut o = gen_txout(rng);
            while o.script_pubkey.is_p2pkh() {
                o = gen_txout(rng);
            }
            i.witness_utxo = Some(o);
        }
        if rng.chance(1, 4) {
            i.redeem_script = Some(ScriptBuf::from(rng.bytes(5)));
        }
    }
    for o in p.outputs.iter_mut() {
        if rng.chance(1, 4) {
            o.witness_script = Some(ScriptBuf::from(rng.bytes(7)));
        }
    }
    p
}

/// PSBT for a `PsbtWrapper` field (non_witness_utxo allowed: the plain wrapper keeps it)
pub fn gen_psbt_full(rng: &mut Rng) -> Psbt {
    let mut p = gen_psbt_plain(rng);
    let n = p.inputs.len();
    for k in 0..n {
        if rng.chance(1, 2) {
            let prev = gen_tx(rng, true, 1);
            p.unsigned_tx.input[k].previous_output.txid = prev.compute_txid();
            p.inputs[k].non_witness_utxo = Some(prev);
        }
    }
    p
}

static PROOFS: OnceLock<Vec<Vec<u8>>> = OnceLock::new();

/// serialised `TxoProof`s built by the repo's own test helper (filter proofs of different heights)
pub fn proofs() -> &'static Vec<Vec<u8>> {
    PROOFS.get_or_init(|| {
        let genesis = bitcoin::blockdata::constants::genesis_block(bitcoin::Network::Regtest);
        let filter = BlockSpendFilter::from_block(&genesis);
        let fh = filter.filter_header(&bitcoin::hash_types::FilterHeader::all_zeros());
        let mut tip = Headers(genesis.header, fh);
        let mut out = Vec::new();
        for h in 0..3u32 {
            let (header, proof) = make_testnet_header(&tip, h);
            out.push(serialize(&proof));
            tip = Headers(header, proof.filter_header());
        }
        out
    })
}

pub fn ser_tx(tx: &Transaction) -> Vec<u8> {
    serialize(tx)
}

// ------------------------------------------------------------------------------------------------
// leaves of an exact serialised size (length-prefix boundaries: 65534..65537, near MAX_MESSAGE_SIZE)

/// grow `pad` until `size(pad) == target` (the compact-size prefix of the padding moves the result by a
/// few bytes, so adjust by the difference a few times)
fn fit(target: usize, size: &dyn Fn(usize) -> usize) -> usize {
    let base = size(0);
    assert!(target >= base + 8, "target {} too small for a padded leaf (base {})", target, base);
    let mut pad = target - base;
    for _ in 0..8 {
        let s = size(pad);
        if s == target {
            return pad;
        }
        if s > target {
            pad -= s - target;
        } else {
            pad += target - s;
        }
    }
    panic!("cannot pad a leaf to exactly {} bytes", target);
}

/// a transaction whose consensus serialisation has exactly `target` bytes (padding: one output script)
pub fn gen_tx_sized(rng: &mut Rng, target: usize, signed: bool) -> Transaction {
    let mut tx = gen_tx(rng, signed, 1);
    tx.output.truncate(1);
    tx.output.push(TxOut { value: Amount::from_sat(1), script_pubkey: ScriptBuf::new() });
    let k = tx.output.len() - 1;
    let fill = rng.next() as u8;
    let with = |pad: usize| {
        let mut t = tx.clone();
        t.output[k].script_pubkey = ScriptBuf::from(vec![fill; pad]);
        t
    };
    let pad = fit(target, &|p| serialize(&with(p)).len());
    let t = with(pad);
    assert_eq!(serialize(&t).len(), target);
    t
}

/// a PSBT whose serialisation has exactly `target` bytes (padding: one unknown global key-value);
/// `plain` = no non_witness_utxo (its StreamedPSBT decode is the identity)
pub fn gen_psbt_sized(rng: &mut Rng, target: usize, plain: bool) -> Psbt {
    let base = if plain { gen_psbt_plain(rng) } else { gen_psbt_full(rng) };
    let fill = rng.next() as u8;
    let with = |pad: usize| {
        let mut p = base.clone();
        p.unknown.insert(
            bitcoin::psbt::raw::Key { type_value: 0x7f, key: vec![0x42] },
            vec![fill; pad],
        );
        p
    };
    let pad = fit(target, &|p| with(p).serialize().len());
    let p = with(pad);
    assert_eq!(p.serialize().len(), target);
    p
}

/// a `TxoProof` of exactly `target` serialised bytes: the attestations of a helper-built proof with a
/// `ProofType::Block` payload (a block holding one padded transaction)
pub fn gen_proof_sized(rng: &mut Rng, target: usize) -> Vec<u8> {
    use lightning_signer::txoo::proof::{ProofType, TxoProof};
    let base: TxoProof = bitcoin::consensus::deserialize(&proofs()[0]).expect("proof");
    let genesis = bitcoin::blockdata::constants::genesis_block(bitcoin::Network::Regtest);
    let mut tx = gen_tx(rng, true, 1);
    tx.output.truncate(1);
    tx.output.push(TxOut { value: Amount::from_sat(1), script_pubkey: ScriptBuf::new() });
    let k = tx.output.len() - 1;
    let with = |pad: usize| {
        let mut t = tx.clone();
        t.output[k].script_pubkey = ScriptBuf::from(vec![0x6a; pad]);
        let block = bitcoin::Block { header: genesis.header, txdata: vec![t] };
        TxoProof { attestations: base.attestations.clone(), proof: ProofType::Block(block) }
    };
    let pad = fit(target, &|p| serialize(&with(p)).len());
    let out = serialize(&with(pad));
    assert_eq!(out.len(), target);
    out
}

/// the third proof shape: block delivered separately
pub fn proof_external() -> Vec<u8> {
    use lightning_signer::txoo::proof::{ProofType, TxoProof};
    let base: TxoProof = bitcoin::consensus::deserialize(&proofs()[0]).expect("proof");
    serialize(&TxoProof { attestations: base.attestations, proof: ProofType::ExternalBlock() })
}
