//! C08 / C09, the wallet decision logic itself: the real `impl Wallet for Node` (`can_spend`, `allowlist_contains`,
//! vls-core/src/node.rs) against the Lean model `wallet` (Model/Wallet.lean), which decides from the *structure* of the
//! script (which address form of which derived key) and of the allowlist.
//!
//! Op lines (fed to the model unchanged; each op builds its own node):
//!   cs <style n|l|d> <path> <desc>                     -> t | f | e   (Ok(true) / Ok(false) / Err)
//!   al <style> <allow items a,b,..|-> <path> <desc>    -> y | n | p   (true / false / panic)
//!   desc / allow item: W/<path>/<ty>, X<j>/<path>/<ty> (child of the foreign extended key j), F/<n>/<ty>, R/<len>;
//!   allow items also x<j> (allowlisted extended key; x9 = the node's own account xpub); ty: w p2wpkh, s p2sh-p2wpkh, t p2tr, k p2pkh, h p2wsh(key)
//!
//! Monitors (by construction of the descriptor, independent of the model): `wallet-spends-foreign-script` (can_spend
//! says true for a script that is not a segwit form of the node's own key at that very path), `allowlist-accepts-unlisted`
//! (allowlist_contains says true for a script that is neither listed nor a p2wpkh/p2pkh/p2tr child at that path of an
//! allowlisted extended key).
use super::{allow_script, ext_xpub, parse_path, path_str, to_dp, validator_factory, Desc, HARD, NET, OWN_XPUB};
use crate::common::*;
use lightning_signer::node::{Allowable, Node, NodeConfig, NodeServices};
use lightning_signer::policy::simple_validator::make_default_simple_policy;
use lightning_signer::signer::derive::KeyDerivationStyle;
use lightning_signer::util::clock::ManualClock;
use lightning_signer::util::test_utils::*;
use lightning_signer::wallet::Wallet;
use std::panic::{catch_unwind, AssertUnwindSafe};
use std::sync::Arc;
use std::time::Duration;

pub struct C08Wallet;

fn style_of(s: &str) -> Option<KeyDerivationStyle> {
    match s {
        "n" => Some(KeyDerivationStyle::Native),
        "l" => Some(KeyDerivationStyle::Ldk),
        "d" => Some(KeyDerivationStyle::Lnd),
        _ => None,
    }
}

fn make_node(style: KeyDerivationStyle, allow: &[String]) -> Option<Arc<Node>> {
    let services = NodeServices {
        validator_factory: validator_factory(make_default_simple_policy(NET), false),
        starting_time_factory: make_genesis_starting_time_factory(NET),
        persister: Arc::new(lightning_signer::persist::DummyPersister {}),
        clock: Arc::new(ManualClock::new(Duration::from_secs(1_600_000_000))),
        trusted_oracle_pubkeys: vec![],
    };
    let config = NodeConfig { network: NET, key_derivation_style: style, use_checkpoints: false, allow_deep_reorgs: false };
    let mut seed = [0u8; 32];
    seed.copy_from_slice(&hex::decode(TEST_SEED[1]).unwrap());
    let node0 = Node::new(config, &seed, vec![], services.clone());
    let mut al = vec![];
    for a in allow {
        if let Some(j) = a.strip_prefix('x') {
            let j: u32 = j.parse().ok()?;
            al.push(Allowable::XPub(if j == OWN_XPUB { node0.get_account_extended_pubkey() } else { ext_xpub(j) }));
        } else {
            al.push(Allowable::Script(allow_script(&node0, a)?));
        }
    }
    Some(Arc::new(Node::new(config, &seed, al, services)))
}

fn items(s: &str) -> Vec<String> {
    if s == "-" || s.is_empty() { vec![] } else { s.split(',').map(|x| x.to_string()).collect() }
}

/// is `d` one of the forms `tys` of the key that the extended key `j` (9 = the node's account key) derives at `path`?
fn child_of(d: &Desc, j: u32, path: &[u32], tys: &str) -> bool {
    match d {
        Desc::W(p, t) => j == OWN_XPUB && p.as_slice() == path && tys.contains(*t),
        // a descriptor X<k> is always a child of the *foreign* extended key k (also for k = 9)
        Desc::X(k, p, t) => *k == j && j != OWN_XPUB && p.as_slice() == path && tys.contains(*t),
        _ => false,
    }
}

impl Group for C08Wallet {
    fn property(&self) -> &'static str { "C08" }
    fn model(&self) -> Option<&'static str> { Some("wallet") }
    fn rule(&self) -> &'static str {
        "wallet decision logic: the real Node::can_spend / allowlist_contains (all three key-derivation styles; paths of length 0-3 with \
         hardened components; scripts = every address form of own, foreign-xpub and foreign keys at the same / another path, raw scripts; \
         allowlists of scripts and extended keys incl. the node's own account xpub) against the structural Lean model; non-trivial = \
         both a positive and a negative (or error/panic) answer occur"
    }
    fn budget(&self, tier: Tier) -> usize { if tier == Tier::Quick { 400 } else { 8000 } }
    fn corpus(&self) -> Vec<Vec<String>> {
        let c = |s: &str| s.split('|').map(|x| x.to_string()).collect::<Vec<String>>();
        vec![
            // the three spendable forms, p2pkh and p2wsh of the own key, another path, wrong path length, empty path
            c("cs n 5 W/5/w|cs n 5 W/5/s|cs n 5 W/5/t|cs n 5 W/5/k|cs n 5 W/5/h|cs n 5 W/6/w|cs n 1.2 W/1.2/w|cs n - W/5/w"),
            c("cs d 1.2 W/1.2/t|cs d 1 W/1/w|cs l 1.2.3 W/1.2.3/s|cs l 5h W/5h/w|cs n 5 X9/5/w|cs n 5 X1/5/w|cs n 5 F/3/w"),
            // listed scripts; children of allowlisted extended keys: p2wpkh/p2pkh/p2tr yes, p2sh-p2wpkh no; own xpub; hardened path
            c("al n W/7/k - W/7/k|al n F/3/s 4 F/3/s|al n x1 5 X1/5/w|al n x1 5 X1/5/k|al n x1 5 X1/5/t|al n x1 5 X1/5/s|al n x1 5 X2/5/w"),
            c("al n x1 6 X1/5/w|al n x1 - X1/5/w|al n x9 5 W/5/w|al n x9 5 W/5/k|al n x1 5h X1/5/w|al n F/3/w 5h X1/5/w|al n x1,F/3/w 5h F/3/w|al n - 5h W/5/w"),
        ]
    }
    fn gen_case(&self, rng: &mut Rng, _tier: Tier) -> Vec<String> {
        let n = rng.range(4, 10);
        let mut ops = vec![];
        let style = *rng.pick(&["n", "n", "l", "d"]);
        for _ in 0..n {
            let plen = match style { "n" => *rng.pick(&[1u64, 1, 1, 0, 2]), "d" => *rng.pick(&[2u64, 2, 2, 0, 1, 3]), _ => rng.range(0, 3) };
            let comp = |rng: &mut Rng| { let c = rng.below(4) as u32; if rng.chance(1, 8) { c | HARD } else { c } };
            let path: Vec<u32> = (0..plen).map(|_| comp(rng)).collect();
            let other: Vec<u32> = { let mut p = path.clone(); if p.is_empty() || rng.chance(1, 2) { p.push(rng.below(3) as u32) } else { let k = p.len() - 1; p[k] = (p[k] & !HARD).wrapping_add(1) } p };
            // a hardened component cannot be derived through a foreign xpub when the harness builds the script: keep X paths soft
            let soft = |p: &Vec<u32>| p.iter().map(|c| c & !HARD).collect::<Vec<u32>>();
            let ty = *rng.pick(&['w', 'w', 's', 't', 'k', 'h']);
            let j = *rng.pick(&[1u32, 2, OWN_XPUB]);
            let d = match rng.below(8) {
                0 | 1 | 2 => Desc::W(path.clone(), ty),
                3 => Desc::W(other.clone(), ty),
                4 | 5 => Desc::X(j, soft(&path), ty),
                6 => if rng.chance(1, 2) { Desc::X(j, soft(&other), ty) } else { Desc::F(rng.below(4) as u32, ty) },
                _ => Desc::R(1 + rng.below(40) as usize),
            };
            if rng.chance(1, 2) {
                ops.push(format!("cs {} {} {}", style, path_str(&path), d.to_string()));
            } else {
                let mut al: Vec<String> = vec![];
                if rng.chance(1, 3) { al.push(d.to_string()) }
                if rng.chance(1, 3) { al.push(Desc::F(rng.below(4) as u32, 'w').to_string()) }
                if rng.chance(1, 4) { al.push(Desc::W(other.clone(), 'w').to_string()) }
                for x in [1u32, 2, OWN_XPUB] { if rng.chance(1, 3) { al.push(format!("x{}", x)) } }
                // mostly ask with the soft path when an xpub is listed (a hardened one panics), sometimes not
                let ask = if rng.chance(3, 4) { soft(&path) } else { path.clone() };
                ops.push(format!("al {} {} {} {}", style, if al.is_empty() { "-".to_string() } else { al.join(",") }, path_str(&ask), d.to_string()));
            }
        }
        ops
    }
    fn exec_case(&self, ops: &[String]) -> CaseOut {
        let mut co = CaseOut::default();
        let (mut pos, mut neg) = (false, false);
        for (i, op) in ops.iter().enumerate() {
            let t: Vec<&str> = op.split_whitespace().collect();
            let line = match t.as_slice() {
                ["cs", st, p, d] => (|| {
                    let node = make_node(style_of(st)?, &[])?;
                    let path = parse_path(p)?;
                    let desc = Desc::parse(d)?;
                    let script = allow_script(&node, d)?;
                    let r = match node.can_spend(&to_dp(&path), &script) { Ok(true) => "t", Ok(false) => "f", Err(_) => "e" };
                    co.tags.insert(format!("cs:{}", r));
                    if r == "t" {
                        pos = true;
                        if !child_of(&desc, OWN_XPUB, &path, "wst") {
                            co.violations.push(Violation { kind: "wallet-spends-foreign-script".into(), desc: format!("can_spend({}, {}) = Ok(true) although the script is not a p2wpkh / p2sh-p2wpkh / p2tr form of the node's key at that path", p, d), at: i });
                        }
                    } else {
                        neg = true;
                    }
                    Some(r.to_string())
                })().unwrap_or_else(|| "bad-op".into()),
                ["al", st, al, p, d] => (|| {
                    let allow = items(al);
                    let node = make_node(style_of(st)?, &allow)?;
                    let path = parse_path(p)?;
                    let desc = Desc::parse(d)?;
                    let script = allow_script(&node, d)?;
                    let r = match catch_unwind(AssertUnwindSafe(|| node.allowlist_contains(&script, &to_dp(&path)))) {
                        Ok(true) => "y", Ok(false) => "n", Err(_) => "p",
                    };
                    co.tags.insert(format!("al:{}", r));
                    if r == "y" {
                        pos = true;
                        let listed = allow.iter().any(|a| !a.starts_with('x') && allow_script(&node, a).map(|s| s == script).unwrap_or(false));
                        let via_xpub = !path.is_empty() && allow.iter().filter_map(|a| a.strip_prefix('x')).filter_map(|j| j.parse::<u32>().ok()).any(|j| child_of(&desc, j, &path, "wkt"));
                        if !listed && !via_xpub {
                            co.violations.push(Violation { kind: "allowlist-accepts-unlisted".into(), desc: format!("allowlist_contains({}, {}) = true with allowlist [{}]", d, p, al), at: i });
                        }
                    } else {
                        neg = true;
                    }
                    Some(r.to_string())
                })().unwrap_or_else(|| "bad-op".into()),
                _ => "bad-op".into(),
            };
            co.out.push(line);
        }
        co.nontrivial = pos && neg;
        co
    }
}
