//! C05 — accepted commitments satisfy every mandatory policy bound.
//!
//! One group against the Lean model `policy`: a real `Node` + channel per case, validator factory
//! `SimpleValidatorFactory::new_with_policy(policy)` (optionally wrapped in `OnchainValidatorFactory`),
//! requests through `Node::setup_channel`, `sign_counterparty_commitment_tx_phase2`,
//! `validate_holder_commitment_tx_phase2`, `revoke_previous_holder_commitment`,
//! `validate_counterparty_revocation`.  Monitor: `WithinBounds` evaluated with u128 arithmetic on every
//! ACCEPTED request (see `c05_world.rs::monitor_commitment`), independent of the model.
use crate::common::*;

#[path = "c05_world.rs"]
pub mod world;
use world::*;

pub struct C05;

const DIV1000: u64 = u64::MAX / 1000; // largest v with v*1000 <= u64::MAX

fn weight(anchors: bool, k: usize) -> u128 {
    (if anchors { 1124 } else { 724 }) + 172 * k as u128
}

/// smallest / largest fee whose estimated feerate floor((fee*1000+999)/w) equals `rate`
fn fee_for_rate(rate: u128, w: u128, hi: bool) -> u128 {
    if hi {
        (((rate + 1) * w).saturating_sub(1000)) / 1000
    } else {
        (rate * w).saturating_sub(999).div_ceil(1000)
    }
}

pub struct Plan {
    pub pol: Pol,
    pub setup: SetupNums,
    pub height: u64,
}

fn pick_u64(rng: &mut Rng, xs: &[u64]) -> u64 {
    *rng.pick(xs)
}

/// policy × setup with bounds drawn around each other's edges
pub fn gen_plan(rng: &mut Rng) -> Plan {
    let mut pol = Pol::default_testnet();
    let outbound = rng.chance(1, 2);
    let value = match rng.below(20) {
        0 => pick_u64(rng, &[4_294_967_296, 5_000_000_000, 4_000_000_000]),
        1 => pick_u64(rng, &[DIV1000, DIV1000 - 1, DIV1000 / 2]),
        2 if !outbound || rng.chance(1, 4) => pick_u64(rng, &[DIV1000 + 1, u64::MAX, u64::MAX - 1, 1 << 63]),
        3 => pick_u64(rng, &[1_000_000_000, 1_000_000_001, 1_000_000_002]),
        4 => rng.range(100_000, 50_000_000),
        _ => pick_u64(rng, &[3_000_000, 10_000_000, 16_777_216, 100_000_000]),
    };
    pol.max_chan = match rng.below(8) {
        0 => value.saturating_sub(1),
        1 => value,
        2 => value.saturating_add(1),
        3 => u64::MAX,
        _ => pol.max_chan.max(value),
    };
    pol.onchain = rng.chance(1, 3);
    pol.use_chain = rng.chance(1, 3);
    pol.min_delay = pick_u64(rng, &[4, 4, 4, 4, 4, 4, 0, 1, 6, 7, 144, 65535]);
    pol.max_delay = pick_u64(rng, &[2016, 2016, 2016, 2016, 2016, 2016, 7, 6, 65535, 144]);
    pol.min_fee = pick_u64(rng, &[0, 253, 253, 253, 1000, 254]);
    pol.max_fee = pick_u64(rng, &[333_333, 333_333, 25_000, 1000, 4_294_967, 4_294_967_294, 4_294_967_295]);
    pol.eps = pick_u64(rng, &[10_000, 0, 1, 1_000_000]);
    pol.mask = match rng.below(12) {
        0 => 1 << rng.below(12),
        1 => (1 << rng.below(12)) | (1 << rng.below(24)),
        2 if rng.chance(1, 3) => 1 << BIT_PERMISSIVE,
        3 => 1 << BIT_NEAR_MISS,
        // only tags of OTHER paths demoted (mutual close, sequencing): every commitment bound stays enforced
        4 => (1 << (12 + rng.below(12))) | (1 << (12 + rng.below(12))),
        _ => 0,
    };
    // ordered multi-rule filters with overlaps on a commitment / setup / size / on-chain tag
    if rng.chance(1, 6) {
        pol.rules = gen_overlap_rules(rng, &[0, 1, 2, 3, 4, 5, 6, 7, 8, 9, 10, 11]);
        if rng.chance(2, 3) { pol.mask = 0 }
    }
    let edge = |rng: &mut Rng, lo: u64, hi: u64| -> u64 {
        match rng.below(20) {
            0 => lo.saturating_sub(1),
            1 => lo,
            2 => hi,
            3 => hi.saturating_add(1).min(65535),
            _ => lo.max(6).min(hi.max(lo)),
        }
    };
    let holder_delay = edge(rng, pol.min_delay, pol.max_delay);
    let cp_delay = edge(rng, pol.min_delay, pol.max_delay);
    let ctype = pick_u64(rng, &[1, 1, 1, 3, 3, 3, 1, 3, 1, 3, 1, 3, 1, 3, 0, 2]);
    let push = if outbound {
        match rng.below(8) {
            0 => value.saturating_mul(1000),
            1 => value.saturating_mul(1000).saturating_add(1),
            2 => rng.below(value.min(1_000_000)) * 1000 + rng.below(1000),
            3 => 354_000 + rng.below(3) * 999,
            _ => 0,
        }
    } else {
        pick_u64(rng, &[0, 0, 1_000_000, u64::MAX])
    };
    let height = pick_u64(rng, &[1000, 1000, 700_000, 499_999_000, 499_997_900, 4_294_900_000, 4_294_967_290]);
    Plan {
        pol,
        setup: SetupNums { outbound, value, push, holder_delay, cp_delay, ctype, upfront: 0, up_spend: false, up_allow: false },
        height,
    }
}

/// one commitment content aimed at the edges of `plan`'s bounds; `mutate` = leave exactly one bound
pub fn gen_commit(rng: &mut Rng, plan: &mut Plan, n: u64, mutate: bool, tune: bool) -> Commit {
    let pol = &mut plan.pol;
    let s = &plan.setup;
    let anchors = s.anchors();
    let k_off = if n == 0 && !mutate { 0 } else { rng.below(3) as usize };
    let k_recv = if n == 0 && !mutate { 0 } else { rng.below(3) as usize };
    let k = k_off + k_recv;
    let w = weight(anchors, k);
    let feerate = pick_u64(rng, &[0, 253, 1000, 7500, 50_000, 4_294_967_295]);
    let lim_off = if s.zero_fee() { 354 } else { 330 + feerate as u128 * 663 / 1000 } as u64;
    let lim_recv = if s.zero_fee() { 354 } else { 330 + feerate as u128 * 703 / 1000 } as u64;
    let (lo_e, hi_e) = if pol.use_chain {
        ((plan.height + pol.min_delay).min(4_294_967_295), (plan.height + pol.max_delay).min(499_999_999))
    } else {
        (1, 499_999_999)
    };
    let mut mk = |rng: &mut Rng, lim: u64| -> (u64, u64) {
        let v = match rng.below(6) {
            0 => lim,
            1 => lim + 1,
            _ => lim + rng.below(20_000),
        };
        let e = match rng.below(6) {
            0 => lo_e,
            1 => hi_e,
            _ if hi_e >= lo_e => rng.range(lo_e, hi_e),
            _ => lo_e,
        };
        (v, e)
    };
    let mut offered: Vec<(u64, u64)> = (0..k_off).map(|_| mk(rng, lim_off)).collect();
    let mut received: Vec<(u64, u64)> = (0..k_recv).map(|_| mk(rng, lim_recv)).collect();
    // --- choose which bound to leave (if any) ---
    let which = if mutate { rng.below(12) } else { 99 };
    match which {
        // below the trim limit by one, far below, and the degenerate values 0 and 1
        0 if !offered.is_empty() => offered[0].0 = pick_u64(rng, &[lim_off.saturating_sub(1), lim_off.saturating_sub(301), 0, 1]),
        1 if !received.is_empty() => received[0].0 = pick_u64(rng, &[lim_recv.saturating_sub(1), lim_recv.saturating_sub(1), 0, 1]),
        2 if k > 0 => {
            let e = pick_u64(rng, &[500_000_000, 500_000_001, 4_294_967_295, lo_e.saturating_sub(1), (hi_e + 1).min(4_294_967_295), 0]);
            if !offered.is_empty() { offered[0].1 = e } else { received[0].1 = e }
        }
        3 if k > 0 => {
            // extreme HTLC value (msat conversion / sum overflow candidates)
            let v = pick_u64(rng, &[DIV1000, DIV1000 + 1, u64::MAX, u64::MAX / 2 + 1, DIV1000 - 250]);
            if !offered.is_empty() { offered[0].0 = v } else { received[0].0 = v }
        }
        _ => {}
    }
    let sum_htlc: u128 = offered.iter().chain(received.iter()).map(|(v, _)| *v as u128).sum();
    if tune {
        // move the count / in-flight limits next to this commitment
        match rng.below(8) {
            0 => pol.max_htlcs = (k as u64).saturating_sub(1),
            1 => pol.max_htlcs = k as u64,
            2 => pol.max_htlcs = k as u64 + 1,
            _ => {}
        }
        if sum_htlc <= u64::MAX as u128 {
            match rng.below(8) {
                0 => pol.max_htlc_value = (sum_htlc as u64).saturating_sub(1),
                1 => pol.max_htlc_value = sum_htlc as u64,
                2 => pol.max_htlc_value = (sum_htlc as u64).saturating_add(1),
                3 => pol.max_htlc_value = u64::MAX,
                _ => {}
            }
        }
    }
    // --- fee ---
    let (minf, maxf) = (pol.min_fee as u128, pol.max_fee as u128);
    let mut fee: u128 = match rng.below(10) {
        0 => fee_for_rate(minf, w, false),
        1 => fee_for_rate(maxf, w, true),
        2 => fee_for_rate(maxf, w, false),
        _ => {
            let r = if maxf > minf { minf + (rng.next() as u128 % (maxf - minf + 1).min(20_000)) } else { minf };
            fee_for_rate(r, w, rng.chance(1, 2))
        }
    };
    if which == 4 {
        fee = match rng.below(8) {
            0 => fee_for_rate(minf, w, false).saturating_sub(1),
            1 => fee_for_rate(maxf, w, true) + 1,
            2 => (1u128 << 32) * w / 1000 + rng.below(1000) as u128, // `as u32` truncation region
            3 => (1u128 << 32) * w / 1000 + fee_for_rate(minf + 700, w, false),
            4 => DIV1000 as u128 + 1 + rng.below(3) as u128,         // fee*1000 overflows u64
            5 => DIV1000 as u128 - rng.below(2) as u128,
            6 => s.value as u128,
            _ => 0,
        };
    }
    let avail = (s.value as u128).saturating_sub(fee).saturating_sub(sum_htlc);
    let avail = avail.min(u64::MAX as u128) as u64;
    let (mut to_holder, mut to_cp);
    if n == 0 && s.outbound {
        to_cp = (s.push / 1000).min(avail);
        to_holder = avail - to_cp;
    } else {
        to_cp = match rng.below(6) {
            0 => 0,
            1 => 354.min(avail),
            2 => avail,
            _ => rng.below(avail.saturating_add(1).max(1)),
        };
        if to_cp > 0 && to_cp < 354 { to_cp = 0 }
        to_holder = avail - to_cp;
        if to_holder > 0 && to_holder < 354 {
            to_holder = 0; // becomes fee
        }
    }
    match which {
        5 => to_cp = pick_u64(rng, &[1, 353, 329]),
        6 => to_holder = pick_u64(rng, &[1, 353]),
        7 => to_cp = to_cp.saturating_add(1),                         // outputs exceed value by one / fundee overpaid
        8 => to_holder = pick_u64(rng, &[u64::MAX, u64::MAX - to_cp, u64::MAX / 2 + 1]),
        9 => to_cp = pick_u64(rng, &[u64::MAX, u64::MAX - to_holder]),
        10 if n == 0 && s.outbound => to_cp = s.push / 1000 + 1,
        _ => {}
    }
    Commit { n, feerate, to_holder, to_cp, offered, received }
}

/// The generator's own simulation of the chain as seen by the channel's monitor: the channel is set up at
/// height 3 (three seed headers); `blocks[i]` is the kind of the block at height 4+i
/// (0 = unrelated, 1 = contains the funding tx, 2/3/4 = contains a spend of the funding outpoint: a plain
/// transaction, the holder's commitment, the counterparty's commitment).
pub struct ChainSim {
    pub blocks: Vec<u64>,
    /// height at which the channel was set up (3 seed headers + the blocks between stub creation and setup)
    pub base: u64,
}

impl ChainSim {
    pub fn new() -> ChainSim {
        ChainSim { blocks: Vec::new(), base: 3 }
    }
    pub fn with_gap(gap: u64) -> ChainSim {
        ChainSim { blocks: Vec::new(), base: 3 + gap }
    }
    pub fn state(&self) -> (u64, u64, u64) {
        let n = self.blocks.len() as u64;
        let depth = |ks: &[u64]| self.blocks.iter().position(|b| ks.contains(b)).map(|i| n - i as u64).unwrap_or(0);
        (self.base + n, depth(&[1]), depth(&[2, 3, 4, 5, 6, 7]))
    }
    pub fn good(&self) -> bool {
        let (_, fd, cd) = self.state();
        fd >= 1 && cd == 0
    }
    pub fn can(&self, kind: u64) -> bool {
        match kind {
            1 => !self.blocks.contains(&1),
            2..=7 => self.blocks.contains(&1) && !self.blocks.iter().any(|b| *b >= 2),
            _ => true,
        }
    }
    pub fn blk(&mut self, kind: u64) -> String {
        self.blocks.push(kind);
        let (h, fd, cd) = self.state();
        format!("blk {} {} {} {}", kind, h, fd, cd)
    }
    pub fn unblk(&mut self) -> Option<String> {
        self.blocks.pop()?;
        let (h, fd, cd) = self.state();
        Some(format!("unblk {} {} {}", h, fd, cd))
    }
}

/// with use_chain_state: sometimes move the first HTLC's expiry onto / just outside the edges of the window
/// `[height + min_delay, height + max_delay]` of the REAL current height; returns whether all expiries are inside
fn expiry_edge(rng: &mut Rng, pol: &Pol, height: u64, cm: &mut Commit) -> bool {
    if !pol.use_chain {
        return true;
    }
    let (lo, hi) = (height + pol.min_delay, height + pol.max_delay);
    if rng.chance(1, 3) {
        let e = pick_u64(rng, &[lo, lo.saturating_sub(1), lo.saturating_sub(2), lo.saturating_sub(5), height, hi, hi + 1]);
        if let Some(h) = cm.offered.first_mut() { h.1 = e } else if let Some(h) = cm.received.first_mut() { h.1 = e }
    }
    !pol.errs(BIT_CLTV) || cm.offered.iter().chain(cm.received.iter()).all(|(_, e)| *e >= lo && *e <= hi && *e < 500_000_000)
}

/// On-chain-validator scenarios: valid contents, so that acceptance depends on the chain state (funding
/// confirmed to depth 0/1/2, reorged out, funding outpoint spent, spend reorged out — all through real
/// blocks) and on which side's counter is ahead; both orders of (holder validate N, counterparty sign N),
/// retries of already signed / validated numbers, chain changes interleaved anywhere.
pub fn gen_onchain_case(rng: &mut Rng) -> Vec<String> {
    let mut pol = Pol::default_testnet();
    pol.onchain = true;
    pol.mask = if rng.chance(1, 12) { 1 << BIT_ACTIVE_UTXO } else { 0 };
    if rng.chance(1, 8) {
        pol.rules = gen_overlap_rules(rng, &[BIT_ACTIVE_UTXO]);
    }
    let outbound = rng.chance(1, 2);
    let setup = SetupNums {
        outbound, value: 3_000_000 + rng.below(3) * 1_000_000, push: 0, holder_delay: 6, cp_delay: 7,
        ctype: pick_u64(rng, &[1, 3]), upfront: 0, up_spend: false, up_allow: false,
    };
    // blocks that arrive between the creation of the channel stub and setup_channel: the monitor must start at the
    // tracker's height at setup time; with use_chain_state the HTLC expiry window hangs on that height
    let gap = pick_u64(rng, &[0, 0, 0, 1, 2, 5, 9]);
    pol.use_chain = rng.chance(1, 3);
    let mut plan = Plan { pol: pol.clone(), setup: setup.clone(), height: 3 + gap };
    let mut ops = vec![pol.line(), format!("{} {} {}", setup.line(), if rng.chance(1, 4) { 1 + rng.below(2) } else { 0 }, gap)];
    let mut sim = ChainSim::with_gap(gap);
    // expected counters and the contents last accepted per number
    let (mut nh, mut nc, mut nr) = (0u64, 0u64, 0u64);
    let mut pending: Option<Commit> = None;
    let mut cur_hold: Option<Commit> = None;
    let mut cur_cp: Option<Commit> = None;
    // what spends the funding outpoint: a plain transaction (reads as a mutual close) or a real commitment
    // transaction -- the holder's current (3) or validated-but-pending next (6) one, the counterparty's current (4)
    // or previous, not yet revoked (5) one -- in every filter mode (F-C05-M1 is fixed in /repo, e2a60ca)
    // (7 = a cooperative close with a non-zero lock time, as the newer closing protocol or any counterparty may craft it)
    let spend_kinds: &[u64] = &[2, 3, 4, 5, 6, 7, 7];
    let gate_ok = |sim: &ChainSim, n: u64, pol: &Pol| n == 0 || sim.good() || !pol.errs(BIT_ACTIVE_UTXO);
    // a scripted prefix that puts one side ahead of the other, then the free walk
    let mut script: Vec<&str> = match rng.below(6) {
        0 => vec!["cp", "hold", "revoke", "fund", "hold", "revoke", "bad", "cp", "cpretry", "holdretry", "heal", "cp"],
        1 => vec!["fund", "cp", "hold", "revoke", "cp", "bad", "hold", "cpretry", "holdretry", "heal", "hold", "revoke"],
        2 => vec!["cp", "hold", "revoke", "hold", "fund", "hold", "revoke", "cprevoke", "cp", "spend", "cp", "hold"],
        _ => vec![],
    };
    script.reverse();
    let steps = 8 + rng.below(14);
    for _ in 0..steps {
        let act: &str = match script.pop() {
            Some(a) => a,
            None => *rng.pick(&["cp", "cp", "hold", "hold", "revoke", "revoke", "cprevoke", "cpretry", "holdretry",
                                "holdagain", "fund", "mine", "mine", "spend", "unblk", "unblk", "bad", "heal"]),
        };
        match act {
            "fund" => if sim.can(1) { ops.push(sim.blk(1)) } else { ops.push(sim.blk(0)) },
            "mine" => ops.push(sim.blk(0)),
            // the funding outpoint is spent: by a plain tx (mutual close), by the holder's commitment or by the
            // counterparty's commitment (unilateral closes, outputs not yet swept)
            "spend" => if sim.can(2) { ops.push(sim.blk(pick_u64(rng, spend_kinds))) } else if sim.can(1) { ops.push(sim.blk(1)) },
            "unblk" => if let Some(l) = sim.unblk() { ops.push(l) },
            "bad" => {
                // make the chain state bad for new commitments: reorg the funding out, or spend it
                if sim.good() {
                    if rng.chance(1, 2) {
                        while sim.blocks.contains(&1) { ops.push(sim.unblk().unwrap()) }
                    } else {
                        if rng.chance(1, 2) { ops.push(sim.blk(0)) }
                        ops.push(sim.blk(pick_u64(rng, spend_kinds)));
                    }
                }
            }
            "heal" => {
                // back to a good state: reorg the spend out and/or (re)confirm the funding
                while sim.blocks.iter().any(|b| *b >= 2) { ops.push(sim.unblk().unwrap()) }
                if sim.can(1) { ops.push(sim.blk(1)) }
                if rng.chance(1, 2) { ops.push(sim.blk(0)) }
            }
            "cp" => {
                let n = nc;
                plan.height = sim.state().0;
                let mut cm = gen_commit(rng, &mut plan, n, false, false);
                let in_window = expiry_edge(rng, &pol, sim.state().0, &mut cm);
                ops.push(cm.cp_line(2 * rng.chance(1, 3) as u64));
                if n <= nr + 1 && gate_ok(&sim, n, &pol) && in_window { nc += 1; cur_cp = Some(cm) }
            }
            "cpretry" => if let Some(cm) = &cur_cp {
                let mut cm2 = cm.clone();
                if rng.chance(1, 4) { cm2.to_cp = cm2.to_cp.wrapping_add(1) }
                ops.push(cm2.cp_line(0));
            },
            "hold" => {
                let n = nh;
                plan.height = sim.state().0;
                let mut cm = gen_commit(rng, &mut plan, n, false, false);
                let in_window = expiry_edge(rng, &pol, sim.state().0, &mut cm);
                ops.push(cm.hold_line_x(true, rng.chance(1, 3)));
                if gate_ok(&sim, n, &pol) && in_window { pending = Some(cm) }
            }
            "holdagain" => if let Some(cm) = &pending { ops.push(cm.hold_line(true)) },
            "holdretry" => if let Some(cm) = &cur_hold {
                let mut cm2 = cm.clone();
                if rng.chance(1, 4) { cm2.to_holder = cm2.to_holder.wrapping_add(1) }
                ops.push(cm2.hold_line(true));
            },
            "revoke" => {
                ops.push(format!("revoke {}", nh));
                if let Some(cm) = pending.take() { cur_hold = Some(cm); nh += 1 }
            }
            _ => {
                ops.push(format!("cprevoke {}", nr));
                if nc >= nr + 2 { nr += 1 }
            }
        }
    }
    ops
}

impl Group for C05 {
    fn property(&self) -> &'static str {
        "C05"
    }
    fn model(&self) -> Option<&'static str> {
        Some("policy")
    }
    fn rule(&self) -> &'static str {
        "non-trivial = at least one request accepted by the real signer AND at least one refused (or a panic) in the same case; every case draws policy bounds, setup and commitment contents around each other's edges"
    }
    fn budget(&self, tier: Tier) -> usize {
        match tier {
            Tier::Quick => 2500,
            Tier::Thorough => 40000,
        }
    }
    fn corpus(&self) -> Vec<Vec<String>> {
        let v = |s: &[&str]| s.iter().map(|x| x.to_string()).collect::<Vec<_>>();
        vec![
            // F5 witness (DESIGN.md §4): 31 BTC fee on weight 724 must be refused after the fix
            v(&[
                "policy 0 4 2016 5000000000 10000 1000 16777216 0 253 333333 222000 0",
                "setup 1 4000000000 0 6 7 1 0 0 0",
                "cp 0 0 1000 890442954 0 0 0",
                "cp 0 0 1000 3999758667 0 0 0",
                "cp 0 0 1000 3999758666 0 0 0",
            ]),
            // default policy, plain life cycle with an HTLC, retry, stale and future numbers
            v(&[
                "policy 0 4 2016 1000000001 10000 1000 16777216 0 253 333333 222000 0",
                "setup 1 3000000 0 6 7 1 0 0 0",
                "cp 0 0 0 2999000 0 0 0",
                "hold 0 0 2999000 0 0 0 1",
                "revoke 0",
                "cp 1 0 1000 1989000 1000000 1 10000 500 0",
                "cp 1 0 1000 1989000 1000000 1 10000 500 0",
                "cp 1 0 1000 1989001 999999 1 10000 500 0",
                "hold 1 1000 1989000 1000000 1 10000 500 0 1",
                "hold 1 1000 1989000 1000000 1 10000 500 0 0",
                "revoke 1",
                "cp 3 0 1000 1989000 1000000 0 0",
                "cprevoke 0",
                "cp 2 0 1000 1999000 1000000 0 0",
                "hold 0 0 2999000 0 0 0 1",
            ]),
            // former finding S1 (fixed by 3751e9c): with max_feerate_per_kw = u32::MAX the whole 50 BTC as fee must be refused
            v(&[
                "policy 0 4 2016 10000000000 10000 1000 16777216 0 253 4294967295 222000 0",
                "setup 0 5000000000 0 6 7 1 0 0 0",
                "cp 0 0 0 0 0 0 0",
            ]),
            // on-chain validator, real blocks: holder ahead (validated + revoked 1), then the funding outpoint is
            // spent on chain, then the request to sign the NEW counterparty commitment 1 must be refused;
            // the retry of counterparty 0 is gated too (the code gates every counterparty n > 0 ... n = 0 is free),
            // the retry of the current holder commitment 1 legitimately passes; after the spend is reorged out
            // counterparty 1 is signed
            v(&[
                "policy 1 4 2016 1000000001 10000 1000 16777216 0 253 333333 222000 0",
                "setup 0 3000000 0 6 7 3 0 0 0",
                "cp 0 0 0 0 2998000 0 0",
                "hold 0 0 0 2998000 0 0 1",
                "revoke 0",
                "blk 1 4 1 0",
                "hold 1 0 1000000 1998000 0 0 1",
                "revoke 1",
                "blk 2 5 2 1",
                "cp 1 0 0 1000000 1998000 0 0",
                "hold 1 0 1000000 1998000 0 0 1",
                "hold 2 0 1000000 1998000 0 0 1",
                "unblk 4 1 0",
                "cp 1 0 0 1000000 1998000 0 0",
                "unblk 3 0 0",
                "cp 1 0 0 1000000 1998000 0 0",
                "cp 2 0 0 1000000 1998000 0 0",
            ]),
            // the other order: counterparty ahead, funding reorged out, NEW holder commitment 1 refused
            v(&[
                "policy 1 4 2016 1000000001 10000 1000 16777216 0 253 333333 222000 0",
                "setup 1 3000000 0 6 7 1 0 0 0",
                "blk 1 4 1 0",
                "cp 0 0 0 2999000 0 0 0",
                "hold 0 0 2999000 0 0 0 1",
                "revoke 0",
                "cp 1 0 0 1999000 1000000 0 0",
                "unblk 3 0 0",
                "hold 1 0 1999000 1000000 0 0 1",
                "hold 0 0 2999000 0 0 0 1",
                "blk 0 4 0 0",
                "blk 1 5 1 0",
                "hold 1 0 1999000 1000000 0 0 1",
            ]),
            // FA-1: under the permissive filter an HTLC worth less than its second-stage fee makes PHASE-2 counterparty
            // signing fail (HTLC tx cannot be built), while PHASE 1 signs the commitment only and succeeds
            v(&[
                "policy 0 4 144 1000000001 10000 1000 16777216 0 253 4294967 222000 1073741824",
                "setup 0 16777216 0 6 6 1 0 0 0",
                "cp 0 0 253 16750652 0 0 2 1 62205896 13451 226927654",
                "cp 0 2 253 16750652 0 0 2 1 62205896 13451 226927654",
            ]),
            // on-chain validator, UNILATERAL close: funding confirmed, commitment 1 signed and 0 revoked, then the
            // counterparty's commitment transaction confirms (outputs unswept): signing commitment 2 must be refused;
            // same with the holder's commitment after the first one is reorged out
            v(&[
                "policy 1 4 2016 1000000001 10000 1000 16777216 0 253 333333 222000 0",
                "setup 0 3000000 0 6 7 3 0 0 0",
                "cp 0 0 0 0 2998000 0 0",
                "hold 0 0 0 2998000 0 0 1",
                "revoke 0",
                "blk 1 4 1 0",
                "cp 1 0 0 1000000 1998000 0 0",
                "cprevoke 0",
                "blk 4 5 2 1",
                "cp 2 0 0 1100000 1898000 0 0",
                "blk 0 6 3 2",
                "cp 2 0 0 1100000 1898000 0 0",
                "unblk 5 2 1",
                "unblk 4 1 0",
                "blk 3 5 2 1",
                "cp 2 0 0 1100000 1898000 0 0",
                "hold 1 0 1000000 1998000 0 0 1",
                "unblk 4 1 0",
                "cp 2 0 0 1100000 1898000 0 0",
            ]),
            // a refused setup (delays 3 / 2017, unsafe type) must leave nothing usable behind: the following
            // requests on the same channel id find no ready channel, the repeated setup is refused again
            v(&[
                "policy 0 4 2016 1000000001 10000 1000 16777216 0 253 333333 222000 0",
                "setup 0 3000000 0 3 2017 2 0 0 0",
                "cp 0 0 0 0 2998000 0 0",
                "setup 0 3000000 0 3 2017 2 0 0 0",
                "hold 0 0 0 2998000 0 0 1",
                "setup 0 3000000 0 3 7 1 0 0 0",
                "cp 0 0 0 0 2998000 0 0",
                "setup 0 3000000 0 6 7 1 0 0 0",
                "cp 0 0 0 0 2998000 0 0",
            ]),
            // ordered filter with OVERLAPPING rules: [error exact fee-range, warn prefix policy-commitment-]: the first
            // match decides, the fee bound stays an error (14 sat/kw refused) while the dust bound is demoted;
            // in the reverse order the prefix rule wins and the same commitment is signed
            v(&[
                "policy 0 4 2016 1000000001 10000 1000 16777216 0 253 333333 222000 0 2 8 0 0 0 1 1",
                "setup 0 3000000 0 6 7 1 0 0 0",
                "cp 0 0 0 0 2999990 0 0",
                "cp 0 0 0 100 2998900 0 0",
                "policy 0 4 2016 1000000001 10000 1000 16777216 0 253 333333 222000 0 2 0 1 1 8 0 0",
                "cp 0 0 0 0 2999990 0 0",
            ]),
            // on-chain validator: unburied funding, then buried, then closed on chain
            v(&[
                "policy 1 4 2016 1000000001 10000 1000 16777216 0 253 333333 222000 0",
                "setup 0 3000000 0 6 7 3 0 0 0",
                "cp 0 0 0 0 2998000 0 0",
                "cp 1 0 0 0 2998000 0 0",
                "chain 1000 1 0",
                "cp 1 0 0 0 2998000 0 0",
                "chain 1000 1 1",
                "cp 1 0 0 0 2998000 0 0",
                "hold 0 0 0 2998000 0 0 1",
            ]),
        ]
    }
    fn gen_case(&self, rng: &mut Rng, _tier: Tier) -> Vec<String> {
        if rng.chance(1, 3) {
            return gen_onchain_case(rng);
        }
        let mut plan = gen_plan(rng);
        let mut ops = Vec::new();
        let mut body: Vec<String> = Vec::new();
        // expected counters if everything valid is accepted
        let (mut nh, mut nc, mut nr) = (0u64, 0u64, 0u64);
        let mut pending = false;
        let steps = 3 + rng.below(7);
        let mut chain_set = false;
        let first_policy = plan.pol.line();
        for step in 0..steps {
            let pol_before = plan.pol.line();
            if (plan.pol.onchain || plan.pol.use_chain) && (!chain_set || rng.chance(1, 6)) {
                let fd = pick_u64(rng, &[0, 1, 1, 1, 2, 6]);
                let cd = pick_u64(rng, &[0, 0, 0, 0, 1]);
                body.push(format!("chain {} {} {}", plan.height, fd, cd));
                chain_set = true;
            }
            let mutate = rng.chance(2, 5);
            let tune = step == 0 || rng.chance(1, 4);
            match rng.below(10) {
                0..=3 => {
                    // counterparty commitment
                    let n = match rng.below(12) {
                        0 => nc + 1,
                        1 => nc.saturating_sub(1),
                        2 => pick_u64(rng, &[u64::MAX, u64::MAX - 1, 1 << 48]),
                        _ => nc,
                    };
                    let cm = gen_commit(rng, &mut plan, n, mutate, tune);
                    if plan.pol.line() != pol_before { body.push(plan.pol.line()) }
                    let pv = (if rng.chance(1, 15) { 1 } else { 0 }) + 2 * rng.chance(1, 3) as u64;
                    body.push(cm.cp_line(pv));
                    if rng.chance(1, 6) {
                        // retry, same or slightly changed content
                        let mut cm2 = cm.clone();
                        if rng.chance(1, 2) { cm2.to_holder = cm2.to_holder.wrapping_add(1) }
                        body.push(cm2.cp_line(0));
                    }
                    if n == nc && !mutate && (n <= nr + 1) { nc += 1 }
                }
                4..=6 => {
                    let n = match rng.below(12) {
                        0 => nh + 1,
                        1 => nh + 2,
                        2 => nh.saturating_sub(1),
                        3 => pick_u64(rng, &[u64::MAX, u64::MAX - 1]),
                        _ => nh,
                    };
                    let cm = gen_commit(rng, &mut plan, n, mutate, tune);
                    if plan.pol.line() != pol_before { body.push(plan.pol.line()) }
                    body.push(cm.hold_line_x(!rng.chance(1, 12), rng.chance(1, 3)));
                    if n == nh && !mutate { pending = true }
                    if rng.chance(1, 8) { body.push(cm.hold_line(true)) }
                }
                7..=8 => {
                    let n = if rng.chance(1, 8) { nh + 1 } else { nh };
                    body.push(format!("revoke {}", n));
                    if n == nh && pending { nh += 1; pending = false }
                }
                _ => {
                    let n = if rng.chance(1, 6) { nr + 1 } else { nr };
                    body.push(format!("cprevoke {}", n));
                    if n == nr && nc >= nr + 2 { nr += 1 }
                }
            }
        }
        // sometimes the same setup is requested again somewhere later (after a refusal it must be refused
        // again and must not have left a usable channel behind; after an acceptance it is a no-op)
        if rng.chance(1, 5) {
            let pos = rng.below(body.len() as u64 + 1) as usize;
            body.insert(pos, plan.setup.line());
        }
        ops.push(first_policy);
        ops.push(plan.setup.line());
        ops.extend(body);
        ops
    }
    fn exec_case(&self, ops: &[String]) -> CaseOut {
        run_case(ops)
    }
}

/// Implementation-only companion group: chain events that an earlier /repo could not digest (regression cases).
/// F-C05-M1 (fixed by e2a60ca): the counterparty's PREVIOUS commitment (number `next_counterparty_commit_num - 2`, signed by us, not
/// yet revoked by them -- a perfectly legal thing to find on chain) confirms: `ChainMonitor::on_add_block` panics
/// (`Channel::get_spendable_htlc_indices` unwraps `get_counterparty_commitment_point(n)`, whose branch for the
/// previous point tests `next == n` instead of `next == n + 2` and so never returns it).
pub struct C05ChainEvents;

impl Group for C05ChainEvents {
    fn property(&self) -> &'static str {
        "C05"
    }
    fn model(&self) -> Option<&'static str> {
        None
    }
    fn rule(&self) -> &'static str {
        "chain events: fixed cases in which a legal transaction spending the funding outpoint confirms (counterparty's previous unrevoked commitment); non-trivial = the block was delivered and a later commitment request was answered"
    }
    fn budget(&self, _tier: Tier) -> usize {
        0
    }
    fn corpus(&self) -> Vec<Vec<String>> {
        let v = |s: &[&str]| s.iter().map(|x| x.to_string()).collect::<Vec<_>>();
        vec![v(&[
            "policy 1 4 2016 1000000001 10000 1000 16777216 0 253 333333 222000 0",
            "setup 0 3000000 0 6 7 1 0 0 0",
            "blk 1 4 1 0",
            "cp 0 0 0 0 2998000 0 0",
            "hold 0 0 0 2998000 0 0 1",
            "revoke 0",
            "cp 1 0 0 1000000 1998000 0 0",
            "blk 5 5 2 1",
            "cp 1 0 0 1000000 1998000 0 0",
        ]),
        // the same defect through a reorg: the counterparty's commitment 0 confirms while it is the current one,
        // commitment 1 is signed afterwards (on-chain gate downgraded to a warning), then the block is disconnected
        v(&[
            "policy 1 4 2016 1000000001 10000 1000 16777216 0 253 333333 222000 2048",
            "setup 0 3000000 0 6 7 1 0 0 0",
            "blk 1 4 1 0",
            "cp 0 0 0 0 2998000 0 0",
            "blk 4 5 2 1",
            "cp 1 0 0 1000000 1998000 0 0",
            "unblk 4 1 0",
        ])]
    }
    fn gen_case(&self, _rng: &mut Rng, _tier: Tier) -> Vec<String> {
        vec![]
    }
    fn exec_case(&self, ops: &[String]) -> CaseOut {
        let mut out = run_case(ops);
        for (i, (op, line)) in ops.iter().zip(out.out.clone().iter()).enumerate() {
            if op.starts_with("blk 5") || op.starts_with("unblk") {
                if line.starts_with("harness-panic") {
                    out.violations.push(Violation {
                        kind: "chain-event-panic-previous-counterparty-commitment".into(),
                        desc: "the block in which the counterparty's previous, not yet revoked commitment confirms makes ChainMonitor::on_add_block panic (get_spendable_htlc_indices: get_counterparty_commitment_point(n).unwrap() on None)".into(),
                        at: i,
                    });
                } else {
                    let want: Vec<&str> = op.split_whitespace().collect();
                    if *line != format!("ok {}", want[want.len() - 3..].join(" ")) {
                        out.violations.push(Violation { kind: "chain-event-misread".into(), desc: format!("after {} the channel reads the chain as `{}`", op, line), at: i });
                    }
                }
            }
        }
        out.nontrivial = out.out.iter().any(|l| l.starts_with("ok 5 2 1"))
            && out.out.last().map(|l| l.starts_with("err:chain") || l.starts_with("ok 4 1 0")).unwrap_or(false);
        out
    }
}

pub fn groups() -> Vec<Box<dyn Group>> {
    vec![Box::new(C05), Box::new(C05ChainEvents)]
}
