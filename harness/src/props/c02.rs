//! C02 — no holder commitment is both signed for broadcast and revoked.
//! Same real-channel correspondence group as C01 (`c01.rs`, `c01_world.rs`) with an op mix that
//! favours the closing signatures; the C02 monitor keeps the ghost sets Signed / Revoked from the
//! signatures and secrets actually returned by the implementation.
use crate::common::*;

pub fn groups() -> Vec<Box<dyn Group>> {
    vec![Box::new(super::c01::EnfGroup { prop: "C02", free: false }), Box::new(super::c01::EnfGroup { prop: "C02", free: true })]
}
