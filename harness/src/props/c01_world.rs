//! Shared driver for C01/C02/C03: a REAL `Node` + channel (stub → ready) behind a real persister,
//! real counterparty signatures, real handler (`vls-protocol-signer`) for the protocol-version
//! composites.  `World::apply` executes one op line and returns the canonical output line
//! (same format as `vlsmodel enforcement`) and feeds the three ghost-ledger monitors.
use crate::common::*;
use lightning_signer::bitcoin::bip32::DerivationPath;
use lightning_signer::bitcoin::secp256k1::{ecdsa::Signature, PublicKey, Secp256k1, SecretKey};
use lightning_signer::bitcoin::{Address, Network};
use lightning_signer::channel::{Channel, ChannelBase, ChannelId, ChannelSetup, ChannelSlot};
use lightning_signer::lightning::ln::chan_utils::ChannelPublicKeys;
use lightning_signer::lightning::sign::ChannelSigner;
use lightning_signer::node::{Node, NodeConfig, NodeServices};
use lightning_signer::persist::Persist;
use lightning_signer::policy::simple_validator::{make_default_simple_policy, SimpleValidatorFactory};
use lightning_signer::policy::validator::EnforcementState;
use lightning_signer::signer::derive::KeyDerivationStyle;
use lightning_signer::lightning::types::payment::PaymentHash;
use lightning_signer::tx::tx::{CommitmentInfo2, HTLCInfo2};
use lightning_signer::util::clock::{Clock, ManualClock};
use lightning_signer::util::status::{Code, Status};
use lightning_signer::util::test_utils::*;
use std::collections::{BTreeMap, BTreeSet};
use std::panic::{catch_unwind, AssertUnwindSafe};
use std::sync::Arc;
use vls_persist::kvv::memory::MemoryKVVStore;
use vls_persist::kvv::{JsonFormat, KVVPersister};
use vls_protocol::model::{BitcoinSignature, PubKey, Signature as WireSig};
use vls_protocol::msgs::{self, Message};
use vls_protocol_signer::approver::PositiveApprover;
use vls_protocol_signer::handler::{ChannelHandler, Error as HError, Handler, InitHandler, RootHandler};

pub const INITIAL: u64 = (1 << 48) - 1;
pub const CHANNEL_VALUE: u64 = 3_000_000;
const PEER: [u8; 33] = [2u8; 33];
const DBID: u64 = 1;

/// HOLDER commitment contents: id = base + 16 * feerate_index.
/// base 0..=3: no HTLCs; 4..=8: 1..=5 received HTLCs of 10_000 sat (incoming payments: no invoice needed);
/// 9: fee far out of range (policy-commitment-fee-range).  feerate_index 0,1,2 = feerate_per_kw 0, 1000, 2500
/// (part of `CommitmentInfo2`, decides the second-level HTLC transactions on this non-anchor channel).
pub fn content(c: u64) -> (u64, u64) {
    match c % 16 {
        b @ 0..=3 => (2_999_000 - 100 * b, 0),
        b @ 4..=8 => (2_980_000 - 10_100 * (b - 3), 0),
        // base 10: one OFFERED (outgoing) HTLC of 10_000 sat backed by the keysend for OUT_HASHES[0]
        10 => (2_960_000, 0),
        // fee of 2M sat on ~724 weight units: far above max_feerate_per_kw
        _ => (1_000_000, 0),
    }
}
pub const FEERATES: [u32; 3] = [0, 1000, 2500];
pub fn content_feerate(c: u64) -> u32 {
    FEERATES[((c / 16) % 3) as usize]
}
/// number of HTLCs of a content
pub fn content_htlcs(c: u64) -> u64 {
    let b = c % 16;
    if (4..=8).contains(&b) { b - 3 } else { 0 }
}
/// all HTLCs (received + offered) of a holder content
pub fn content_htlc_total(c: u64) -> u64 {
    content_htlcs(c) + if c % 16 == 10 { 1 } else { 0 }
}
pub fn htlcs_of(c: u64) -> Vec<HTLCInfo2> {
    (0..content_htlcs(c))
        .map(|k| HTLCInfo2 { value_sat: 10_000, payment_hash: PaymentHash([k as u8 + 1; 32]), cltv_expiry: (k as u32 + 1) << 16 })
        .collect()
}
/// payment hashes of outgoing HTLCs (approved by keysend; the approval expires and is pruned by the heartbeat)
pub const OUT_HASHES: [[u8; 32]; 2] = [[0xA1u8; 32], [0xA2u8; 32]];
/// offered (outgoing) HTLCs of a holder content
pub fn offered_of(c: u64) -> Vec<HTLCInfo2> {
    if c % 16 == 10 { vec![HTLCInfo2 { value_sat: 10_000, payment_hash: PaymentHash(OUT_HASHES[0]), cltv_expiry: 2 << 16 }] } else { vec![] }
}
/// the holder content's HTLCs as wire records (LOCAL = offered by us, REMOTE = received)
pub fn wire_htlcs_of(c: u64) -> Vec<vls_protocol::model::Htlc> {
    let mut v = vec![];
    for (side, l) in [(vls_protocol::model::Htlc::LOCAL, offered_of(c)), (vls_protocol::model::Htlc::REMOTE, htlcs_of(c))] {
        for x in l {
            v.push(vls_protocol::model::Htlc { side, amount: x.value_sat * 1000, payment_hash: vls_protocol::model::Sha256(x.payment_hash.0), ctlv_expiry: x.cltv_expiry });
        }
    }
    v
}
pub fn all_contents() -> Vec<u64> {
    let mut v = vec![];
    for f in 0..3u64 {
        for b in 0..=10u64 {
            v.push(b + 16 * f);
        }
    }
    v
}
/// verdict of the content rules for commitment number `n` (the initial commitment may not carry HTLCs)
pub fn content_policy_ok(c: u64, n: u64) -> bool {
    let b = c % 16;
    b <= 3 || (((4..=8).contains(&b) || b == 10) && n != 0)
}
/// id of a holder `CommitmentInfo2` (the WHOLE record: balances, HTLC lists, feerate); 999 = none of ours
pub fn holder_content_id(i: &CommitmentInfo2) -> u64 {
    for c in all_contents() {
        let (th, tc) = content(c);
        if !i.is_counterparty_broadcaster
            && i.to_broadcaster_value_sat == th
            && i.to_countersigner_value_sat == tc
            && i.offered_htlcs == offered_of(c)
            && i.received_htlcs == htlcs_of(c)
            && i.feerate_per_kw == content_feerate(c)
        {
            return c;
        }
    }
    999
}

/// COUNTERPARTY commitment contents, every component independent (mixed radix):
///   id = b + 4*f + 12*t + 24*h1 + 408*h2 + 6936*bad
///   b 0..=3: to_holder = 2_900_000 - 100*b;  f 0..=2: feerate_per_kw 0/1000/2500;  t 0..=1: to_counterparty 0 / 20_000;
///   h1, h2 0..=16: HTLC slot, 0 = absent, else 1 + 8*dir + 4*amt + 2*hash + cltv with dir 0 = offered by the
///   counterparty (incoming) / 1 = received by it (outgoing, approved by keysend at setup), amt 10_000/12_000 sat,
///   hash [1;32]/[2;32] (offered) or [0xA1;32]/[0xA2;32] (received), cltv 1<<16 / 2<<16;  bad = 1: to_holder = 1_000_000 (fee out of range).
/// Canonical form (so that id ↔ record is one-to-one): h2 = 0 if h1 = 0; if the directions differ h1 is the
/// offered one; b = 0 if bad.
#[derive(Clone, Debug, PartialEq)]
pub struct CpContent {
    pub feerate: u32,
    pub to_holder: u64,
    pub to_cp: u64,
    pub offered: Vec<HTLCInfo2>,
    pub received: Vec<HTLCInfo2>,
    pub bad: bool,
}
fn slot_htlc(code: u64) -> (bool, HTLCInfo2) {
    let x = code - 1;
    let (dir, amt, hash, cltv) = (x / 8 % 2, x / 4 % 2, x / 2 % 2, x % 2);
    (
        dir == 1,
        HTLCInfo2 {
            value_sat: if amt == 0 { 10_000 } else { 12_000 },
            // outgoing HTLCs use their own pair of hashes: a hash that is incoming on one commitment and outgoing
            // on another is a routed payment, with CLTV ordering rules that are C06's subject, not C03's
            payment_hash: PaymentHash([if dir == 1 { 0xA1 + hash as u8 } else { hash as u8 + 1 }; 32]),
            cltv_expiry: (cltv as u32 + 1) << 16,
        },
    )
}
fn htlc_slot(received: bool, h: &HTLCInfo2) -> Option<u64> {
    let amt = match h.value_sat { 10_000 => 0, 12_000 => 1, _ => return None };
    let (h0, h1) = if received { ([0xA1u8; 32], [0xA2u8; 32]) } else { ([1u8; 32], [2u8; 32]) };
    let hash = if h.payment_hash.0 == h0 { 0 } else if h.payment_hash.0 == h1 { 1 } else { return None };
    let cltv = if h.cltv_expiry == 1 << 16 { 0 } else if h.cltv_expiry == 2 << 16 { 1 } else { return None };
    Some(1 + 8 * (received as u64) + 4 * amt + 2 * hash + cltv)
}
pub fn cp_canonical(id: u64) -> u64 {
    let (b, f, t, mut h1, mut h2, bad) = (id % 4, id / 4 % 3, id / 12 % 2, id / 24 % 17, id / 408 % 17, id / 6936 % 2);
    if h1 == 0 {
        h1 = h2;
        h2 = 0;
    }
    if h1 != 0 && h2 != 0 && (h1 - 1) / 8 % 2 == 1 && (h2 - 1) / 8 % 2 == 0 {
        std::mem::swap(&mut h1, &mut h2);
    }
    // `CommitmentInfo2::new` sorts each HTLC list by (amount, hash, cltv): same order as the slot code
    if h1 != 0 && h2 != 0 && (h1 - 1) / 8 % 2 == (h2 - 1) / 8 % 2 && h1 > h2 {
        std::mem::swap(&mut h1, &mut h2);
    }
    (if bad == 1 { 0 } else { b }) + 4 * f + 12 * t + 24 * h1 + 408 * h2 + 6936 * bad
}
pub fn cp_content(id: u64) -> CpContent {
    let (b, f, t, h1, h2, bad) = (id % 4, id / 4 % 3, id / 12 % 2, id / 24 % 17, id / 408 % 17, id / 6936 % 2);
    let mut offered = vec![];
    let mut received = vec![];
    for h in [h1, h2] {
        if h != 0 {
            let (rcv, x) = slot_htlc(h);
            if rcv { received.push(x) } else { offered.push(x) }
        }
    }
    CpContent {
        feerate: FEERATES[f as usize],
        to_holder: if bad == 1 { 1_000_000 } else { 2_900_000 - 100 * b },
        to_cp: if t == 1 { 20_000 } else { 0 },
        offered,
        received,
        bad: bad == 1,
    }
}
/// id of a counterparty `CommitmentInfo2` (the WHOLE record); 999_999 = none of ours
pub fn cp_content_id(i: &CommitmentInfo2) -> u64 {
    if !i.is_counterparty_broadcaster {
        return 999_999;
    }
    let bad = i.to_countersigner_value_sat == 1_000_000;
    let b = if bad { 0 } else {
        let d = 2_900_000u64.wrapping_sub(i.to_countersigner_value_sat);
        if d % 100 != 0 || d / 100 > 3 { return 999_999 }
        d / 100
    };
    let f = match FEERATES.iter().position(|x| *x == i.feerate_per_kw) { Some(f) => f as u64, None => return 999_999 };
    let t = match i.to_broadcaster_value_sat { 0 => 0, 20_000 => 1, _ => return 999_999 };
    let mut slots = vec![];
    for h in &i.offered_htlcs {
        match htlc_slot(false, h) { Some(x) => slots.push(x), None => return 999_999 }
    }
    for h in &i.received_htlcs {
        match htlc_slot(true, h) { Some(x) => slots.push(x), None => return 999_999 }
    }
    if slots.len() > 2 {
        return 999_999;
    }
    let h1 = slots.first().copied().unwrap_or(0);
    let h2 = slots.get(1).copied().unwrap_or(0);
    let id = b + 4 * f + 12 * t + 24 * h1 + 408 * h2 + 6936 * (bad as u64);
    if cp_content(id) == (CpContent { feerate: i.feerate_per_kw, to_holder: i.to_countersigner_value_sat, to_cp: i.to_broadcaster_value_sat, offered: i.offered_htlcs.clone(), received: i.received_htlcs.clone(), bad }) { id } else { 999_999 }
}
/// verdict of the content rules for counterparty commitment number `n`
pub fn cp_content_policy_ok(id: u64, n: u64) -> bool {
    let c = cp_content(id);
    !c.bad && (n != 0 || (c.offered.is_empty() && c.received.is_empty() && c.to_cp == 0))
}

/// independent re-statement of BOLT-3 `derive_secret` (monitor side)
pub fn bolt3_derive(secret: [u8; 32], bits: u32, idx: u64) -> [u8; 32] {
    use lightning_signer::bitcoin::hashes::{sha256, Hash};
    let mut res = secret;
    for b in (0..bits).rev() {
        if idx >> b & 1 == 1 {
            res[(b / 8) as usize] ^= 1 << (b % 8);
            res = sha256::Hash::hash(&res).to_byte_array();
        }
    }
    res
}

/// the fact `check_holder_tx_signatures` is expected to establish for signature variant `v` on a
/// content with `h` HTLCs: 1 = valid, 0 = invalid, 2 = out-of-bounds panic (see `SigFact`)
pub fn sig_fact(v: u64, h: u64) -> u64 {
    match v {
        1 => 1,                                   // all genuine
        0 | 9 => 0,                               // commitment signature of another content / of the previous number
        2 | 3 | 4 => if h >= 1 { 0 } else { 1 },  // first / middle / last HTLC signature wrong
        5 | 6 => if h >= 1 { 2 } else { 1 },      // list too short: empty / n-1 genuine ones
        7 => 1,                                   // one surplus signature (ignored by the code)
        8 => if h >= 2 { 0 } else { 1 },          // first and last swapped
        _ => 1,
    }
}

/// the RAW per-signature facts of signature variant `v` on a content with `h` HTLCs: does the commitment signature
/// verify, and for each SUPPLIED HTLC signature whether it verifies against the HTLC at its position.  What the
/// signer's loop makes of them (accept / refuse / index panic, surplus ignored) is decided by the Lean model
/// (`Enforcement.sigFactOf`), not here.
pub fn sig_raw(v: u64, h: u64) -> (bool, Vec<bool>) {
    let h = h as usize;
    let mut bits = vec![true; h];
    let mut commit = true;
    match v {
        0 | 9 => commit = false,    // 9 (replayed signatures of the previous number) is only generated for n >= 1
        2 if h >= 1 => bits[0] = false,
        3 if h >= 1 => bits[h / 2] = false,
        4 if h >= 1 => bits[h - 1] = false,
        5 => bits.clear(),
        6 if h >= 1 => bits.truncate(h - 1),
        7 => bits.push(false), // the surplus one is the commitment signature: verifies against nothing here
        8 if h >= 2 => {
            bits[0] = false;
            bits[h - 1] = false;
        }
        _ => {}
    }
    (commit, bits)
}
/// request token `r<commitOk>:<nHtlc>:<bits>:<payOk>`
pub fn sig_token(v: u64, h: u64, pay_ok: bool) -> String {
    let (c, bits) = sig_raw(v, h);
    format!("r{}:{}:{}:{}", c as u8, h, bits.iter().map(|b| if *b { '1' } else { '0' }).collect::<String>(), pay_ok as u8)
}

#[derive(Default)]
pub struct Monitors {
    // C01
    pub accepted_valid: BTreeSet<u64>,
    // C02
    pub signed: BTreeSet<u64>,
    pub revoked: BTreeSet<u64>,
    pub sign_seen: bool,
    // C03
    pub cp_signed: BTreeMap<u64, (u64, u64)>,
    pub cp_revoked: BTreeMap<u64, [u8; 32]>,
    /// revocations refused while a store write was failing: possibly recorded by the store side that took the write
    pub cp_revoked_maybe: BTreeSet<u64>,
    /// holder secrets whose release may be recorded in the store although the reply was refused (write failure)
    pub revoked_maybe: BTreeSet<u64>,
    /// sign requests refused while a store write was failing (number → point): possibly recorded as signed
    pub cp_signed_maybe: BTreeMap<u64, u64>,
    pub violations: Vec<Violation>,
}

pub type Kvv = KVVPersister<MemoryKVVStore, JsonFormat>;

pub struct World {
    pub persister: Arc<dyn Persist>,
    pub store: Arc<Kvv>,
    pub backup_store: Option<Arc<Kvv>>,
    /// while set, every write to the backup side fails (composite store only)
    pub fail_b: Arc<std::sync::atomic::AtomicBool>,
    /// while set, every store write fails (the main store of a composite)
    pub fail: Arc<std::sync::atomic::AtomicBool>,
    /// the policy tag demoted to a warning in this world
    pub demoted: Option<String>,
    /// manual clock shared by all incarnations of the node (keysend approvals expire after 60 s)
    pub clock: Arc<ManualClock>,
    pub seed: [u8; 32],
    pub node: Arc<Node>,
    pub channel_id: ChannelId,
    pub setup: ChannelSetup,
    pub cp_keys: Option<lightning_signer::lightning::sign::InMemorySigner>,
    pub secp: Secp256k1<lightning_signer::bitcoin::secp256k1::All>,
    /// public key → small id (ids are handed out by the generator: see `cp_point`)
    pub point_ids: BTreeMap<PublicKey, u64>,
    /// holder per-commitment secrets by value → commitment number (for identifying disclosures)
    pub secret_ids: BTreeMap<[u8; 32], u64>,
    pub mon: Monitors,
    pub tags: BTreeSet<String>,
    pub step: usize,
    /// the implementation panicked (poisoned locks): only `restart` makes sense afterwards
    pub dead: bool,
    /// a store-write failure is being injected into the running request
    pub in_fail: bool,
    /// the first request kind that was refused under a transient store error (`failr`) in this history
    pub store_error_in: Option<String>,
}

fn config_net(network: Network) -> NodeConfig {
    NodeConfig {
        network,
        key_derivation_style: KeyDerivationStyle::Native,
        use_checkpoints: true,
        allow_deep_reorgs: true,
    }
}

/// policy tags that none of C01/C02/C03 rests on: each may be demoted to a warning by a deployment's policy
/// filter (`SimplePolicy.filter`) without relaxing revoke-after-validate, sign/revoke exclusion, the counterparty
/// window, the revocation point match or the chain check.  (`policy-commitment-retry-same` is what C03's
/// "re-signs only identical" rests on: with it demoted only that one monitor is disarmed.)
pub const DEMOTABLE_TAGS: [&str; 16] = [
    "policy-commitment-retry-same",
    "policy-commitment-fee-range",
    "policy-commitment-htlc-count-limit",
    "policy-commitment-htlc-inflight-limit",
    "policy-commitment-htlc-cltv-range",
    "policy-commitment-outputs-trimmed",
    "policy-commitment-first-no-htlcs",
    "policy-commitment-initial-funding-value",
    "policy-commitment-payment-velocity",
    "policy-commitment-spends-active-utxo",
    "policy-commitment",
    "policy-routing-balanced",
    "policy-mutual-value-matches-commitment",
    "policy-mutual-no-pending-htlcs",
    "policy-mutual-fee-range",
    "policy-mutual-destination-allowlisted",
];

/// The policy tags C01/C02/C03 rest on (the assumption "these stay errors" of the theorems; `Props/C0xFn.lean` states for
/// the generated guards what demoting one of them does).  The deployment `filter *` of the monitor-only group demotes EVERY
/// other tag — present or future — to a warning: a guard moved onto any other tag shows up as a violation.
pub const GUARD_TAGS: [&str; 8] = [
    "policy-revoke-new-commitment-signed",
    "policy-revoke-new-commitment-valid",
    "policy-revoke-not-closed",
    "policy-other",
    "policy-commitment-previous-revoked",
    "policy-commitment-holder-not-revoked",
    "policy-commitment-retry-same",
    "policy-commitment",
];

/// A deployment configuration of the monitor-only group, written `<tag>|*[@onchain][@regtest]` (first op `filter …`):
/// the tag demoted to a warning (`*` = everything except `GUARD_TAGS`), the validator factory (`SimpleValidatorFactory`
/// or vlsd's default `OnchainValidatorFactory` wrapping it) and the node's network (testnet or regtest).
pub fn cfg_parts(demoted: &Option<String>) -> (Option<String>, bool, Network) {
    match demoted {
        None => (None, false, Network::Testnet),
        Some(s) => {
            let mut it = s.split('@');
            let tag = it.next().unwrap_or("").to_string();
            let (mut onchain, mut net) = (false, Network::Testnet);
            for f in it {
                match f {
                    "onchain" => onchain = true,
                    "regtest" => net = Network::Regtest,
                    _ => {}
                }
            }
            (if tag.is_empty() { None } else { Some(tag) }, onchain, net)
        }
    }
}

fn services(persister: Arc<dyn Persist>, clock: Arc<ManualClock>, demoted: &Option<String>) -> NodeServices {
    let (tag, onchain, net) = cfg_parts(demoted);
    let mut policy = make_default_simple_policy(net);
    if let Some(tag) = &tag {
        use lightning_signer::policy::filter::{FilterResult, FilterRule, PolicyFilter};
        policy.filter = if tag == "*" {
            // first match wins: the guard tags stay errors, everything else is a warning
            let mut rules: Vec<FilterRule> = GUARD_TAGS.iter().map(|t| FilterRule::new_error(*t)).collect();
            rules.push(FilterRule { tag: String::new(), is_prefix: true, action: FilterResult::Warn });
            PolicyFilter { rules }
        } else {
            PolicyFilter { rules: vec![FilterRule { tag: tag.clone(), is_prefix: false, action: FilterResult::Warn }] }
        };
    }
    let simple = SimpleValidatorFactory::new_with_policy(policy);
    let validator_factory: Arc<dyn lightning_signer::policy::validator::ValidatorFactory> = if onchain {
        Arc::new(lightning_signer::policy::onchain_validator::OnchainValidatorFactory::new_with_simple_factory(simple))
    } else {
        Arc::new(simple)
    };
    NodeServices {
        validator_factory,
        starting_time_factory: make_genesis_starting_time_factory(net),
        persister,
        clock,
        trusted_oracle_pubkeys: vec![],
    }
}

pub fn class_of(s: &Status) -> String {
    if std::env::var("C01_DEBUG").is_ok() {
        eprintln!("   status: {}", s.message());
    }
    match s.code() {
        Code::FailedPrecondition => "err:policy".into(),
        Code::InvalidArgument => "err:invalid".into(),
        Code::Internal => "err:internal".into(),
        c => format!("err:{:?}", c),
    }
}

fn herr_class(e: &HError) -> String {
    match e {
        HError::Signing(s) | HError::Temporary(s) => class_of(s),
        HError::Protocol(_) => "err:protocol".into(),
    }
}

/// counterparty per-commitment secret for commitment `n`: kind 0 = from the counterparty's seed
/// (BOLT-3 chain), kind 1 = unrelated secret (valid key, does not chain)
pub fn cp_secret(cp_keys: &lightning_signer::lightning::sign::InMemorySigner, n: u64, kind: u64) -> [u8; 32] {
    if kind == 0 {
        cp_keys.release_commitment_secret(INITIAL - (n & INITIAL)).unwrap()
    } else {
        let mut s = [0x11u8; 32];
        s[0] = 0x01;
        s[24..32].copy_from_slice(&(n.wrapping_mul(2654435761).wrapping_add(kind)).to_be_bytes());
        s
    }
}
/// the unrelated (off-tree) secret for commitment `n` (`cp_secret(_, n, 1)`)
pub fn alt_secret(n: u64) -> [u8; 32] {
    let mut s = [0x11u8; 32];
    s[0] = 0x01;
    s[24..32].copy_from_slice(&(n.wrapping_mul(2654435761).wrapping_add(1)).to_be_bytes());
    s
}
/// id of the point of `cp_secret(n, kind)`
pub fn cp_point_id(n: u64, kind: u64) -> u64 {
    1000 + (n % 100_000) * 4 + kind
}

impl World {
    pub fn new() -> World {
        World::new_cfg(None)
    }

    /// `demoted`: one policy tag that the deployment's filter turns into a warning (None = default filter)
    pub fn new_cfg(demoted: Option<String>) -> World {
        World::new_cfg2(demoted, false)
    }

    fn make_persister(store: &Arc<Kvv>, backup: &Option<Arc<Kvv>>, fail: &Arc<std::sync::atomic::AtomicBool>, fail_b: &Arc<std::sync::atomic::AtomicBool>) -> Arc<dyn Persist> {
        use crate::props::tap::Tap;
        match backup {
            // composite: writes go to the main store first, then to the backup; reads come from the main store
            Some(b) => Arc::new(vls_persist::backup_persister::BackupPersister::new(Tap::with_fail(store.clone(), fail.clone()), Tap::with_fail(b.clone(), fail_b.clone()))),
            None => Arc::new(Tap::with_fail(store.clone(), fail.clone())),
        }
    }

    /// `backup`: persist through `BackupPersister<main, backup>` instead of a single store
    pub fn new_cfg2(demoted: Option<String>, backup: bool) -> World {
        let fail = Arc::new(std::sync::atomic::AtomicBool::new(false));
        let fail_b = Arc::new(std::sync::atomic::AtomicBool::new(false));
        let store: Arc<Kvv> = Arc::new(KVVPersister(MemoryKVVStore::new([3u8; 16]), JsonFormat));
        let backup_store: Option<Arc<Kvv>> = if backup { Some(Arc::new(KVVPersister(MemoryKVVStore::new([4u8; 16]), JsonFormat))) } else { None };
        // every write goes through a tap that can be told to fail (injected store failure)
        let persister = World::make_persister(&store, &backup_store, &fail, &fail_b);
        let seed = [7u8; 32];
        let cfg = config_net(cfg_parts(&demoted).2);
        let clock = Arc::new(ManualClock::new(std::time::Duration::from_secs(1_700_000_000)));
        let node = Arc::new(Node::new(cfg, &seed, vec![], services(persister.clone(), clock.clone(), &demoted)));
        persister.new_node(&node.get_id(), &cfg, &*node.get_state()).unwrap();
        persister.new_tracker(&node.get_id(), &node.get_tracker()).unwrap();
        node.add_allowlist(&[]).unwrap();
        let (channel_id, _) = node.new_channel(DBID, &PEER, &node).expect("new_channel");
        assert_eq!(channel_id, ChannelId::new_from_peer_id_and_oid(&PEER, DBID));
        let setup = make_test_channel_setup();
        let mut w = World {
            persister,
            store,
            backup_store,
            fail_b,
            fail,
            demoted,
            clock,
            seed,
            node,
            channel_id,
            setup,
            cp_keys: None,
            secp: Secp256k1::new(),
            point_ids: BTreeMap::new(),
            secret_ids: BTreeMap::new(),
            store_error_in: None,
            mon: Monitors::default(),
            tags: BTreeSet::new(),
            step: 0,
            dead: false,
            in_fail: false,
        };
        // the holder's own secrets, by value, straight from the channel keys (not through the
        // guarded accessors): commitment numbers 0..64 and the numbers the u64 edge requests alias to
        let keys = w.node.with_channel_base(&w.channel_id, |b| Ok(b.get_channel_basepoints())).unwrap();
        let _ = keys;
        let slot = w.node.get_channel(&w.channel_id).unwrap();
        {
            let g = slot.lock().unwrap_or_else(|e| e.into_inner());
            let k = match &*g {
                ChannelSlot::Stub(s) => s.keys.clone(),
                ChannelSlot::Ready(c) => c.keys.clone(),
            };
            for n in (0..64u64).chain([INITIAL, INITIAL - 1, INITIAL - 2]) {
                w.secret_ids.insert(k.release_commitment_secret(INITIAL - n).unwrap(), n);
            }
            // the commitment seed itself (what `build_commitment_secret(seed, 1 << 48)` returns)
            w.secret_ids.insert(k.commitment_seed, u64::MAX);
        }
        w
    }

    fn node_ctx(&self) -> TestNodeContext {
        TestNodeContext { node: self.node.clone(), secp_ctx: Secp256k1::signing_only() }
    }
    fn chan_ctx(&self) -> TestChannelContext {
        TestChannelContext {
            channel_id: self.channel_id.clone(),
            setup: self.setup.clone(),
            counterparty_keys: self.cp_keys.clone().expect("cp keys"),
        }
    }

    /// is the outgoing payment with this hash approved right now (keysend present in the node state)?
    pub fn approved_now(&self, hash: &[u8; 32]) -> bool {
        // `validate_payments`: an outgoing HTLC without incoming counterpart passes iff the hash has an
        // invoice/keysend, or at least a tracked payment entry (the "uninvoiced existing payment" tolerance)
        let st = self.node.get_state();
        st.invoices.contains_key(&PaymentHash(*hash)) || st.payments.contains_key(&PaymentHash(*hash))
    }
    /// would `NodeState::validate_payments` accept a commitment with these outgoing HTLCs now?
    pub fn outgoing_ok(&self, outgoing: &[HTLCInfo2]) -> bool {
        outgoing.iter().all(|h| self.approved_now(&h.payment_hash.0))
    }

    /// sum of the store versions of the channel entries (main store): changes iff a channel entry was written
    pub fn channel_entry_version(&self) -> u64 {
        use vls_persist::kvv::{KVVStore, KVV};
        self.store.0.get_prefix("channel").map(|it| it.map(|KVV(_, (v, _))| v + 1).sum()).unwrap_or(0)
    }

    pub fn is_ready(&self) -> bool {
        let slot = self.node.get_channel(&self.channel_id).unwrap();
        let g = slot.lock().unwrap_or_else(|e| e.into_inner());
        matches!(&*g, ChannelSlot::Ready(_))
    }

    pub fn estate(&self) -> Option<EnforcementState> {
        let slot = self.node.get_channel(&self.channel_id).unwrap();
        let g = slot.lock().unwrap_or_else(|e| e.into_inner());
        match &*g {
            ChannelSlot::Ready(c) => Some(c.enforcement_state.clone()),
            ChannelSlot::Stub(_) => None,
        }
    }

    fn pt_id(&mut self, p: &PublicKey) -> u64 {
        if let Some(i) = self.point_ids.get(p) {
            return *i;
        }
        let i = 900_000 + self.point_ids.len() as u64;
        self.point_ids.insert(*p, i);
        i
    }

    fn info_id(i: &Option<CommitmentInfo2>, holder: bool) -> String {
        match i {
            None => "-".into(),
            Some(i) => if holder { holder_content_id(i).to_string() } else { cp_content_id(i).to_string() },
        }
    }

    pub fn digest(&mut self) -> String {
        match self.estate() {
            None => "stub h=0 cur=- nx=- closed=0 cc=0 cr=0 cpt=- ppt=- ci=- pi=- st=0 281474976710656 []".into(),
            Some(e) => {
                let cpt = e.current_counterparty_point.map(|p| self.pt_id(&p).to_string()).unwrap_or("-".into());
                let ppt = e.previous_counterparty_point.map(|p| self.pt_id(&p).to_string()).unwrap_or("-".into());
                let store = match &e.counterparty_secrets {
                    None => "nostore".to_string(),
                    Some(s) => {
                        let v = serde_json::to_value(s).unwrap();
                        let arr = v.get("old_secrets").and_then(|a| a.as_array()).cloned().unwrap_or_default();
                        let items: Vec<String> = arr
                            .iter()
                            .map(|e| {
                                let sec = &e[0];
                                let hexs = if let Some(st) = sec.as_str() {
                                    st.to_string()
                                } else {
                                    hex::encode(sec.as_array().unwrap().iter().map(|b| b.as_u64().unwrap() as u8).collect::<Vec<u8>>())
                                };
                                format!("{}:{}", hexs, e[1].as_u64().unwrap())
                            })
                            .collect();
                        format!("{} {} [{}]", arr.len(), s.get_min_seen_secret(), items.join(","))
                    }
                };
                format!(
                    "ready h={} cur={} nx={} closed={} cc={} cr={} cpt={} ppt={} ci={} pi={} st={}",
                    e.next_holder_commit_num,
                    Self::info_id(&e.current_holder_commit_info, true),
                    Self::info_id(&e.next_holder_commit_info.as_ref().map(|x| x.0.clone()), true),
                    if e.channel_closed { 1 } else { 0 },
                    e.next_counterparty_commit_num,
                    e.next_counterparty_revoke_num,
                    cpt,
                    ppt,
                    Self::info_id(&e.current_counterparty_commit_info, false),
                    Self::info_id(&e.previous_counterparty_commit_info, false),
                    store
                )
            }
        }
    }

    // ---- monitors -------------------------------------------------------------------------
    fn violation(&mut self, kind: &str, desc: String) {
        // the one monitor that rests on a demotable tag
        if kind == "c03-resign-changed" && cfg_parts(&self.demoted).0.as_deref() == Some("policy-commitment-retry-same") {
            self.tags.insert("disarmed:c03-resign-changed".into());
            return;
        }
        let kind = match &self.store_error_in {
            Some(fam) => format!("{}-after-store-error-in-{}", kind, fam),
            None => kind.to_string(),
        };
        self.mon.violations.push(Violation { kind, desc, at: self.step });
    }

    /// a holder per-commitment secret left the signer
    fn on_secret(&mut self, bytes: [u8; 32], via: &str) -> String {
        let was_ready = self.is_ready();
        let k = self.secret_ids.get(&bytes).copied();
        match k {
            None => {
                self.violation("c01-unknown-secret", format!("{} returned a secret that is not one of the expected per-commitment secrets", via));
                "secret=?".into()
            }
            Some(k) => {
                if !was_ready {
                    self.violation("c01-stub-secret", format!("{} on a channel stub returned the secret of commitment {}", via, k));
                }
                // F13 (fixed by 0078200): whatever number was asked for, a secret that leaves the signer
                // must be that of a commitment at least two below the counter at that moment
                let next = self.estate().map(|e| e.next_holder_commit_num).unwrap_or(0);
                if k.checked_add(2).map_or(true, |x| x > next) {
                    self.violation(
                        "c01-secret-guard-overflow",
                        format!("{} returned the secret of commitment {} while next_holder_commit_num is {} (release guard passed for a number >= next-1)", via, k, next),
                    );
                }
                if k == u64::MAX {
                    self.violation("c01-seed-disclosed", format!("{} returned the commitment seed", via));
                } else if !self.mon.accepted_valid.contains(&k.wrapping_add(1)) {
                    self.violation(
                        "c01-secret-without-successor",
                        format!("{} disclosed the secret of holder commitment {} but no validate of {} with verifying counterparty signatures was accepted before", via, k, k.wrapping_add(1)),
                    );
                }
                if self.mon.signed.contains(&k) {
                    self.violation("c02-signed-and-revoked", format!("{} disclosed the secret of holder commitment {} whose signature was released earlier", via, k));
                }
                if self.mon.sign_seen && !self.mon.revoked.contains(&k) && !self.mon.revoked_maybe.contains(&k) {
                    self.violation("c02-new-secret-after-sign", format!("{} disclosed the not yet disclosed secret of commitment {} after a holder signature had been released", via, k));
                }
                self.mon.revoked.insert(k);
                format!("secret={}", k)
            }
        }
    }

    /// Which holder commitment does a released funding signature belong to?  Verified against the
    /// commitment transactions built here for the numbers around the counter and every content; the request's
    /// own number is not trusted.
    fn attribute_holder_sig(&mut self, sig: &Signature, requested: u64, via: &str) -> u64 {
        use lightning_signer::lightning::ln::chan_utils::make_funding_redeemscript;
        let next = self.estate().map(|e| e.next_holder_commit_num).unwrap_or(0);
        let (nc, cc) = (self.node_ctx(), self.chan_ctx());
        let mut cands: Vec<u64> = vec![requested];
        for n in next.saturating_sub(3)..=next + 1 {
            if n != requested {
                cands.push(n);
            }
        }
        for n in cands {
            if self.node.with_channel(&self.channel_id, |ch| ch.get_per_commitment_point(n)).is_err() {
                continue;
            }
            for c in all_contents() {
                let (th, tc) = content(c);
                let ctx = channel_commitment(&nc, &cc, n, content_feerate(c), th, tc, offered_of(c), htlcs_of(c));
                let ok = self
                    .node
                    .with_channel(&self.channel_id, |chan| {
                        let redeem = make_funding_redeemscript(&chan.keys.pubkeys().funding_pubkey, &chan.counterparty_pubkeys().funding_pubkey);
                        let sighash = ctx.tx.as_ref().unwrap().trust().built_transaction().get_sighash_all(&redeem, cc.setup.channel_value_sat);
                        Ok(self.secp.verify_ecdsa(&sighash, sig, &chan.keys.pubkeys().funding_pubkey).is_ok())
                    })
                    .unwrap_or(false);
                if ok {
                    if n != requested {
                        self.tags.insert("holder-sig:other-number".into());
                    }
                    return n;
                }
            }
        }
        self.violation("c02-signed-unknown-tx", format!("{}: the returned signature fits none of the candidate holder commitments (asked for {})", via, requested));
        requested
    }

    fn on_holder_sig(&mut self, n: u64, via: &str) {
        if self.mon.revoked.contains(&n) {
            self.violation("c02-signed-and-revoked", format!("{} released a holder signature on commitment {} whose secret was disclosed earlier", via, n));
        }
        self.mon.signed.insert(n);
        self.mon.sign_seen = true;
    }

    fn on_cp_signed(&mut self, n: u64, pt: u64, c: u64) {
        if let Some((p0, c0)) = self.mon.cp_signed.get(&n).copied() {
            if p0 != pt || c0 != c {
                self.violation("c03-resign-changed", format!("counterparty commitment {} re-signed with point/content ({},{}) after ({},{})", n, pt, c, p0, c0));
            }
        } else {
            self.mon.cp_signed.insert(n, (pt, c));
        }
        for j in 0..n.saturating_sub(1) {
            if !self.mon.cp_revoked.contains_key(&j) && !self.mon.cp_revoked_maybe.contains(&j) {
                self.violation("c03-sign-over-unrevoked", format!("signed counterparty commitment {} although {} was never revoked by a verified secret", n, j));
                break;
            }
        }
        let unrevoked = self.mon.cp_signed.keys().filter(|k| !self.mon.cp_revoked.contains_key(k) && !self.mon.cp_revoked_maybe.contains(k)).count();
        if unrevoked > 2 {
            self.violation("c03-three-unrevoked", format!("{} signed counterparty commitments are unrevoked", unrevoked));
        }
    }

    /// The HTLC signatures returned for counterparty commitment `n` must verify against the second-level
    /// transactions of the content FIRST recorded for `n` (built here, independently): a re-signed number with a
    /// changed component (e.g. the feerate) yields signatures over different HTLC transactions.
    fn check_cp_htlc_sigs(&mut self, n: u64, hsigs: &[Signature]) {
        use lightning_signer::bitcoin::sighash::{EcdsaSighashType, SighashCache};
        use lightning_signer::bitcoin::Amount;
        use lightning_signer::lightning::ln::chan_utils::{build_htlc_transaction, get_htlc_redeemscript};
        let (ptid, c) = match self.mon.cp_signed.get(&n).copied() { Some(x) => x, None => return };
        let cc = cp_content(c);
        let point = self.cp_point((ptid - 1000) / 4, (ptid - 1000) % 4);
        let secp = self.secp.clone();
        let setup = self.setup.clone();
        let res: Result<Option<String>, Status> = self.node.with_channel(&self.channel_id, |chan| {
            let htlcs = Channel::htlcs_info2_to_oic(&cc.offered, &cc.received);
            let tx = chan.make_counterparty_commitment_tx(&point, n & INITIAL, cc.feerate, cc.to_holder, cc.to_cp, htlcs);
            let trusted = tx.trust();
            let keys = trusted.keys();
            let txid = trusted.built_transaction().txid;
            // our HTLC key for this commitment = htlc_basepoint tweaked by the counterparty's point
            let htlc_pub = keys.countersignatory_htlc_key.to_public_key();
            if tx.htlcs().len() != hsigs.len() {
                return Ok(Some(format!("{} HTLC signatures for {} HTLCs", hsigs.len(), tx.htlcs().len())));
            }
            for (i, htlc) in tx.htlcs().iter().enumerate() {
                let htlc_tx = build_htlc_transaction(&txid, cc.feerate, setup.holder_selected_contest_delay, htlc, &setup.features(), &keys.broadcaster_delayed_payment_key, &keys.revocation_key);
                let script = get_htlc_redeemscript(htlc, &setup.features(), &keys);
                let sh = lightning_signer::bitcoin::secp256k1::Message::from_digest({
                    use lightning_signer::bitcoin::hashes::Hash;
                    SighashCache::new(&htlc_tx).p2wsh_signature_hash(0, &script, Amount::from_sat(htlc.amount_msat / 1000), EcdsaSighashType::All).unwrap().to_byte_array()
                });
                if secp.verify_ecdsa(&sh, &hsigs[i], &htlc_pub).is_err() {
                    return Ok(Some(format!("HTLC signature {} does not verify against the HTLC transaction of the recorded content {}", i, c)));
                }
            }
            Ok(None)
        });
        if let Ok(None) = res {
            if !hsigs.is_empty() {
                self.tags.insert("signcp:htlc-sigs-verified".into());
            }
        }
        if let Ok(Some(why)) = res {
            self.violation("c03-resign-changed", format!("signatures returned for counterparty commitment {} do not belong to the content first signed for it: {}", n, why));
        }
    }

    /// a channel created by this code always has a secret store; it must not disappear
    fn check_store_present(&mut self, after: &str) {
        if let Some(e) = self.estate() {
            if e.counterparty_secrets.is_none() {
                self.violation("c03-store-lost-secret", format!("after {} the channel has no counterparty secret store any more (later revocations cannot be chain-checked)", after));
            }
        }
    }

    fn on_cp_revoked(&mut self, n: u64, secret: [u8; 32], pt_of_secret: u64) {
        match self.mon.cp_signed.get(&n).copied() {
            None if self.mon.cp_signed_maybe.get(&n) == Some(&pt_of_secret) => {
                self.tags.insert("revocation-of-unacknowledged-signature".into());
            }
            None => self.violation("c03-revocation-unsigned", format!("accepted a revocation of counterparty commitment {} that was never signed", n)),
            Some((p0, _)) =>
                if p0 != pt_of_secret {
                    self.violation("c03-revocation-wrong-point", format!("accepted a revocation of {} whose secret has point {} but point {} was signed", n, pt_of_secret, p0));
                },
        }
        if let Some(s0) = self.mon.cp_revoked.get(&n) {
            if *s0 != secret {
                self.violation("c03-revocation-changed", format!("accepted a second, different secret for counterparty commitment {}", n));
            }
        }
        // accepted secrets must chain under the BOLT-3 derivation tree, whatever the store says: if an earlier
        // accepted index lies in the subtree of the new one, the new secret must derive the earlier one
        {
            let idx_n = INITIAL - (n & INITIAL);
            let pos = (0..48).find(|b| idx_n >> b & 1 == 1).unwrap_or(48);
            for (m, sm) in self.mon.cp_revoked.clone() {
                if m >= n {
                    continue;
                }
                let idx_m = INITIAL - m;
                if pos < 64 && (idx_m >> pos) == (idx_n >> pos) && bolt3_derive(secret, pos, idx_m) != sm {
                    self.violation(
                        "c03-revocation-not-chained",
                        format!("accepted the revocation secret of {} from which the earlier accepted secret of {} is not derivable", n, m),
                    );
                    break;
                }
            }
        }
        self.mon.cp_revoked.insert(n, secret);
        self.check_store_present("an accepted revocation");
        // every verified secret must stay retrievable from the compact store
        if let Some(e) = self.estate() {
            if let Some(st) = &e.counterparty_secrets {
                let all: Vec<(u64, [u8; 32])> = self.mon.cp_revoked.iter().map(|(k, v)| (*k, *v)).collect();
                for (j, sj) in all {
                    let got = catch_unwind(AssertUnwindSafe(|| st.get_secret(INITIAL - j)));
                    if got.ok().flatten() != Some(sj) {
                        self.violation("c03-store-lost-secret", format!("after the revocation of {} the store no longer yields the verified secret of {}", n, j));
                        break;
                    }
                }
            }
        }
    }

    // ---- request builders -----------------------------------------------------------------

    /// real counterparty signatures (commitment + one per HTLC) on holder commitment `n` with content
    /// `c` (None if the signer refuses to hand out the point of `n`, i.e. `n > next + 1`)
    fn holder_commitment(&self, n: u64, c: u64) -> Option<(TestCommitmentTxContext, Signature, Vec<Signature>)> {
        let nc = self.node_ctx();
        let cc = self.chan_ctx();
        let (th, tc) = content(c);
        let ok = self.node.with_channel(&self.channel_id, |ch| ch.get_per_commitment_point(n)).is_ok();
        if !ok {
            return None;
        }
        let mut ctx = channel_commitment(&nc, &cc, n, content_feerate(c), th, tc, offered_of(c), htlcs_of(c));
        let (sig, hs) = counterparty_sign_holder_commitment(&nc, &cc, &mut ctx);
        Some((ctx, sig, hs))
    }

    fn dummy_sig(&self) -> Signature {
        let sk = SecretKey::from_slice(&[0x42; 32]).unwrap();
        let m = lightning_signer::bitcoin::secp256k1::Message::from_digest([9u8; 32]);
        self.secp.sign_ecdsa(&m, &sk)
    }

    /// the request's signatures for variant `v` (see `sig_fact`); every "wrong" signature is a genuine
    /// counterparty signature over something else
    fn validate_inputs(&self, n: u64, c: u64, v: u64) -> (Option<TestCommitmentTxContext>, Signature, Vec<Signature>) {
        match self.holder_commitment(n, c) {
            None => (None, self.dummy_sig(), vec![]),
            Some((ctx, sig, mut hs)) => {
                let h = hs.len();
                let mut csig = sig;
                match v {
                    0 => csig = self.holder_commitment(n, (c + 1) % 4).unwrap().1,
                    2 if h >= 1 => hs[0] = sig,
                    3 if h >= 1 => hs[h / 2] = sig,
                    4 if h >= 1 => hs[h - 1] = sig,
                    5 => hs.clear(),
                    6 if h >= 1 => hs.truncate(h - 1),
                    7 => hs.push(sig),
                    8 if h >= 2 => hs.swap(0, h - 1),
                    // replay: the genuine signatures of the SAME content one commitment earlier (what the signer has stored
                    // for the current commitment when `n` is the next one)
                    9 if n >= 1 => {
                        if let Some((_, s9, h9)) = self.holder_commitment(n - 1, c) {
                            csig = s9;
                            hs = h9;
                        }
                    }
                    _ => {}
                }
                (Some(ctx), csig, hs)
            }
        }
    }

    /// Independent evaluation of "the counterparty signatures verify on the transactions rebuilt for
    /// this commitment": the commitment signature against the funding sighash, and for EVERY HTLC of the
    /// transaction a signature at its position that verifies against the HTLC transaction built here.
    /// Returns (fully_verifies, fact) with fact as in `sig_fact` (what the signer's loop should meet).
    fn verify_sigs(&self, ctx: &TestCommitmentTxContext, csig: &Signature, hsigs: &[Signature]) -> (bool, u64) {
        let (full, fact, _, _) = self.verify_sigs_raw(ctx, csig, hsigs);
        (full, fact)
    }

    /// the harness' own ECDSA verification, per signature: (fully_verifies, digest as in `sig_fact`, commitment
    /// signature verifies, for HTLC i < min(#HTLCs, #signatures): signature i verifies against HTLC i)
    fn verify_sigs_raw(&self, ctx: &TestCommitmentTxContext, csig: &Signature, hsigs: &[Signature]) -> (bool, u64, bool, Vec<bool>) {
        use lightning_signer::bitcoin::sighash::{EcdsaSighashType, SighashCache};
        use lightning_signer::bitcoin::Amount;
        use lightning_signer::lightning::ln::chan_utils::{build_htlc_transaction, derive_private_key, get_htlc_redeemscript, make_funding_redeemscript};
        let cc = self.chan_ctx();
        let secp = &self.secp;
        self.node
            .with_channel(&self.channel_id, |chan| {
                let tx = ctx.tx.as_ref().unwrap();
                let trusted = tx.trust();
                let keys = trusted.keys();
                let built = trusted.built_transaction();
                let redeem = make_funding_redeemscript(&chan.keys.pubkeys().funding_pubkey, &chan.counterparty_pubkeys().funding_pubkey);
                let sighash = built.get_sighash_all(&redeem, cc.setup.channel_value_sat);
                let cp_funding = PublicKey::from_secret_key(secp, &cc.counterparty_keys.funding_key);
                if secp.verify_ecdsa(&sighash, csig, &cp_funding).is_err() {
                    return Ok((false, 0, false, vec![]));
                }
                let mut bits: Vec<bool> = vec![];
                let point = chan.get_per_commitment_point(ctx.commit_num)?;
                let cp_htlc_key = derive_private_key(secp, &point, &cc.counterparty_keys.htlc_base_key);
                let cp_htlc_pub = PublicKey::from_secret_key(secp, &cp_htlc_key);
                let mut fact = 1u64;
                let mut all = true;
                for (i, htlc) in tx.htlcs().iter().enumerate() {
                    let htlc_tx = build_htlc_transaction(
                        &built.txid,
                        ctx.feerate_per_kw,
                        cc.setup.counterparty_selected_contest_delay,
                        htlc,
                        &cc.setup.features(),
                        &keys.broadcaster_delayed_payment_key,
                        &keys.revocation_key,
                    );
                    let script = get_htlc_redeemscript(htlc, &cc.setup.features(), &keys);
                    let sh = lightning_signer::bitcoin::secp256k1::Message::from_digest(
                        {
                            use lightning_signer::bitcoin::hashes::Hash;
                            SighashCache::new(&htlc_tx)
                                .p2wsh_signature_hash(0, &script, Amount::from_sat(htlc.amount_msat / 1000), EcdsaSighashType::All)
                                .unwrap()
                                .to_byte_array()
                        },
                    );
                    match hsigs.get(i) {
                        None => {
                            all = false;
                            if fact == 1 {
                                fact = 2; // the signer's index loop runs past the end here
                            }
                        }
                        Some(sg) => {
                            let ok = secp.verify_ecdsa(&sh, sg, &cp_htlc_pub).is_ok();
                            bits.push(ok);
                            if !ok {
                                all = false;
                                if fact == 1 {
                                    fact = 0;
                                }
                            }
                        }
                    }
                }
                Ok((all, fact, true, bits))
            })
            .unwrap_or((false, 0, false, vec![]))
    }

    /// cross-check of the signature facts stated in a request line against the harness' own verification of the
    /// signatures it is about to send: a digest `0|1|2|3` (corpus, old replays) or the raw token of `sig_token`
    fn check_sig_token(&mut self, tok: &str, ctx: &TestCommitmentTxContext, csig: &Signature, hsigs: &[Signature]) -> bool {
        let (full, fact, commit_ok, bits) = self.verify_sigs_raw(ctx, csig, hsigs);
        if let Some(raw) = tok.strip_prefix('r') {
            let f: Vec<&str> = raw.split(':').collect();
            let mut ok = f.len() == 4;
            if ok {
                let n_htlc = ctx.tx.as_ref().map(|t| t.htlcs().len()).unwrap_or(0);
                let stated: Vec<bool> = f[2].chars().map(|c| c == '1').collect();
                ok = (f[0] == "1") == commit_ok && f[1].parse::<usize>().ok() == Some(n_htlc) && stated.len() == hsigs.len();
                if ok && commit_ok {
                    // the verification above looked at the signatures up to the number of HTLCs
                    ok = bits.len() == n_htlc.min(hsigs.len()) && bits.iter().zip(stated.iter()).all(|(a, b)| a == b);
                }
            }
            if !ok {
                self.tags.insert(format!("HARNESS-sigfact-mismatch:raw:{}", tok));
            }
        } else {
            let expect: u64 = tok.parse().unwrap_or(0);
            if fact != (if expect == 3 { 1 } else { expect }) {
                self.tags.insert(format!("HARNESS-sigfact-mismatch:{}vs{}", fact, expect));
            }
        }
        full
    }

    /// returns (result, fully_verifies)
    fn do_validate(&mut self, n: u64, c: u64, v: u64, phase: u64, sig_tok: &str) -> (Result<(), Status>, bool) {
        let (ctx, sig, hsigs) = self.validate_inputs(n, c, v);
        let (th, tc) = content(c);
        let received = htlcs_of(c);
        let full = match &ctx {
            Some(ctx) => self.check_sig_token(sig_tok, ctx, &sig, &hsigs),
            None => false,
        };
        if phase == 1 {
            if let Some(ctx) = ctx {
                let tx = ctx.tx.as_ref().unwrap().trust().built_transaction().transaction.clone();
                let r = self.node.with_channel(&self.channel_id, |chan| {
                    let params = chan.make_channel_parameters();
                    let parameters = params.as_holder_broadcastable();
                    let trusted = ctx.tx.as_ref().unwrap().trust();
                    let keys = trusted.keys();
                    let htlcs = Channel::htlcs_info2_to_oic(&offered_of(c), &received);
                    let scripts = build_tx_scripts(
                        keys,
                        th,
                        tc,
                        &htlcs,
                        &parameters,
                        &chan.keys.pubkeys().funding_pubkey,
                        &chan.setup.counterparty_points.funding_pubkey,
                    )
                    .expect("scripts");
                    let wit: Vec<Vec<u8>> = scripts.iter().map(|s| s.as_bytes().to_vec()).collect();
                    chan.validate_holder_commitment_tx(&tx, &wit, n, content_feerate(c), offered_of(c), received.clone(), &sig, &hsigs)
                });
                return (r, full);
            }
        }
        let r = self.node.with_channel(&self.channel_id, |chan| {
            chan.validate_holder_commitment_tx_phase2(n, content_feerate(c), th, tc, offered_of(c), received.clone(), &sig, &hsigs)
        });
        (r, full)
    }

    fn cp_point(&mut self, n: u64, kind: u64) -> PublicKey {
        let s = cp_secret(self.cp_keys.as_ref().unwrap(), n, kind);
        let p = PublicKey::from_secret_key(&self.secp, &SecretKey::from_slice(&s).unwrap());
        self.point_ids.entry(p).or_insert(cp_point_id(n, kind));
        p
    }

    fn handler(&self, ver: u32) -> ChannelHandler {
        let mut init = InitHandler::new(0, self.node.clone(), Arc::new(PositiveApprover()), ver);
        let m = msgs::HsmdInit {
            key_version: vls_protocol::model::Bip32KeyVersion { pubkey_version: 0, privkey_version: 0 },
            chain_params: { use lightning_signer::bitcoin::hashes::Hash; lightning_signer::bitcoin::BlockHash::all_zeros() },
            encryption_key: None,
            dev_privkey: None,
            dev_bip32_seed: None,
            dev_channel_secrets: None,
            dev_channel_secrets_shaseed: None,
            hsm_wire_min_version: 2,
            hsm_wire_max_version: ver,
        };
        let (done, _) = init.handle(Message::HsmdInit(m)).expect("hsmd init");
        assert!(done);
        let root: RootHandler = init.into();
        root.for_new_client(1, PubKey(PEER), DBID)
    }

    fn root_handler(&self, ver: u32) -> RootHandler {
        let mut init = InitHandler::new(0, self.node.clone(), Arc::new(PositiveApprover()), ver);
        let m = msgs::HsmdInit {
            key_version: vls_protocol::model::Bip32KeyVersion { pubkey_version: 0, privkey_version: 0 },
            chain_params: { use lightning_signer::bitcoin::hashes::Hash; lightning_signer::bitcoin::BlockHash::all_zeros() },
            encryption_key: None,
            dev_privkey: None,
            dev_bip32_seed: None,
            dev_channel_secrets: None,
            dev_channel_secrets_shaseed: None,
            hsm_wire_min_version: 2,
            hsm_wire_max_version: ver,
        };
        let (done, _) = init.handle(Message::HsmdInit(m)).expect("hsmd init");
        assert!(done);
        init.into()
    }

    fn reply(&self, r: Box<dyn vls_protocol::msgs::SerBolt>) -> Message {
        msgs::from_vec(r.as_vec()).expect("decode reply")
    }

    // ---- one op ---------------------------------------------------------------------------

    /// returns the canonical output line
    pub fn apply(&mut self, op: &str) -> String {
        let t: Vec<&str> = op.split_whitespace().collect();
        let num = |i: usize| -> u64 { t.get(i).and_then(|x| x.parse().ok()).unwrap_or(0) };
        let kind = t.first().copied().unwrap_or("");
        if self.dead && kind != "restart" {
            self.step += 1;
            return "dead".into();
        }
        if kind == "filter" {
            self.step += 1;
            return "ok".into();
        }
        if kind == "store" {
            self.step += 1;
            return "ok".into();
        }
        if kind == "failr" {
            // a TRANSIENT store error: every write fails during this one request, the process keeps running (the node retries
            // or goes on; round 9).  What a refused request left in memory is whatever the code left there.
            let inner = t[1..].join(" ");
            // (round 10) the in-memory state before the request (already rendered at the end of the previous op, so this call
            // assigns no new point ids)
            let before = self.digest();
            self.fail.store(true, std::sync::atomic::Ordering::Relaxed);
            self.in_fail = true;
            let line = self.apply(&inner);
            self.in_fail = false;
            self.fail.store(false, std::sync::atomic::Ordering::Relaxed);
            self.tags.insert(if line.starts_with("ok") { "failr:acknowledged".into() } else { "failr:refused".into() });
            if !line.starts_with("ok") {
                // ghost (survives restarts): which kind of request met a store error, was refused while the signer kept
                // running AND left the in-memory state changed (memory ahead of the store); violations found afterwards carry
                // it in their kind (`…-after-store-error-in-<request>`).  A refused request that changed nothing is not a cause
                // of anything later, and of several the latest one is named (round 10: the first refused one was named whether
                // or not it had an effect, so `failr signrecovery` (no effect) ... `failr revoke` mislabelled the listed finding
                // of revoke as one of signrecovery and the thorough tier reported it as new).
                if self.digest() != before {
                    let fam = t.get(1).copied().unwrap_or("").trim_start_matches('h').trim_end_matches(|ch: char| ch.is_ascii_digit()).to_string();
                    self.tags.insert(format!("failr:left-memory-changed:{}", fam));
                    self.store_error_in = Some(fam);
                }
            }
            return format!("failr {}", line);
        }
        if kind == "failw" || kind == "failb" {
            // the store (failb: the backup side of the composite) refuses every write during this one request
            let inner = t[1..].join(" ");
            let flag = if kind == "failb" { self.fail_b.clone() } else { self.fail.clone() };
            flag.store(true, std::sync::atomic::Ordering::Relaxed);
            self.in_fail = true;
            let line = self.apply(&inner);
            self.in_fail = false;
            flag.store(false, std::sync::atomic::Ordering::Relaxed);
            if line.starts_with("ok") {
                // acknowledged although nothing could be written: the reply counts, the run goes on
                self.tags.insert("failw:acknowledged".into());
            } else {
                // refused: memory may be ahead of the store; the process has to be restarted
                self.tags.insert("failw:refused".into());
                self.dead = true;
            }
            return format!("{} {}", kind, line);
        }
        let ready = self.is_ready();
        let v0 = self.channel_entry_version();
        let res: Result<String, String> = match catch_unwind(AssertUnwindSafe(|| -> Result<String, String> {
            match kind {
                "setup" => {
                    let perm = ChannelId::new(&[0x77u8; 32]);
                    let r = self.node.setup_channel(self.channel_id.clone(), Some(perm.clone()), self.setup.clone(), &DerivationPath::master());
                    match r {
                        Ok(_) => {
                            // from now on the direct entry points look the channel up by its permanent id, the
                            // handler arms by the initial id (peer id + dbid); the persister keys by the initial id
                            self.channel_id = perm;
                            let nc = self.node_ctx();
                            self.cp_keys = Some(make_test_counterparty_keys(&nc, &self.channel_id, CHANNEL_VALUE));
                            // outgoing HTLCs (received by the counterparty) need an approved payment
                            for hsh in OUT_HASHES {
                                let _ = self.node.add_keysend(lightning_signer::util::test_utils::key::make_test_pubkey(1), PaymentHash(hsh), 30_000_000);
                            }
                            Ok("ok".into())
                        }
                        Err(e) => Err(class_of(&e)),
                    }
                }
                "tick" => {
                    // time passes and the periodic heartbeat runs (prunes expired keysends/invoices)
                    let secs = num(1);
                    let now = self.clock.now();
                    self.clock.set(now + std::time::Duration::from_secs(secs));
                    let _ = self.node.get_heartbeat();
                    Ok("ok".into())
                }
                "keysend" => {
                    // the node approves the outgoing payments (again)
                    for hsh in OUT_HASHES {
                        let _ = self.node.add_keysend(lightning_signer::util::test_utils::key::make_test_pubkey(1), PaymentHash(hsh), 30_000_000);
                    }
                    Ok("ok".into())
                }
                "restart" => {
                    // a process start builds a new persister object over the same stores
                    self.persister = World::make_persister(&self.store, &self.backup_store, &self.fail, &self.fail_b);
                    let (node_id, entry) = self.persister.get_nodes().unwrap().into_iter().next().unwrap();
                    let n = Node::restore_node(&node_id, entry, &self.seed, services(self.persister.clone(), self.clock.clone(), &self.demoted)).map_err(|e| class_of(&e))?;
                    self.node = n;
                    self.dead = false;
                    Ok("ok".into())
                }
                "getpoint" => {
                    let n = num(1);
                    self.node.with_channel_base(&self.channel_id, |b| b.get_per_commitment_point(n)).map(|_| "ok".to_string()).map_err(|e| class_of(&e))
                }
                "getsecret" => {
                    let n = num(1);
                    match self.node.with_channel_base(&self.channel_id, |b| b.get_per_commitment_secret(n)) {
                        Ok(s) => Ok(format!("ok {}", self.on_secret(s.secret_bytes(), "get_per_commitment_secret"))),
                        Err(e) => Err(class_of(&e)),
                    }
                }
                "getsecretnone" => {
                    let n = num(1);
                    match self.node.with_channel_base(&self.channel_id, |b| Ok(b.get_per_commitment_secret_or_none(n))) {
                        Ok(Some(s)) => Ok(format!("ok {}", self.on_secret(s.secret_bytes(), "get_per_commitment_secret_or_none"))),
                        Ok(None) => Ok("ok".into()),
                        Err(e) => Err(class_of(&e)),
                    }
                }
                "validate" => {
                    if !ready {
                        return self.node.with_channel(&self.channel_id, |_| Ok(())).map(|_| "ok".to_string()).map_err(|e| class_of(&e));
                    }
                    // validate n c fact p phase variant
                    let (n, c, ph, v) = (num(1), num(2), num(5), if t.len() > 6 { num(6) } else { num(3) });
                    let sig_tok = t.get(3).copied().unwrap_or("0").to_string();
                    let (r, full) = self.do_validate(n, c, v, ph, &sig_tok);
                    match r {
                        Ok(()) => {
                            if full {
                                self.mon.accepted_valid.insert(n);
                            } else {
                                self.tags.insert("validate:accepted-not-fully-signed".into());
                            }
                            Ok("ok".into())
                        }
                        Err(e) => {
                            // refused while a store write was failing: the signer may already have recorded the
                            // (fully verified) commitment in the store side that did accept the write
                            if self.in_fail && full {
                                self.mon.accepted_valid.insert(n);
                            }
                            Err(class_of(&e))
                        }
                    }
                }
                "revoke" => {
                    let n = num(1);
                    match self.node.with_channel(&self.channel_id, |chan| chan.revoke_previous_holder_commitment(n)) {
                        Ok((_, Some(s))) => Ok(format!("ok {}", self.on_secret(s.secret_bytes(), "revoke_previous_holder_commitment"))),
                        Ok((_, None)) => Ok("ok".into()),
                        Err(e) => {
                            // refused while a write was failing: the advance (and with it the release of this secret) may already
                            // be recorded by the store side that took the write
                            if self.in_fail {
                                if let Some(k) = n.checked_sub(1) {
                                    self.mon.revoked_maybe.insert(k);
                                }
                            }
                            Err(class_of(&e))
                        }
                    }
                }
                "activate" => self.node.with_channel(&self.channel_id, |chan| chan.activate_initial_commitment()).map(|_| "ok".to_string()).map_err(|e| class_of(&e)),
                "signholder" => {
                    let n = num(1);
                    match self.node.with_channel(&self.channel_id, |chan| chan.sign_holder_commitment_tx_phase2(n)) {
                        Ok(sig) => {
                            let n = self.attribute_holder_sig(&sig, n, "sign_holder_commitment_tx_phase2");
                            self.on_holder_sig(n, "sign_holder_commitment_tx_phase2");
                            Ok(format!("ok signed={}", n))
                        }
                        Err(e) => Err(class_of(&e)),
                    }
                }
                "signrecovery" => {
                    if !ready {
                        return self.node.with_channel(&self.channel_id, |_| Ok(())).map(|_| "ok".to_string()).map_err(|e| class_of(&e));
                    }
                    match self.node.with_channel(&self.channel_id, |chan| chan.sign_holder_commitment_tx_for_recovery(0, &[])) {
                        Ok((tx, _, _, _, _)) => {
                            // identify the commitment number from the transaction itself
                            let next = self.estate().unwrap().next_holder_commit_num;
                            let mut found = None;
                            for n in next.saturating_sub(3)..=next + 1 {
                                for c in all_contents() {
                                    let ok = self.node.with_channel(&self.channel_id, |ch| ch.get_per_commitment_point(n)).is_ok();
                                    if !ok {
                                        continue;
                                    }
                                    let (th, tc) = content(c);
                                    let ctx = channel_commitment(&self.node_ctx(), &self.chan_ctx(), n, content_feerate(c), th, tc, offered_of(c), htlcs_of(c));
                                    let cand = ctx.tx.as_ref().unwrap().trust().built_transaction().transaction.clone();
                                    if cand.compute_txid() == tx.compute_txid() {
                                        found = Some(n);
                                    }
                                }
                            }
                            match found {
                                Some(n) => {
                                    self.on_holder_sig(n, "sign_holder_commitment_tx_for_recovery");
                                    Ok(format!("ok signed={}", n))
                                }
                                None => {
                                    self.violation("c02-signed-unknown-tx", "recovery signed a transaction that is none of the candidate holder commitments".into());
                                    Ok("ok signed=?".into())
                                }
                            }
                        }
                        Err(e) => Err(class_of(&e)),
                    }
                }
                "signredundant" => {
                    let (n, c) = (num(1), num(2));
                    let (th, tc) = content(c);
                    match self.node.with_channel(&self.channel_id, |chan| chan.sign_holder_commitment_tx_phase2_redundant(n, content_feerate(c), th, tc, offered_of(c), htlcs_of(c))) {
                        Ok(sig) => {
                            let n = self.attribute_holder_sig(&sig, n, "sign_holder_commitment_tx_phase2_redundant");
                            self.on_holder_sig(n, "sign_holder_commitment_tx_phase2_redundant");
                            Ok(format!("ok signed={}", n))
                        }
                        Err(e) => Err(class_of(&e)),
                    }
                }
                "mutualclose" => {
                    let good = if t.len() > 3 { num(3) == 1 } else { num(1) == 1 };
                    let path = DerivationPath::from(vec![lightning_signer::bitcoin::bip32::ChildNumber::from_normal_idx(7).unwrap()]);
                    let script = { use lightning_signer::wallet::Wallet; self.node.get_native_address(&path).unwrap().script_pubkey() };
                    let cps = lightning_signer::bitcoin::ScriptBuf::from_hex("0014be56df7de366ad8ee9ccdad54e9a9993e99ef565").unwrap();
                    let (th, tc, cpscript) = if good { (2_998_000u64, 0u64, None) } else { (2_598_000u64, 400_000u64, Some(cps)) };
                    if num(2) == 1 {
                        // phase 1: the closing transaction itself plus one wallet path per output
                        use lightning_signer::lightning::ln::chan_utils::ClosingTransaction;
                        let ctx = ClosingTransaction::new(th, tc, script.clone(), cpscript.clone().unwrap_or_default(), self.setup.funding_outpoint);
                        let tx = ctx.trust().built_transaction().clone();
                        let opaths: Vec<DerivationPath> =
                            tx.output.iter().map(|o| if o.script_pubkey == script { path.clone() } else { DerivationPath::master() }).collect();
                        return self
                            .node
                            .with_channel(&self.channel_id, |chan| chan.sign_mutual_close_tx(&tx, &opaths))
                            .map(|_| "ok".to_string())
                            .map_err(|e| class_of(&e));
                    }
                    self.node
                        .with_channel(&self.channel_id, |chan| chan.sign_mutual_close_tx_phase2(th, tc, &Some(script.clone()), &cpscript, &path))
                        .map(|_| "ok".to_string())
                        .map_err(|e| class_of(&e))
                }
                "signcp" => {
                    if !ready {
                        return self.node.with_channel(&self.channel_id, |_| Ok(())).map(|_| "ok".to_string()).map_err(|e| class_of(&e));
                    }
                    // signcp n ptid c p phase kind   (ptid = cp_point_id(n', kind) of the point used)
                    let (n, ptid, c, ph) = (num(1), num(2), num(3), num(5));
                    let src_n = (ptid - 1000) / 4;
                    let kind = (ptid - 1000) % 4;
                    let point = self.cp_point(src_n, kind);
                    let cc = cp_content(c);
                    let r = if ph == 1 {
                        self.node.with_channel(&self.channel_id, |chan| {
                            let params = chan.make_channel_parameters();
                            let parameters = params.as_counterparty_broadcastable();
                            let keys = chan.make_counterparty_tx_keys(&point);
                            let htlcs = Channel::htlcs_info2_to_oic(&cc.offered, &cc.received);
                            let ctx = chan.make_counterparty_commitment_tx(&point, n & INITIAL, cc.feerate, cc.to_holder, cc.to_cp, htlcs.clone());
                            let tx = ctx.trust().built_transaction().transaction.clone();
                            let scripts = build_tx_scripts(
                                &keys,
                                cc.to_cp,
                                cc.to_holder,
                                &htlcs,
                                &parameters,
                                &chan.keys.pubkeys().funding_pubkey,
                                &chan.setup.counterparty_points.funding_pubkey,
                            )
                            .expect("scripts");
                            let wit: Vec<Vec<u8>> = scripts.iter().map(|s| s.as_bytes().to_vec()).collect();
                            chan.sign_counterparty_commitment_tx(&tx, &wit, &point, n, cc.feerate, cc.offered.clone(), cc.received.clone()).map(|_| None)
                        })
                    } else {
                        self.node.with_channel(&self.channel_id, |chan| {
                            chan.sign_counterparty_commitment_tx_phase2(&point, n, cc.feerate, cc.to_holder, cc.to_cp, cc.offered.clone(), cc.received.clone())
                                .map(|(_, hs)| Some(hs))
                        })
                    };
                    match r {
                        Ok(hs) => {
                            self.on_cp_signed(n, ptid, c);
                            if let Some(hs) = hs {
                                self.check_cp_htlc_sigs(n, &hs);
                            }
                            Ok("ok".into())
                        }
                        Err(e) => {
                            if self.in_fail {
                                self.mon.cp_signed_maybe.insert(n, ptid);
                            }
                            Err(class_of(&e))
                        }
                    }
                }
                "revokecp" => {
                    let n = num(1);
                    let bytes: [u8; 32] = hex::decode(t[2]).unwrap().try_into().unwrap();
                    let sk = SecretKey::from_slice(&bytes).unwrap();
                    let ptid = num(3);
                    match self.node.with_channel(&self.channel_id, |chan| chan.validate_counterparty_revocation(n, &sk)) {
                        Ok(()) => {
                            self.on_cp_revoked(n, bytes, ptid);
                            Ok("ok".into())
                        }
                        Err(e) => {
                            self.check_store_present("a refused revocation");
                            if self.in_fail {
                                self.mon.cp_revoked_maybe.insert(n);
                            }
                            Err(class_of(&e))
                        }
                    }
                }
                "hvalidate" => {
                    // hvalidate ver n c fact p variant
                    let (ver, n, c, v) = (num(1) as u32, num(2), num(3), if t.len() > 6 { num(6) } else { num(4) });
                    let sig_tok = t.get(4).copied().unwrap_or("0").to_string();
                    let (th, tc) = content(c);
                    let (ctx, sig, hsigs) = if ready { self.validate_inputs(n, c, v) } else { (None, self.dummy_sig(), vec![]) };
                    let s = match &ctx {
                        Some(ctx) => self.check_sig_token(&sig_tok, ctx, &sig, &hsigs),
                        None => false,
                    };
                    let h = self.handler(ver);
                    let wire_htlcs: Vec<vls_protocol::model::Htlc> = wire_htlcs_of(c);
                    let m = msgs::ValidateCommitmentTx2 {
                        commitment_number: n,
                        feerate: content_feerate(c),
                        to_local_value_sat: th,
                        to_remote_value_sat: tc,
                        htlcs: wire_htlcs.into(),
                        signature: BitcoinSignature { signature: WireSig(sig.serialize_compact()), sighash: 1 },
                        htlc_signatures: hsigs
                            .iter()
                            .map(|x| BitcoinSignature { signature: WireSig(x.serialize_compact()), sighash: 1 })
                            .collect::<Vec<_>>()
                            .into(),
                    };
                    // the validate part counts as accepted iff next_holder_commit_info / the reply says so:
                    // observe acceptance through the state (the composite may fail in its second half)
                    let before = self.estate();
                    let r = h.handle(Message::ValidateCommitmentTx2(m));
                    let after = self.estate();
                    let validated = match (&before, &after) {
                        (Some(b), Some(a)) =>
                            r.is_ok()
                                || a.next_holder_commit_num != b.next_holder_commit_num
                                || (a.next_holder_commit_info.is_some() && b.next_holder_commit_info.is_none()),
                        _ => false,
                    };
                    if self.in_fail && r.is_err() && ver < 5 {
                        // old protocol: the same request also revokes n-1
                        if let Some(k) = n.checked_sub(1) {
                            self.mon.revoked_maybe.insert(k);
                        }
                    }
                    if (validated || self.in_fail) && s {
                        self.mon.accepted_valid.insert(n);
                    } else if validated {
                        self.tags.insert("validate:accepted-not-fully-signed".into());
                    }
                    match r {
                        Ok(rep) => match self.reply(rep) {
                            Message::ValidateCommitmentTxReply(rep) => match rep.old_commitment_secret {
                                Some(d) => Ok(format!("ok {}", self.on_secret(d.0, "ValidateCommitmentTx2"))),
                                None => Ok("ok".into()),
                            },
                            _ => Ok("ok ?reply".into()),
                        },
                        Err(e) => Err(herr_class(&e)),
                    }
                }
                "hrevoke" => {
                    let (ver, n) = (num(1) as u32, num(2));
                    let h = self.handler(ver);
                    match h.handle(Message::RevokeCommitmentTx(msgs::RevokeCommitmentTx { commitment_number: n })) {
                        Ok(rep) => match self.reply(rep) {
                            Message::RevokeCommitmentTxReply(rep) => Ok(format!("ok {}", self.on_secret(rep.old_commitment_secret.0, "RevokeCommitmentTx"))),
                            _ => Ok("ok ?reply".into()),
                        },
                        Err(e) => {
                            // refused while a write was failing: the advance (and with it the release of this secret) may already
                            // be recorded by the store side that took the write
                            if self.in_fail {
                                if let Some(k) = Some(n) {
                                    self.mon.revoked_maybe.insert(k);
                                }
                            }
                            Err(herr_class(&e))
                        }
                    }
                }
                "hgetpoint" => {
                    let (ver, n) = (num(1) as u32, num(2));
                    let h = self.handler(ver);
                    match h.handle(Message::GetPerCommitmentPoint(msgs::GetPerCommitmentPoint { commitment_number: n })) {
                        Ok(rep) => match self.reply(rep) {
                            Message::GetPerCommitmentPointReply(rep) => match rep.secret {
                                Some(d) => Ok(format!("ok {}", self.on_secret(d.0, "GetPerCommitmentPoint"))),
                                None => Ok("ok".into()),
                            },
                            _ => Ok("ok ?reply".into()),
                        },
                        Err(e) => Err(herr_class(&e)),
                    }
                }
                "hgetpoint2" => {
                    let n = num(1);
                    let h = self.handler(6);
                    match h.handle(Message::GetPerCommitmentPoint2(msgs::GetPerCommitmentPoint2 { commitment_number: n })) {
                        Ok(_) => Ok("ok".into()),
                        Err(e) => Err(herr_class(&e)),
                    }
                }
                // ---- the remaining handler arms that touch the enforcement state ------------------
                "hsignholder" => {
                    // SignLocalCommitmentTx2 (channel handler)
                    let (ver, n) = (num(1) as u32, num(2));
                    let h = self.handler(ver);
                    match h.handle(Message::SignLocalCommitmentTx2(msgs::SignLocalCommitmentTx2 { commitment_number: n })) {
                        Ok(rep) => {
                            let n = match self.reply(rep) {
                                Message::SignCommitmentTxReply(r) => match Signature::from_compact(&r.signature.signature.0) {
                                    Ok(sig) => self.attribute_holder_sig(&sig, n, "SignLocalCommitmentTx2"),
                                    Err(_) => n,
                                },
                                _ => n,
                            };
                            self.on_holder_sig(n, "SignLocalCommitmentTx2");
                            Ok(format!("ok signed={}", n))
                        }
                        Err(e) => Err(herr_class(&e)),
                    }
                }
                "hsigncommit" => {
                    // SignCommitmentTx (root handler, CLN): non-zero locktime = holder commitment, only the number counts
                    use lightning_signer::bitcoin::{absolute::LockTime, transaction::Version, Amount, ScriptBuf, Transaction, TxIn, TxOut};
                    let (ver, n) = (num(1) as u32, num(2));
                    let tx = Transaction {
                        version: Version::TWO,
                        lock_time: LockTime::from_consensus(0x2000_0001),
                        input: vec![TxIn::default()],
                        output: vec![TxOut { value: Amount::from_sat(1000), script_pubkey: ScriptBuf::new() }],
                    };
                    let psbt = lightning_signer::bitcoin::psbt::Psbt::from_unsigned_tx(tx.clone()).expect("psbt");
                    let root = self.root_handler(ver);
                    let m = msgs::SignCommitmentTx {
                        peer_id: PubKey(PEER),
                        dbid: DBID,
                        tx: vls_protocol::serde_bolt::WithSize(tx),
                        psbt: vls_protocol::serde_bolt::WithSize(vls_protocol::psbt::PsbtWrapper { inner: psbt }),
                        remote_funding_key: PubKey(PEER),
                        commitment_number: n,
                    };
                    match root.handle(Message::SignCommitmentTx(m)) {
                        Ok(rep) => {
                            let n = match self.reply(rep) {
                                Message::SignCommitmentTxReply(r) => match Signature::from_compact(&r.signature.signature.0) {
                                    Ok(sig) => self.attribute_holder_sig(&sig, n, "SignCommitmentTx"),
                                    Err(_) => n,
                                },
                                _ => n,
                            };
                            self.on_holder_sig(n, "SignCommitmentTx");
                            Ok(format!("ok signed={}", n))
                        }
                        Err(e) => Err(herr_class(&e)),
                    }
                }
                "hrevokecp" => {
                    // ValidateRevocation
                    let n = num(1);
                    let bytes: [u8; 32] = hex::decode(t[2]).unwrap().try_into().unwrap();
                    let ptid = num(3);
                    let h = self.handler(6);
                    let m = msgs::ValidateRevocation { commitment_number: n, commitment_secret: vls_protocol::model::DisclosedSecret(bytes) };
                    match h.handle(Message::ValidateRevocation(m)) {
                        Ok(_) => {
                            self.on_cp_revoked(n, bytes, ptid);
                            Ok("ok".into())
                        }
                        Err(e) => {
                            self.check_store_present("a refused revocation");
                            if self.in_fail {
                                self.mon.cp_revoked_maybe.insert(n);
                            }
                            Err(herr_class(&e))
                        }
                    }
                }
                "hsigncp" => {
                    // SignRemoteCommitmentTx2
                    let (n, ptid, c) = (num(1), num(2), num(3));
                    let cc = cp_content(c);
                    let h = self.handler(6);
                    // wire HTLCs: the handler flips the sides ("LOCAL" = offered by us = received by the counterparty)
                    let mut wire: Vec<vls_protocol::model::Htlc> = vec![];
                    for (side, l) in [(vls_protocol::model::Htlc::REMOTE, &cc.offered), (vls_protocol::model::Htlc::LOCAL, &cc.received)] {
                        for x in l {
                            wire.push(vls_protocol::model::Htlc { side, amount: x.value_sat * 1000, payment_hash: vls_protocol::model::Sha256(x.payment_hash.0), ctlv_expiry: x.cltv_expiry });
                        }
                    }
                    let point = if ready {
                        self.cp_point((ptid - 1000) / 4, (ptid - 1000) % 4)
                    } else {
                        // the point table needs the counterparty keys, which exist only after setup
                        PublicKey::from_secret_key(&self.secp, &SecretKey::from_slice(&[0x33; 32]).unwrap())
                    };
                    let m = msgs::SignRemoteCommitmentTx2 {
                        remote_per_commitment_point: PubKey(point.serialize()),
                        commitment_number: n,
                        feerate: cc.feerate,
                        to_local_value_sat: cc.to_holder,
                        to_remote_value_sat: cc.to_cp,
                        htlcs: wire.into(),
                    };
                    match h.handle(Message::SignRemoteCommitmentTx2(m)) {
                        Ok(rep) => {
                            self.on_cp_signed(n, ptid, c);
                            if let Message::SignCommitmentTxWithHtlcsReply(rep) = self.reply(rep) {
                                let hs: Vec<Signature> = rep.htlc_signatures.iter().filter_map(|x| Signature::from_compact(&x.signature.0).ok()).collect();
                                self.check_cp_htlc_sigs(n, &hs);
                            }
                            Ok("ok".into())
                        }
                        Err(e) => {
                            if self.in_fail {
                                self.mon.cp_signed_maybe.insert(n, ptid);
                            }
                            Err(herr_class(&e))
                        }
                    }
                }
                "hmutualclose" => {
                    // SignMutualCloseTx2
                    let good = if t.len() > 3 { num(3) == 1 } else { num(1) == 1 };
                    let path = DerivationPath::from(vec![lightning_signer::bitcoin::bip32::ChildNumber::from_normal_idx(7).unwrap()]);
                    let script = { use lightning_signer::wallet::Wallet; self.node.get_native_address(&path).unwrap().script_pubkey() };
                    let cps = lightning_signer::bitcoin::ScriptBuf::from_hex("0014be56df7de366ad8ee9ccdad54e9a9993e99ef565").unwrap();
                    let (th, tc, cpscript) = if good { (2_998_000u64, 0u64, vec![]) } else { (2_598_000u64, 400_000u64, cps.to_bytes()) };
                    let h = self.handler(6);
                    let m = msgs::SignMutualCloseTx2 {
                        to_local_value_sat: th,
                        to_remote_value_sat: tc,
                        local_script: vls_protocol::serde_bolt::Octets(script.to_bytes()),
                        remote_script: vls_protocol::serde_bolt::Octets(cpscript),
                        local_wallet_path_hint: vls_protocol::serde_bolt::ArrayBE(vec![7u32]),
                    };
                    h.handle(Message::SignMutualCloseTx2(m)).map(|_| "ok".to_string()).map_err(|e| herr_class(&e))
                }
                "hvalidate1" => {
                    // ValidateCommitmentTx (phase 1 through the handler: transaction + PSBT with witness scripts)
                    use lightning_signer::bitcoin::{absolute::LockTime, transaction::Version, Amount, ScriptBuf, Transaction, TxIn, TxOut};
                    let (ver, n, c, v) = (num(1) as u32, num(2), num(3), if t.len() > 6 { num(6) } else { num(4) });
                    let sig_tok = t.get(4).copied().unwrap_or("0").to_string();
                    let (th, tc) = content(c);
                    let received = htlcs_of(c);
                    let (ctx, sig, hsigs) = if ready { self.validate_inputs(n, c, v) } else { (None, self.dummy_sig(), vec![]) };
                    let full = match &ctx {
                        Some(ctx) => self.check_sig_token(&sig_tok, ctx, &sig, &hsigs),
                        None => false,
                    };
                    let (tx, wit): (Transaction, Vec<Vec<u8>>) = match &ctx {
                        Some(ctx) => {
                            let tx = ctx.tx.as_ref().unwrap().trust().built_transaction().transaction.clone();
                            let wit = self
                                .node
                                .with_channel(&self.channel_id, |chan| {
                                    let params = chan.make_channel_parameters();
                                    let parameters = params.as_holder_broadcastable();
                                    let trusted = ctx.tx.as_ref().unwrap().trust();
                                    let htlcs = Channel::htlcs_info2_to_oic(&offered_of(c), &received);
                                    let scripts = build_tx_scripts(
                                        trusted.keys(),
                                        th,
                                        tc,
                                        &htlcs,
                                        &parameters,
                                        &chan.keys.pubkeys().funding_pubkey,
                                        &chan.setup.counterparty_points.funding_pubkey,
                                    )
                                    .expect("scripts");
                                    Ok(scripts.iter().map(|s| s.as_bytes().to_vec()).collect())
                                })
                                .unwrap();
                            (tx, wit)
                        }
                        None => (
                            Transaction {
                                version: Version::TWO,
                                lock_time: LockTime::from_consensus(0x2000_0001),
                                input: vec![TxIn::default()],
                                output: vec![TxOut { value: Amount::from_sat(1000), script_pubkey: ScriptBuf::new() }],
                            },
                            vec![vec![]],
                        ),
                    };
                    let mut psbt = lightning_signer::bitcoin::psbt::Psbt::from_unsigned_tx(tx.clone()).expect("psbt");
                    for (i, w) in wit.iter().enumerate() {
                        psbt.outputs[i].witness_script = Some(ScriptBuf::from(w.clone()));
                    }
                    let wire_htlcs: Vec<vls_protocol::model::Htlc> = wire_htlcs_of(c);
                    let m = msgs::ValidateCommitmentTx {
                        tx: vls_protocol::serde_bolt::WithSize(tx),
                        psbt: vls_protocol::serde_bolt::WithSize(vls_protocol::psbt::PsbtWrapper { inner: psbt }),
                        htlcs: wire_htlcs.into(),
                        commitment_number: n,
                        feerate: content_feerate(c),
                        signature: BitcoinSignature { signature: WireSig(sig.serialize_compact()), sighash: 1 },
                        htlc_signatures: hsigs
                            .iter()
                            .map(|x| BitcoinSignature { signature: WireSig(x.serialize_compact()), sighash: 1 })
                            .collect::<Vec<_>>()
                            .into(),
                    };
                    let h = self.handler(ver);
                    let before = self.estate();
                    let r = h.handle(Message::ValidateCommitmentTx(m));
                    let after = self.estate();
                    let validated = match (&before, &after) {
                        (Some(b), Some(a)) =>
                            r.is_ok()
                                || a.next_holder_commit_num != b.next_holder_commit_num
                                || (a.next_holder_commit_info.is_some() && b.next_holder_commit_info.is_none()),
                        _ => false,
                    };
                    if self.in_fail && r.is_err() && ver < 5 {
                        // old protocol: the same request also revokes n-1
                        if let Some(k) = n.checked_sub(1) {
                            self.mon.revoked_maybe.insert(k);
                        }
                    }
                    if (validated || self.in_fail) && full {
                        self.mon.accepted_valid.insert(n);
                    } else if validated {
                        self.tags.insert("validate:accepted-not-fully-signed".into());
                    }
                    match r {
                        Ok(rep) => match self.reply(rep) {
                            Message::ValidateCommitmentTxReply(rep) => match rep.old_commitment_secret {
                                Some(d) => Ok(format!("ok {}", self.on_secret(d.0, "ValidateCommitmentTx"))),
                                None => Ok("ok".into()),
                            },
                            _ => Ok("ok ?reply".into()),
                        },
                        Err(e) => Err(herr_class(&e)),
                    }
                }
                "hcheckfuture" => {
                    // CheckFutureSecret: a yes/no oracle on a suggested secret; implementation-only op
                    // (not fed to the model): must not change anything and must answer truthfully
                    let (n, k) = (num(1), num(2));
                    let real = {
                        let slot = self.node.get_channel(&self.channel_id).unwrap();
                        let g = slot.lock().unwrap_or_else(|e| e.into_inner());
                        let keys = match &*g {
                            ChannelSlot::Stub(s) => s.keys.clone(),
                            ChannelSlot::Ready(c) => c.keys.clone(),
                        };
                        keys.release_commitment_secret(INITIAL - (n & INITIAL)).unwrap()
                    };
                    let mut sec = real;
                    if k != 0 {
                        sec[31] ^= 1;
                    }
                    let before = self.digest();
                    let h = self.handler(6);
                    let r = h.handle(Message::CheckFutureSecret(msgs::CheckFutureSecret { commitment_number: n, secret: vls_protocol::model::DisclosedSecret(sec) }));
                    let after = self.digest();
                    if before != after {
                        self.violation("c01-checkfuture-changed-state", format!("CheckFutureSecret({}) changed the enforcement state", n));
                    }
                    match r {
                        Ok(rep) => match self.reply(rep) {
                            Message::CheckFutureSecretReply(rep) => {
                                if rep.result != (k == 0 && n <= INITIAL) {
                                    self.violation("c01-checkfuture-wrong", format!("CheckFutureSecret({}) answered {} for a {} secret", n, rep.result, if k == 0 { "genuine" } else { "wrong" }));
                                }
                                Ok(format!("ok {}", rep.result))
                            }
                            _ => Ok("ok ?reply".into()),
                        },
                        Err(e) => Err(herr_class(&e)),
                    }
                }
                _ => Ok("bad-op".into()),
            }
        })) {
            Ok(r) => r,
            Err(_) => {
                self.dead = true;
                // The secret accessors are total (checked arithmetic since 0078200; `C01_guard_no_panic`): a panic
                // inside one of them means a request got past the release guard into index arithmetic that
                // overflows — in a release build the same request wraps and returns a secret.
                if matches!(kind, "getsecret" | "getsecretnone" | "revoke") {
                    let n = num(1);
                    self.violation("c01-secret-path-panic", format!("{} {} panicked inside the secret-release path (a release build wraps here and discloses)", kind, n));
                }
                Err("panic".into())
            }
        };
        let head = match res {
            Ok(s) => s,
            Err(s) => s,
        };
        self.tags.insert(format!("{}:{}", kind, head.split(' ').next().unwrap_or("")));
        self.step += 1;
        if head == "bad-op" {
            return head;
        }
        let v1 = self.channel_entry_version();
        format!("{} | {} w={}", head, self.digest(), if v1 != v0 { 1 } else { 0 })
    }
}

#[allow(dead_code)]
pub fn unused(_: &Channel, _: &ChannelPublicKeys) {}
