//! C19 — not built yet.
use crate::common::*;

pub fn groups() -> Vec<Box<dyn Group>> {
    vec![]
}
