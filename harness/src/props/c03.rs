//! C03 — counterparty commitments advance only over properly revoked predecessors.
//! Group 0: the real-channel correspondence group of C01 (`c01.rs`, `c01_world.rs`) with an op mix
//! that favours sign-counterparty / counterparty-revocation; the C03 monitor keeps the ledger of
//! signed (number → point, content) and verified revocations.
//! Group 1: the Rust `CounterpartyCommitmentSecrets` against the Lean store (`vlsmodel secrets`,
//! executable SHA-256) on seeded, replayed, out-of-order and corrupted secret sequences.
use crate::common::*;
use lightning_signer::bitcoin::hashes::{sha256, Hash};
use lightning_signer::lightning::ln::chan_utils::build_commitment_secret;
use lightning_signer::policy::validator::CounterpartyCommitmentSecrets;
use std::panic::{catch_unwind, AssertUnwindSafe};

const N48: u64 = 1 << 48;

pub struct SecretsGroup;

/// independent re-statement of BOLT-3 derivation (monitor side)
fn derive(secret: [u8; 32], bits: u32, idx: u64) -> [u8; 32] {
    let mut res = secret;
    for b in (0..bits).rev() {
        if idx >> b & 1 == 1 {
            res[(b / 8) as usize] ^= 1 << (b % 8);
            res = sha256::Hash::hash(&res).to_byte_array();
        }
    }
    res
}

fn store_items(s: &CounterpartyCommitmentSecrets) -> Vec<([u8; 32], u64)> {
    let v = serde_json::to_value(s).unwrap();
    let arr = v.get("old_secrets").and_then(|a| a.as_array()).cloned().unwrap_or_default();
    arr.iter()
        .map(|e| {
            let sec = &e[0];
            let bytes: Vec<u8> = if let Some(st) = sec.as_str() {
                hex::decode(st).unwrap()
            } else {
                sec.as_array().unwrap().iter().map(|b| b.as_u64().unwrap() as u8).collect()
            };
            (bytes.try_into().unwrap(), e[1].as_u64().unwrap())
        })
        .collect()
}

fn digest(s: &CounterpartyCommitmentSecrets) -> String {
    let items = store_items(s);
    let l: Vec<String> = items.iter().map(|(b, i)| format!("{}:{}", hex::encode(b), i)).collect();
    format!("{} {} [{}]", items.len(), s.get_min_seen_secret(), l.join(","))
}

impl Group for SecretsGroup {
    fn property(&self) -> &'static str { "C03" }
    fn model(&self) -> Option<&'static str> { Some("secrets") }
    fn rule(&self) -> &'static str {
        "secrets: CounterpartyCommitmentSecrets::{provide_secret,get_secret,get_min_seen_secret} vs the Lean store with \
         executable SHA-256; sequences: consecutive descending from 2^48-1 from one seed (LDK build_commitment_secret), \
         power-of-two jumps filling up to all 49 slots, replays (same/different secret), out-of-order and future indices, \
         secrets corrupted or taken from another seed at each tree level, indices >= 2^48 and u64 extremes; every get compared; \
         non-trivial = at least one accepted and one rejected provide"
    }
    fn budget(&self, tier: Tier) -> usize { if tier == Tier::Quick { 250 } else { 5000 } }
    fn corpus(&self) -> Vec<Vec<String>> {
        let seed = [5u8; 32];
        let sec = |i: u64| hex::encode(build_commitment_secret(&seed, i));
        // all 49 slots by power-of-two jumps, then reads at the boundaries
        let mut a = vec!["new".to_string()];
        for k in 0..=48u32 {
            let idx = N48 - (1u64 << k);
            a.push(format!("provide {} {}", idx, sec(idx)));
        }
        for k in 0..=48u32 {
            a.push(format!("get {}", N48 - (1u64 << k)));
            a.push(format!("get {}", (N48 - (1u64 << k)).wrapping_add(1) & (N48 - 1)));
        }
        a.push(format!("provide {} {}", 0, sec(1)));
        // BOLT-3 appendix D style: wrong secret detected one level up
        let other = [6u8; 32];
        let mut b = vec!["new".to_string()];
        b.push(format!("provide {} {}", N48 - 1, hex::encode(build_commitment_secret(&other, N48 - 1))));
        b.push(format!("provide {} {}", N48 - 2, sec(N48 - 2)));
        b.push(format!("provide {} {}", N48 - 1, sec(N48 - 1)));
        b.push(format!("provide {} {}", N48 - 3, sec(N48 - 3)));
        b.push(format!("get {}", N48 - 1));
        b.push(format!("get {}", N48 - 4));
        vec![a, b]
    }
    fn gen_case(&self, rng: &mut Rng, tier: Tier) -> Vec<String> {
        let mut seed = [0u8; 32];
        seed.copy_from_slice(&rng.bytes(32));
        let mut seed2 = seed;
        seed2[0] ^= 1;
        let sec = |s: &[u8; 32], i: u64| hex::encode(build_commitment_secret(s, i & (N48 - 1)));
        let mut ops = vec!["new".to_string()];
        let len = rng.range(4, if tier == Tier::Quick { 40 } else { 120 }) as usize;
        let mut cur = N48 - 1; // next index of the honest descending walk
        let mode = rng.below(3); // 0: step -1, 1: power-of-two jumps, 2: mixed
        let mut k = 0u32;
        let mut provided: Vec<u64> = vec![];
        for _ in 0..len {
            let r = rng.below(100);
            if r < 60 {
                // honest next
                let idx = if mode == 1 || (mode == 2 && rng.chance(1, 3)) {
                    let i = N48 - (1u64 << k.min(48));
                    k += 1;
                    i
                } else {
                    let i = cur;
                    cur = cur.saturating_sub(1);
                    i
                };
                let bad = rng.chance(1, 12);
                ops.push(format!("provide {} {}", idx, sec(if bad { &seed2 } else { &seed }, idx)));
                provided.push(idx);
            } else if r < 70 && !provided.is_empty() {
                // replay
                let idx = *rng.pick(&provided);
                ops.push(format!("provide {} {}", idx, sec(if rng.chance(1, 3) { &seed2 } else { &seed }, idx)));
            } else if r < 78 {
                // out of order / boundary / extreme index
                let idx = match rng.below(6) {
                    0 => cur.saturating_sub(rng.range(1, 5)),
                    1 => (1u64 << rng.below(49)).wrapping_sub(rng.below(2)),
                    2 => N48 + rng.below(3),
                    3 => u64::MAX - rng.below(2),
                    4 => rng.next() & (N48 - 1),
                    _ => 0,
                };
                ops.push(format!("provide {} {}", idx, sec(&seed, idx)));
                provided.push(idx);
            } else if r < 84 {
                // corrupted secret: one bit flipped
                let idx = cur;
                let mut s = build_commitment_secret(&seed, idx & (N48 - 1));
                s[rng.below(32) as usize] ^= 1 << rng.below(8);
                ops.push(format!("provide {} {}", idx, hex::encode(s)));
            } else {
                let idx = match rng.below(5) {
                    0 if !provided.is_empty() => *rng.pick(&provided),
                    1 => cur,
                    2 => cur.saturating_sub(1),
                    3 => rng.next() & (N48 - 1),
                    _ => N48 - 1 - rng.below(8),
                };
                ops.push(format!("get {}", idx));
            }
        }
        ops
    }
    fn exec_case(&self, ops: &[String]) -> CaseOut {
        let mut co = CaseOut::default();
        let mut st = CounterpartyCommitmentSecrets::new();
        // ledger: consecutive accepted provides from 2^48-1 (the channel's usage pattern)
        let mut ledger: Vec<(u64, [u8; 32])> = vec![];
        // the (index, secret) last stored at each place (slot): must read back as itself until replaced
        let mut slots: std::collections::BTreeMap<usize, (u64, [u8; 32])> = Default::default();
        let mut consecutive = true;
        let (mut acc, mut rej) = (false, false);
        for (i, op) in ops.iter().enumerate() {
            let t: Vec<&str> = op.split_whitespace().collect();
            let line = match t.as_slice() {
                ["new"] => {
                    st = CounterpartyCommitmentSecrets::new();
                    ledger.clear();
                    slots.clear();
                    consecutive = true;
                    format!("ok {}", digest(&st))
                }
                ["provide", idx, sec] => {
                    let idx: u64 = idx.parse().unwrap();
                    let s: [u8; 32] = hex::decode(sec).unwrap().try_into().unwrap();
                    let before = store_items(&st);
                    let r = catch_unwind(AssertUnwindSafe(|| {
                        let mut c = st.clone();
                        let r = c.provide_secret(idx, s);
                        (c, r)
                    }));
                    match r {
                        Err(_) => { co.tags.insert("provide:panic".into()); "panic".to_string() }
                        Ok((c, Err(()))) => {
                            rej = true;
                            co.tags.insert("provide:err".into());
                            // independent re-statement of the acceptance rule: position within the store and every
                            // lower slot derivable from the offered secret ⇒ must be accepted
                            let pos = (0..48).find(|b| idx >> b & 1 == 1).unwrap_or(48) as usize;
                            if pos <= before.len() && before.iter().take(pos).all(|(os, oi)| derive(s, pos as u32, *oi) == *os) {
                                co.violations.push(Violation { kind: "c03-store-rejected-consistent".into(), desc: format!("provide({}) rejected although every lower slot derives from the offered secret", idx), at: i });
                            }
                            if store_items(&c) != before {
                                co.violations.push(Violation { kind: "c03-store-changed-on-reject".into(), desc: format!("rejected provide({}) changed the store", idx), at: i });
                            }
                            format!("err {}", digest(&st))
                        }
                        Ok((c, Ok(()))) => {
                            acc = true;
                            co.tags.insert("provide:ok".into());
                            // accepted ⇒ every lower slot is derivable from the new secret
                            let pos = (0..48).find(|b| idx >> b & 1 == 1).unwrap_or(48) as usize;
                            for (p, (os, oi)) in before.iter().enumerate().take(pos) {
                                if derive(s, pos as u32, *oi) != *os {
                                    co.violations.push(Violation { kind: "c03-store-accepted-inconsistent".into(), desc: format!("provide({}) accepted although slot {} (index {}) is not derivable from it", idx, p, oi), at: i });
                                }
                            }
                            let expect_next = ledger.last().map(|x| x.0.wrapping_sub(1)).unwrap_or(N48 - 1);
                            let changed = store_items(&c) != before;
                            // an index that was already accepted in the consecutive regime is only re-checked, never stored again
                            if changed && consecutive && ledger.iter().any(|(j, _)| *j == idx) {
                                co.violations.push(Violation { kind: "c03-store-overwritten".into(), desc: format!("a repeated provide({}) changed the store", idx), at: i });
                            }
                            if changed {
                                slots.insert(pos, (idx, s));
                            }
                            if idx == expect_next && consecutive {
                                ledger.push((idx, s));
                            } else if changed {
                                consecutive = false;
                                co.tags.insert("provide:out-of-order-accepted".into());
                            }
                            st = c;
                            if store_items(&st).len() > 49 {
                                co.violations.push(Violation { kind: "c03-store-size".into(), desc: "more than 49 entries".into(), at: i });
                            }
                            for (p, (j, sj)) in &slots {
                                let g = catch_unwind(AssertUnwindSafe(|| st.get_secret(*j))).ok().flatten();
                                if g != Some(*sj) {
                                    co.violations.push(Violation { kind: "c03-store-lost-secret".into(), desc: format!("after provide({}) get_secret({}) does not yield the secret stored at place {}", idx, j, p), at: i });
                                    break;
                                }
                            }
                            if consecutive {
                                for (j, sj) in &ledger {
                                    let g = catch_unwind(AssertUnwindSafe(|| st.get_secret(*j))).ok().flatten();
                                    if g != Some(*sj) {
                                        co.violations.push(Violation { kind: "c03-store-lost-secret".into(), desc: format!("after provide({}) get_secret({}) no longer yields the accepted secret", idx, j), at: i });
                                        break;
                                    }
                                }
                            }
                            format!("ok {}", digest(&st))
                        }
                    }
                }
                ["get", idx] => {
                    let idx: u64 = idx.parse().unwrap();
                    match catch_unwind(AssertUnwindSafe(|| st.get_secret(idx))) {
                        Err(_) => { co.tags.insert("get:panic".into()); "panic".into() }
                        Ok(None) => { co.tags.insert("get:none".into()); "none".into() }
                        Ok(Some(s)) => { co.tags.insert("get:some".into()); format!("some {}", hex::encode(s)) }
                    }
                }
                _ => "bad-op".to_string(),
            };
            co.out.push(line);
        }
        co.tags.insert(format!("slots:{}", store_items(&st).len() / 8 * 8));
        co.nontrivial = acc && rej;
        co
    }
}

pub fn groups() -> Vec<Box<dyn Group>> {
    vec![Box::new(super::c01::EnfGroup { prop: "C03", free: false }), Box::new(SecretsGroup), Box::new(super::c01::EnfGroup { prop: "C03", free: true })]
}
