//! C11 — the composite persister `BackupPersister<M, B>` (vls-persist/src/backup_persister.rs) against the Lean
//! model `backup` (`Model/Backup.lean`), and an independent monitor.
//!
//! The real composite over two `KVVPersister<MemoryKVVStore>` behind `Tap`s (write-failure injection per side, the
//! main side's `recovery_required` flag).  An entry = the allowlist entry of one of four node ids; its value = a
//! one-element allowlist.  Ops:
//!   w k v      update_node_allowlist(node k, [v])          r k      get_node_allowlist(node k)
//!   failm b    main store refuses writes (b = 0/1)         failb b  backup store refuses writes
//!   lose       the main store is lost: an empty one that reports recovery_required, a new composite
//!   rec b      the main store's recovery_required flag      restored on_initial_restore()
//!   restart    a new composite over the same two stores (its initial_restore_complete flag starts false)
//! Output per op: result, then both stores' entries and the derived readiness.
//! Monitor: an acknowledged write must be in the backup store, and in the main store too when the main store was
//! ready; a read through the composite returns what the last acknowledged write stored.
use crate::props::tap::Tap;
use crate::common::*;
use lightning_signer::persist::Persist;
use lightning_signer::util::test_utils::key::make_test_pubkey;
use std::panic::{catch_unwind, AssertUnwindSafe};
use std::sync::atomic::{AtomicBool, Ordering};
use std::sync::Arc;
use vls_persist::backup_persister::BackupPersister;
use vls_persist::kvv::memory::MemoryKVVStore;
use vls_persist::kvv::{JsonFormat, KVVPersister, KVVStore};

type P = KVVPersister<MemoryKVVStore, JsonFormat>;
const KEYS: u64 = 4;

fn entry(p: &P, k: u64) -> Option<u64> {
    let id = hex::encode(make_test_pubkey(10 + k as u8).serialize());
    for kvv in p.0.get_prefix("").unwrap() {
        let (key, (_ver, val)) = kvv.into_inner();
        if key.starts_with("node/allowlist") && key.ends_with(&id) && !val.is_empty() {
            let j: serde_json::Value = serde_json::from_slice(&val).ok()?;
            return j["allowlist"][0].as_str().and_then(|s| s.parse().ok());
        }
    }
    None
}

fn dump(p: &P) -> String {
    let v: Vec<String> = (0..KEYS).map(|k| entry(p, k).map(|x| x.to_string()).unwrap_or("-".into())).collect();
    format!("[{}]", v.join(","))
}

pub struct C11Backup;

impl Group for C11Backup {
    fn property(&self) -> &'static str { "C11" }
    fn model(&self) -> Option<&'static str> { Some("backup") }
    fn rule(&self) -> &'static str {
        "composite persister: random sequences (len 4-16) of writes and reads of four entries through the real \
         BackupPersister over two in-memory KVV stores, with write failures injected on either side, the main store lost \
         (recovery_required), on_initial_restore and process restarts; compared line by line with the Lean model `backup`; \
         monitor: acknowledged writes are in the backup (and in a ready main store), reads return the last acknowledged \
         write; non-trivial = at least one acknowledged write, one refused write and one read while the main store is not ready"
    }
    fn budget(&self, tier: Tier) -> usize { if tier == Tier::Quick { 300 } else { 5000 } }
    fn corpus(&self) -> Vec<Vec<String>> {
        let c = |s: &str| s.split('|').map(|x| x.to_string()).collect::<Vec<_>>();
        vec![
            c("w 0 5|r 0|failb 1|w 0 6|r 0|failb 0|w 1 7|lose|r 0|w 0 8|r 0|restored|r 0|w 0 9|r 0"),
            c("w 2 1|failm 1|w 2 2|r 2|failm 0|restart|r 2|rec 1|w 3 4|r 3|rec 0|r 3"),
        ]
    }
    fn gen_case(&self, rng: &mut Rng, _tier: Tier) -> Vec<String> {
        let mut ops = Vec::new();
        for _ in 0..rng.range(4, 16) {
            ops.push(match rng.below(16) {
                0..=5 => format!("w {} {}", rng.below(KEYS), rng.range(1, 99)),
                6..=8 => format!("r {}", rng.below(KEYS)),
                9 => format!("failm {}", rng.below(2)),
                10 => format!("failb {}", rng.below(2)),
                11 => "lose".to_string(),
                12 => format!("rec {}", rng.below(2)),
                13 | 14 => "restored".to_string(),
                _ => "restart".to_string(),
            });
        }
        ops
    }
    fn exec_case(&self, ops: &[String]) -> CaseOut {
        let mut co = CaseOut::default();
        let mut main: Arc<P> = Arc::new(KVVPersister(MemoryKVVStore::new([7u8; 16]), JsonFormat));
        let backup: Arc<P> = Arc::new(KVVPersister(MemoryKVVStore::new([7u8; 16]), JsonFormat));
        let (failm, failb, rec) = (Arc::new(AtomicBool::new(false)), Arc::new(AtomicBool::new(false)), Arc::new(AtomicBool::new(false)));
        let mk = |main: &Arc<P>, failm: &Arc<AtomicBool>, failb: &Arc<AtomicBool>, rec: &Arc<AtomicBool>| {
            let mut tm = Tap::with_fail(main.clone(), failm.clone());
            tm.recovery = rec.clone();
            BackupPersister::new(tm, Tap::with_fail(backup.clone(), failb.clone()))
        };
        let mut comp = mk(&main, &failm, &failb, &rec);
        let mut restored = false;
        // the monitor's own ledger: last acknowledged value per entry
        let mut acked: Vec<Option<u64>> = vec![None; KEYS as usize];
        let (mut s_ok, mut s_err, mut s_nr) = (false, false, false);
        let mut apart = false;
        for (i, op) in ops.iter().enumerate() {
            let t: Vec<&str> = op.split_whitespace().collect();
            let ready = !rec.load(Ordering::Relaxed) || restored;
            let res = match t.as_slice() {
                ["w", k, v] => {
                    let (k, v): (u64, u64) = (k.parse().unwrap_or(0) % KEYS, v.parse().unwrap_or(0));
                    match comp.update_node_allowlist(&make_test_pubkey(10 + k as u8), vec![v.to_string()]) {
                        Ok(()) => {
                            s_ok = true;
                            acked[k as usize] = Some(v);
                            if entry(&backup, k) != Some(v) {
                                co.violations.push(Violation { kind: "backup-misses-acknowledged-write".into(), desc: format!("{} acknowledged, backup store holds {:?}", op, entry(&backup, k)), at: i });
                            }
                            if ready && entry(&main, k) != Some(v) {
                                co.violations.push(Violation { kind: "main-misses-acknowledged-write".into(), desc: format!("{} acknowledged with a ready main store, which holds {:?}", op, entry(&main, k)), at: i });
                            }
                            "ok".to_string()
                        }
                        Err(_) => { s_err = true; "err".to_string() }
                    }
                }
                ["r", k] => {
                    let k: u64 = k.parse().unwrap_or(0) % KEYS;
                    if !ready { s_nr = true; }
                    let r = catch_unwind(AssertUnwindSafe(|| comp.get_node_allowlist(&make_test_pubkey(10 + k as u8))));
                    let got = match r { Ok(Ok(l)) => l.first().and_then(|s| s.parse::<u64>().ok()), _ => None };
                    // (the ledger is only comparable while the two stores were never driven apart: a write refused by the
                    // backup alone has reached the main store, and a main store that was lost or flagged for recovery is
                    // behind the backup until the node's start-up sync, which this group does not run)
                    if got != acked[k as usize] && !apart {
                        co.violations.push(Violation { kind: "read-differs-from-acknowledged".into(), desc: format!("{} returns {:?}, last acknowledged write stored {:?}", op, got, acked[k as usize]), at: i });
                    }
                    match got { Some(v) => format!("val {}", v), None => "none".to_string() }
                }
                ["failm", b] => { failm.store(*b == "1", Ordering::Relaxed); "ok".to_string() }
                ["failb", b] => { failb.store(*b == "1", Ordering::Relaxed); "ok".to_string() }
                ["rec", b] => { rec.store(*b == "1", Ordering::Relaxed); apart = true; "ok".to_string() }
                ["lose"] => {
                    main = Arc::new(KVVPersister(MemoryKVVStore::new([7u8; 16]), JsonFormat));
                    rec.store(true, Ordering::Relaxed);
                    restored = false;
                    comp = mk(&main, &failm, &failb, &rec);
                    co.tags.insert("main-lost".into());
                    apart = true;
                    "ok".to_string()
                }
                ["restored"] => { restored = true; let _ = comp.on_initial_restore(); "ok".to_string() }
                ["restart"] => { restored = false; comp = mk(&main, &failm, &failb, &rec); "ok".to_string() }
                _ => "bad-op".to_string(),
            };
            if res == "err" && !failm.load(Ordering::Relaxed) { co.tags.insert("write:backup-refused".into()); apart = true; }
            co.tags.insert(format!("{}:{}", t.first().copied().unwrap_or(""), res.split(' ').next().unwrap_or("")));
            let ready_after = !rec.load(Ordering::Relaxed) || restored;
            co.out.push(format!("{} m={} b={} ready={}", res, dump(&main), dump(&backup), ready_after));
        }
        co.nontrivial = s_ok && s_err && s_nr;
        co
    }
}
