//! C06 — approved invoices are never overpaid in flight across all channels of a node; an outgoing
//! HTLC with no invoice and no previously seen HTLC for its hash is refused unless covered by incoming
//! value for the same hash in the same update; restarts included.
//!
//! One real `Node` (real persister `KVVPersister<MemoryKVVStore>`, `ManualClock`, default testnet
//! policy) with 2–3 real channels.  Commitment updates go through the real
//! `sign_counterparty_commitment_tx_phase2`, `validate_holder_commitment_tx_phase2` (with real
//! counterparty signatures from `test_utils::counterparty_sign_holder_commitment`) and
//! `revoke_previous_holder_commitment`; counterparty revocations use real chained secrets
//! (`build_commitment_secret`).  Approvals through `add_keysend`, preimages through
//! `Channel::htlcs_fulfilled`, pruning through `get_heartbeat`, restarts through
//! `persister.get_nodes()` + `Node::restore_node`.
//!
//! Correspondence: every op line is also fed to the Lean model `payments`; compared are the result
//! class and, for the three hashes of the alphabet, the approved amount and the payment entry
//! (per-channel incoming/outgoing, cltv bounds, preimage flag) read from `node.get_state()`.
//!
//! Monitor (independent of the model): a ghost ledger of the ACCEPTED commitment contents per
//! channel; after every accepted commitment request the conservation inequality is evaluated for every
//! approved hash, and every accepted update is checked for unbacked outgoing value.
use crate::common::*;
use lightning_signer::bitcoin::hashes::sha256::Hash as Sha256Hash;
use lightning_signer::bitcoin::hashes::Hash;
use lightning_signer::bitcoin::secp256k1::{PublicKey, Secp256k1, SecretKey};
use lightning_signer::bitcoin::{Network, OutPoint, Txid};
use lightning_signer::lightning::ln::chan_utils::build_commitment_secret;
use lightning_signer::lightning::types::payment::{PaymentHash, PaymentPreimage};
use lightning_signer::node::{Node, NodeConfig, NodeServices};
use lightning_signer::persist::Persist;
use lightning_signer::policy::simple_validator::{make_default_simple_policy, SimpleValidatorFactory};
use lightning_signer::signer::derive::KeyDerivationStyle;
use lightning_signer::tx::tx::HTLCInfo2;
use lightning_signer::util::clock::ManualClock;
use lightning_signer::util::test_utils::key::make_test_pubkey;
use lightning_signer::util::test_utils::*;
use lightning_signer::util::velocity::{VelocityControlIntervalType, VelocityControlSpec};
use std::panic::{catch_unwind, AssertUnwindSafe};
use std::sync::Arc;
use std::time::Duration;
use vls_persist::kvv::memory::MemoryKVVStore;
use vls_persist::kvv::{JsonFormat, KVVPersister};
use vls_protocol_signer::approver::{Approve, NegativeApprover, PositiveApprover};
use lightning_signer::channel::{Channel, ChannelId};
use lightning_signer::lightning::sign::ChannelSigner;

const INITIAL_COMMITMENT_NUMBER: u64 = (1 << 48) - 1;
const CHANNEL_VALUE: u64 = 10_000_000;
const PUSH_MSAT: u64 = 4_000_000_000;
const FEE: u64 = 3_000;
const BASE_HOLDER: u64 = CHANNEL_VALUE - PUSH_MSAT / 1000 - FEE;
const BASE_CP: u64 = PUSH_MSAT / 1000;
const FEERATE: u32 = 253; // HTLC dust limit at this feerate: 330 + 253*703/1000 = 507 sat
const NHASH: usize = 3;
const T0: u64 = 1_600_000_000;

/// (hash index, value_sat, cltv_expiry)
type H = (usize, u64, u32);
type View = (Vec<H>, Vec<H>); // (offered, received) as passed to the request

fn preimage(i: usize) -> PaymentPreimage {
    PaymentPreimage([i as u8 + 1; 32])
}
fn phash(i: usize) -> PaymentHash {
    PaymentHash(Sha256Hash::hash(&preimage(i).0).to_byte_array())
}
fn to_info(v: &[H]) -> Vec<HTLCInfo2> {
    v.iter().map(|(h, val, cltv)| HTLCInfo2 { value_sat: *val, payment_hash: phash(*h % NHASH), cltv_expiry: *cltv }).collect()
}
fn fmt_list(v: &[H]) -> String {
    if v.is_empty() {
        "-".into()
    } else {
        v.iter().map(|(h, val, c)| format!("{}:{}:{}", h, val, c)).collect::<Vec<_>>().join(",")
    }
}
fn parse_list(s: &str) -> Option<Vec<H>> {
    if s == "-" {
        return Some(vec![]);
    }
    s.split(',')
        .map(|x| {
            let p: Vec<&str> = x.split(':').collect();
            if p.len() != 3 {
                return None;
            }
            Some((p[0].parse().ok()?, p[1].parse().ok()?, p[2].parse().ok()?))
        })
        .collect()
}
fn sum_for(v: &[H], h: usize) -> u128 {
    v.iter().filter(|x| x.0 == h).map(|x| x.1 as u128).sum()
}
fn total(v: &[H]) -> u64 {
    v.iter().fold(0u64, |a, x| a.saturating_add(x.1))
}

struct Chan {
    ctx: TestChannelContext,
    cp_seed: [u8; 32],
    holder_next: u64,
    cp_next: u64,
    cp_revoke_next: u64,
    // ghost ledger: contents of the accepted commitments
    g_hcur: View,
    g_hnext: Option<View>,
    g_ccur: View,
}

impl Chan {
    /// outgoing / incoming value of the ghost ledger for hash `h` with explicit views
    fn out_in(hv: &View, cv: &View, h: usize) -> (u128, u128) {
        // holder: offered = outgoing, received = incoming; counterparty: received = outgoing, offered = incoming
        let out = sum_for(&hv.0, h).max(sum_for(&cv.1, h));
        let inc = sum_for(&hv.1, h).min(sum_for(&cv.0, h));
        (out, inc)
    }
}

struct World {
    persister: Arc<dyn Persist>,
    clock: Arc<ManualClock>,
    seed: [u8; 32],
    ctx: TestNodeContext,
    chans: Vec<Chan>,
    max_fee: u64,
    vspec: VelocityControlSpec,
    /// hashes approved while the ghost ledger already had outgoing value for them
    tainted: [bool; NHASH],
    // ---- the harness's own book of approvals: fed only by the ANSWERS of add_invoice/add_keysend ----
    /// (amount_msat, prune deadline in seconds) of the approval in force for the hash
    approved: [Option<(u64, u64)>; NHASH],
    /// the hash got an Ok(true) answer at some point of the case
    approved_ever: [bool; NHASH],
    /// the hash appeared in the contents of an accepted commitment request at some point of the case
    seen_ever: [bool; NHASH],
    /// a preimage for the hash was handed over (sticky until the approval lapses: the book may let an approval
    /// lapse earlier than the node prunes it, never later, so it never demands more than the node promised)
    fulfilled: [bool; NHASH],
    /// the last approval answer for the hash was Ok(false)
    declined: [bool; NHASH],
}

/// `init … m<k>`: the world runs with `policy.max_invoices = k`
fn max_invoices_of(t: &[&str]) -> Option<usize> {
    t.last().and_then(|x| x.strip_prefix('m')).and_then(|x| x.parse().ok())
}
thread_local! { static MAX_INVOICES: std::cell::Cell<Option<usize>> = std::cell::Cell::new(None); }

fn services(persister: Arc<dyn Persist>, clock: Arc<ManualClock>, vspec: VelocityControlSpec) -> NodeServices {
    let mut policy = make_default_simple_policy(Network::Testnet);
    policy.global_velocity_control = vspec;
    if let Some(m) = MAX_INVOICES.with(|c| c.get()) {
        policy.max_invoices = m;
    }
    NodeServices {
        validator_factory: Arc::new(SimpleValidatorFactory::new_with_policy(policy)),
        starting_time_factory: make_genesis_starting_time_factory(Network::Testnet),
        persister,
        clock,
        trusted_oracle_pubkeys: vec![],
    }
}

fn node_config() -> NodeConfig {
    NodeConfig {
        network: Network::Testnet,
        key_derivation_style: KeyDerivationStyle::Native,
        use_checkpoints: true,
        allow_deep_reorgs: true,
    }
}

fn cp_secret(seed: &[u8; 32], n: u64) -> SecretKey {
    SecretKey::from_slice(&build_commitment_secret(seed, INITIAL_COMMITMENT_NUMBER - n)).unwrap()
}
fn cp_point(seed: &[u8; 32], n: u64) -> PublicKey {
    PublicKey::from_secret_key(&Secp256k1::new(), &cp_secret(seed, n))
}

impl World {
    fn new(nch: usize, vspec: VelocityControlSpec) -> World {
        let persister: Arc<dyn Persist> = Arc::new(KVVPersister(MemoryKVVStore::new([6u8; 16]), JsonFormat));
        let clock = Arc::new(ManualClock::new(Duration::from_secs(T0)));
        let seed = [0x6cu8; 32];
        let config = node_config();
        let node = Arc::new(Node::new(config, &seed, vec![], services(persister.clone(), clock.clone(), vspec)));
        persister.new_node(&node.get_id(), &config, &*node.get_state()).unwrap();
        persister.new_tracker(&node.get_id(), &node.get_tracker()).unwrap();
        node.add_allowlist(&[]).unwrap();
        let ctx = TestNodeContext { node, secp_ctx: Secp256k1::signing_only() };
        let max_fee = make_default_simple_policy(Network::Testnet).max_routing_fee_msat;
        let mut w = World {
            persister,
            clock,
            seed,
            ctx,
            chans: vec![],
            max_fee,
            vspec,
            tainted: [false; NHASH],
            approved: [None; NHASH],
            approved_ever: [false; NHASH],
            seen_ever: [false; NHASH],
            fulfilled: [false; NHASH],
            declined: [false; NHASH],
        };
        for i in 0..nch {
            w.open(i);
        }
        w
    }

    fn open(&mut self, i: usize) {
        let mut chan_ctx = test_chan_ctx_with_push_val(&self.ctx, i + 1, CHANNEL_VALUE, PUSH_MSAT);
        chan_ctx.setup.funding_outpoint =
            OutPoint { txid: Txid::from_slice(&[0xa0 + i as u8; 32]).unwrap(), vout: 0 };
        self.ctx
            .node
            // every second channel gets a permanent id different from its initial id (the ledger is keyed by id0)
            .setup_channel(
                chan_ctx.channel_id.clone(),
                if i % 2 == 1 { Some(ChannelId::new(&[0xc0 + i as u8; 32])) } else { None },
                chan_ctx.setup.clone(),
                &Default::default(),
            )
            .expect("setup_channel");
        let mut c0 = channel_commitment(&self.ctx, &chan_ctx, 0, FEERATE, BASE_HOLDER, BASE_CP, vec![], vec![]);
        let (csig, hsigs) = counterparty_sign_holder_commitment(&self.ctx, &chan_ctx, &mut c0);
        validate_holder_commitment(&self.ctx, &chan_ctx, &c0, &csig, &hsigs).expect("holder commitment 0");
        let cp_seed = [0x30 + i as u8; 32];
        let p0 = cp_point(&cp_seed, 0);
        self.ctx
            .node
            .with_channel(&chan_ctx.channel_id, |chan| {
                chan.sign_counterparty_commitment_tx_phase2(&p0, 0, FEERATE, BASE_HOLDER, BASE_CP, vec![], vec![])
            })
            .expect("counterparty commitment 0");
        self.chans.push(Chan {
            ctx: chan_ctx,
            cp_seed,
            holder_next: 1,
            cp_next: 1,
            cp_revoke_next: 0,
            g_hcur: (vec![], vec![]),
            g_hnext: None,
            g_ccur: (vec![], vec![]),
        });
    }

    fn digest(&self) -> String {
        let st = self.ctx.node.get_state();
        let mut parts = Vec::new();
        for h in 0..NHASH {
            let ph = phash(h);
            let mut inv = st.invoices.get(&ph).map(|i| i.amount_msat.to_string()).unwrap_or_else(|| "-".into());
            if let Some(i) = st.issued_invoices.get(&ph) {
                inv = format!("{}+i{}", inv, i.amount_msat);
            }
            let pay = match st.payments.get(&ph) {
                None => "-".to_string(),
                Some(p) => {
                    let per: Vec<String> = self
                        .chans
                        .iter()
                        .map(|c| {
                            format!(
                                "{}/{}",
                                p.incoming.get(&c.ctx.channel_id).copied().unwrap_or(0),
                                p.outgoing.get(&c.ctx.channel_id).copied().unwrap_or(0)
                            )
                        })
                        .collect();
                    let o = |x: Option<u32>| x.map(|v| v.to_string()).unwrap_or_else(|| "-".into());
                    format!(
                        "{}:{}:{}:{}",
                        per.join(","),
                        o(p.incoming_cltv_min),
                        o(p.outgoing_cltv_max),
                        if p.preimage.is_some() { 1 } else { 0 }
                    )
                }
            };
            parts.push(format!("{} {}", inv, pay));
        }
        format!("v={} {}", st.velocity_control.velocity(), parts.join(" | "))
    }

    /// (hash approved, hash seen) according to the harness's own book (answers and accepted contents only)
    fn seen(&self, h: usize) -> (bool, bool) {
        (self.approved_ever[h], self.seen_ever[h])
    }

    fn note_seen(&mut self, v: &View) {
        for x in v.0.iter().chain(v.1.iter()) {
            self.seen_ever[x.0 % NHASH] = true;
        }
    }

    /// what an approval answer means for the harness's book
    fn note_answer(&mut self, h: usize, answer: Option<bool>, amt: u64, deadline: u64, co: &mut CaseOut) {
        match answer {
            Some(true) => {
                self.approved_ever[h] = true;
                self.declined[h] = false;
                if self.approved[h].is_none() {
                    self.approved[h] = Some((amt, deadline));
                    self.tainted[h] = self.ledger_totals(h).0 > 0;
                    if self.tainted[h] {
                        co.tags.insert("approved-while-outgoing-in-flight".into());
                    }
                }
            }
            Some(false) => {
                if self.approved[h].is_none() {
                    self.declined[h] = true;
                    co.tags.insert("approval-declined-by-velocity".into());
                }
            }
            None => {}
        }
    }

    /// the pruning rule as the property's time model: an approval lapses at a heartbeat after its deadline
    /// once the payment is complete (preimage seen, or nothing outgoing in flight any more)
    fn lapse_approvals(&mut self, now: u64) {
        for h in 0..NHASH {
            if let Some((_, deadline)) = self.approved[h] {
                if now > deadline && (self.fulfilled[h] || self.ledger_totals(h).0 == 0) {
                    self.approved[h] = None;
                    self.fulfilled[h] = false;
                    self.tainted[h] = false;
                }
            }
        }
    }

    fn ledger_totals(&self, h: usize) -> (u128, u128) {
        let (mut out, mut inc) = (0u128, 0u128);
        for c in &self.chans {
            let (o, i) = Chan::out_in(&c.g_hcur, &c.g_ccur, h);
            out += o;
            inc += i;
        }
        (out, inc)
    }

    /// conservation inequality on the ghost ledger for every approved hash
    fn check_conservation(&self, at: usize, co: &mut CaseOut) {
        // approved = the harness got Ok(true) for the hash (and the approval has not lapsed); never node state
        let approved: Vec<(usize, u64)> = (0..NHASH).filter_map(|h| self.approved[h].map(|(a, _)| (h, a))).collect();
        for (h, amt) in approved {
            let (out, inc) = self.ledger_totals(h);
            if out * 1000 > inc * 1000 + amt as u128 + self.max_fee as u128 {
                let kind = if self.tainted[h] { "approved-over-inflight-overpaid" } else { "invoice-overpaid-in-flight" };
                co.tags.insert(format!("monitor:{}", kind));
                co.violations.push(Violation {
                    kind: kind.into(),
                    desc: format!(
                        "hash {}: {} sat outgoing in flight over all channels vs {} sat incoming + approved {} msat + fee allowance {} msat",
                        h, out, inc, amt, self.max_fee
                    ),
                    at,
                });
            }
        }
    }

    /// an accepted update on channel `c` with effective views (hv, cv): unbacked outgoing value?
    fn check_unbacked(&self, at: usize, pre_seen: &[(bool, bool)], hv: &View, cv: &View, co: &mut CaseOut) {
        for h in 0..NHASH {
            let (inv, pay) = pre_seen[h];
            if inv || pay {
                continue;
            }
            let (out, inc) = Chan::out_in(hv, cv, h);
            if out > inc {
                // the sharper kind: the only thing the signer ever answered about this hash was a refusal
                let kind = if self.declined[h] { "refused-approval-backs-htlc" } else { "unbacked-outgoing-accepted" };
                co.tags.insert(format!("monitor:{}", kind));
                co.violations.push(Violation {
                    kind: kind.into(),
                    desc: format!(
                        "hash {} (never approved{}, never seen in an accepted commitment): update accepted with {} sat outgoing vs {} sat incoming on the channel",
                        h, if self.declined[h] { "; its approval was answered Ok(false)" } else { "" }, out, inc
                    ),
                    at,
                });
            }
        }
    }
}

/// `init <nch> [<limit_msat> h|d]`: the node-wide velocity limit of the world (default: unlimited)
fn vspec_of(t: &[&str]) -> VelocityControlSpec {
    match (t.get(2).and_then(|x| x.parse::<u64>().ok()), t.get(3)) {
        (Some(l), Some(&"h")) => VelocityControlSpec { limit_msat: l, interval_type: VelocityControlIntervalType::Hourly },
        (Some(l), Some(&"d")) => VelocityControlSpec { limit_msat: l, interval_type: VelocityControlIntervalType::Daily },
        _ => VelocityControlSpec::UNLIMITED,
    }
}

const KEYSEND_EXPIRY: u64 = 60; // payment_state_from_keysend; KEYSEND_PRUNE_TIME = 0
const INVOICE_PRUNE_TIME: u64 = 86_400;

fn status_tag(msg: &str) -> String {
    // "policy failure: <function>: ..." -> the function that refused
    let m = msg.strip_prefix("policy failure: ").unwrap_or(msg);
    let f: String = m.chars().take_while(|c| c.is_ascii_alphanumeric() || *c == '_').collect();
    if m.contains("retry") {
        "retry-same".into()
    } else if m.contains("initial commitment") {
        "initial-commitment".into()
    } else if f.is_empty() {
        "other".into()
    } else {
        f
    }
}

pub struct C06Node;

fn split(s: &str) -> Vec<String> {
    s.split('|').map(|x| x.trim().to_string()).collect()
}

impl C06Node {
    /// `plain`: only the standard cltv values (no cltv-delta refusals).  Used in cases that contain a
    /// u64-extreme approval: `validate_payments` returns the cltv refusal of one hash early (`?`) while
    /// the overflow panic of another hash happens in the same loop over an unordered set, so the result
    /// class of such an update depends on the set's iteration order.
    fn random_htlc(rng: &mut Rng, outgoing: bool, plain: bool) -> H {
        if plain {
            let (h, v, _) = Self::random_htlc(rng, outgoing, false);
            return (h, v, if outgoing { 500 } else { 600 });
        }
        let h = rng.below(NHASH as u64) as usize;
        let mut v = *rng.pick(&[600u64, 2000, 2200, 2220, 50_000, 50_222, 50_223, 100_000, 100_222, 100_223, 200_000]);
        // now and then a small part at or below the trim thresholds of the commitment (497 sat for offered, 507 sat for
        // received HTLCs at FEERATE): the node must not LIST such an HTLC (policy-commitment-outputs-trimmed); a payment
        // split into many such parts would otherwise escape the in-flight accounting
        if rng.chance(1, 14) {
            v = *rng.pick(&[1u64, 100, 330, 400, 496, 497, 498, 506, 507, 508]);
        }
        // cltv values: the standard pair 500 / 600, inverted and too-close pairs, and the cltv_delta of the policy in use
        // exactly, one less and one more above the standard outgoing value
        let cd = make_default_simple_policy(Network::Testnet).cltv_delta;
        let cltv = if outgoing {
            *rng.pick(&[500u32, 500, 500, 515, 610])
        } else {
            *rng.pick(&[600u32, 600, 600, 600, 600, 520, 500 + cd, 500 + cd - 1, 500 + cd + 1])
        };
        (h, v, cltv)
    }
    /// mutate a view given as (outgoing, incoming) lists
    fn mutate(rng: &mut Rng, out: &mut Vec<H>, inc: &mut Vec<H>, mirror: (&Vec<H>, &Vec<H>), plain: bool) {
        match rng.below(100) {
            0..=34 => {
                *out = mirror.0.clone();
                *inc = mirror.1.clone();
            }
            35..=74 => {
                if rng.chance(3, 5) {
                    if out.len() < 4 {
                        out.push(Self::random_htlc(rng, true, plain));
                    }
                } else if inc.len() < 4 {
                    inc.push(Self::random_htlc(rng, false, plain));
                }
            }
            75..=93 => {
                if rng.chance(1, 2) && !out.is_empty() {
                    let k = rng.below(out.len() as u64) as usize;
                    out.remove(k);
                } else if !inc.is_empty() {
                    let k = rng.below(inc.len() as u64) as usize;
                    inc.remove(k);
                } else if !out.is_empty() {
                    out.remove(0);
                }
            }
            _ => {
                out.clear();
                inc.clear();
            }
        }
    }
}

/// generator-side picture of a channel, assuming every request is accepted
#[derive(Clone, Default)]
struct Sim {
    cp_out: Vec<H>,
    cp_inc: Vec<H>,
    h_out: Vec<H>,
    h_inc: Vec<H>,
}
impl Sim {
    fn cpsign(&self, c: usize, kind: &str) -> String {
        // counterparty tx: offered = incoming for us, received = outgoing
        format!("cpsign {} {} {} {}", c, kind, fmt_list(&self.cp_inc), fmt_list(&self.cp_out))
    }
    fn hval(&self, c: usize, kind: &str) -> String {
        format!("hval {} {} {} {}", c, kind, fmt_list(&self.h_out), fmt_list(&self.h_inc))
    }
}

impl Group for C06Node {
    fn property(&self) -> &'static str {
        "C06"
    }
    fn model(&self) -> Option<&'static str> {
        Some("payments")
    }
    fn rule(&self) -> &'static str {
        "one real Node with 2-3 channels; payment hashes from an alphabet of 3; HTLC values around the approved amounts \
         (amount, amount+fee allowance, +1 sat, 10%/11% fee) and cltv values around the cltv_delta bound; random interleavings of \
         (phase-2 and, for a third of the requests, phase-1) counterparty-commitment signing, holder-commitment validation and revocation per channel with diverging holder/counterparty \
         views, multi-part splits over channels, add/remove, retries, approvals through the approver of vls-protocol-signer (handle_proposed_keysend / handle_proposed_invoice, PositiveApprover and now and then NegativeApprover) into add_keysend and add_invoice (real signed BOLT-11; duplicates, different invoice for the same hash, u64 extremes, approvals recorded as zero: amountless invoices and 0-msat keysends, followed by HTLCs of every size for the hash), \
         a third of the worlds under a finite hourly node-wide velocity limit (refused approvals followed by HTLCs for the hash and by retried approvals), \
         invoices ISSUED by the node itself (sign_bolt11_invoice) followed by a node-state write, a restart and an unbacked HTLC for the hash, \
         preimages, heartbeat pruning under a manual clock, restarts through the real persister; a case is non-trivial when it \
         contains an accepted commitment request carrying HTLCs and a refused commitment request"
    }
    fn budget(&self, tier: Tier) -> usize {
        if tier == Tier::Quick {
            1500
        } else {
            25000
        }
    }
    fn model_line(&self, op: &str) -> Option<String> {
        let t: Vec<&str> = op.split_whitespace().collect();
        match t.as_slice() {
            ["init", nch, rest @ ..] => {
                // the policy numbers are read from the crate the harness is linked against
                let p = make_default_simple_policy(Network::Testnet);
                let (vl, vt) = match rest {
                    [l, ty, ..] if *ty == "h" || *ty == "d" => (l.to_string(), ty.to_string()),
                    _ => ("0".to_string(), "u".to_string()),
                };
                let mi = max_invoices_of(&t).unwrap_or(p.max_invoices);
                // the commitment feerate of the harness and the HTLC-transaction weights of the linked LDK for the
                // channel type in use: the model computes the trim thresholds from them and the MIN_DUST_LIMIT_SATOSHIS
                // constant the translator reads from the source
                let features = lightning_signer::util::test_utils::make_test_channel_setup().features();
                let wt = lightning_signer::lightning::ln::chan_utils::htlc_timeout_tx_weight(&features);
                let ws = lightning_signer::lightning::ln::chan_utils::htlc_success_tx_weight(&features);
                Some(format!(
                    "init {} {} {} {} {} {} {} {} {} {}",
                    nch, p.max_routing_fee_msat, p.max_feerate_percentage, p.cltv_delta, vl, vt, FEERATE, wt, ws, mi
                ))
            }
            ["cpsign", a, b, c, d, "p1"] => Some(format!("cpsign {} {} {} {}", a, b, c, d)),
            ["hval", a, b, c, d, "p1"] => Some(format!("hval {} {} {} {}", a, b, c, d)),
            _ => Some(op.to_string()),
        }
    }
    fn corpus(&self) -> Vec<Vec<String>> {
        let t = T0;
        vec![
            // F2 witness: validate on A, sign on B, revoke on A  => must be refused at the revoke
            split(&format!("init 2|keysend 0 100000000 {t}|hval 0 new 0:100000:500 -|cpsign 1 new - 0:100000:500|revoke 0|cpsign 0 new - -|restart|revoke 0")),
            // mirror image: sign on B first, then validate on A is refused already
            split(&format!("init 2|keysend 0 100000000 {t}|cpsign 1 new - 0:100000:500|hval 0 new 0:100000:500 -|revoke 0")),
            // multi-part split over three channels up to amount + fee allowance, one sat more refused
            split(&format!("init 3|keysend 1 100000000 {t}|cpsign 0 new - 1:50000:500|cpsign 1 new - 1:50000:500|cpsign 1 new - 1:50000:500|cpsign 2 new - 1:1223:500|cprevoke 1|cpsign 1 new - 1:49000:500|cpsign 2 new - 1:1223:500|cpsign 2 new - 1:1222:500|hval 0 new 1:50000:500 -|revoke 0|restart|cpsign 2 retry - 1:1222:500|cprevoke 2|cpsign 2 new - 1:1222:500,1:600:500|cpsign 2 new - 1:600:500")),
            // unbacked outgoing refused; backed by incoming in the same update accepted (holder+cp views)
            split("init 2|cpsign 0 new - 2:2000:500|hval 0 new 2:2000:500 -|cpsign 0 new 2:2000:600 2:2000:500|hval 0 new 2:2000:500 2:2000:600|hval 0 new - 2:2000:600|revoke 0|cpsign 0 new 2:2000:600 2:2001:500|cpsign 0 new 2:2000:600 2:2000:500|cpsign 0 retry 2:2000:600 2:2000:500|hval 0 new 2:2000:500 2:2000:600|revoke 0"),
            // routed payment A -> B, incoming removed first (issue 331 tolerance), then an approval for the same hash
            split(&format!("init 3|hval 0 new - 0:100000:600|revoke 0|cpsign 0 new 0:100000:600 -|cpsign 1 new - 0:100000:500|hval 0 new - -|revoke 0|keysend 0 1000 {t}|cpsign 2 new - -|cpsign 1 retry - 0:100000:500")),
            // fulfilled keysend pruned while still in flight, approved again, paid again on another channel
            split(&format!("init 2|keysend 0 100000000 {t}|cpsign 0 new - 0:100000:500|fulfill 0 0|heartbeat {}|keysend 0 100000000 {}|cpsign 1 new - 0:100000:500|restart|cpsign 1 retry - 0:100000:500", t + 61, t + 61)),
            // restart with an approved keysend that has no HTLC yet, then heartbeat (prune_invoices expects a payments entry)
            split(&format!("init 2|keysend 2 5000000 {t}|restart|cpsign 0 new - 2:2000:500|heartbeat {}|keysend 1 7 {t}|restart|heartbeat {}", t + 10, t + 20)),
            // fee percentage edge: 2000 sat approved, 10% ok, 11% refused; cltv delta edge
            split(&format!("init 2|keysend 0 2000000 {t}|cpsign 0 new - 0:2200:500|cprevoke 0|cpsign 0 new - 0:2220:500|hval 1 new - 1:50000:520|revoke 1|cpsign 1 new 1:50000:520 1:50000:515|cprevoke 1|cpsign 1 new 1:50000:520 -|cpsign 1 new - -")),
            // finite node-wide velocity limit: an over-limit approval answers Ok(false) and must back nothing —
            // the outgoing HTLC for its hash is refused on both kinds of commitment, a retried approval is refused
            // again; a smaller approval that fits is accepted; the count survives a restart; an hour later it fits
            split(&format!(
                "init 2 150000000 h|invoice 0 100000000 {t} 3600 0|invoice 1 100000000 {t} 3600 0|cpsign 0 new - 1:100000:500|invoice 1 100000000 {t} 3600 0|keysend 1 100000000 {t}|hval 0 new 1:100000:500 -|keysend 1 50000000 {t}|cpsign 0 new - 1:50222:500|restart|keysend 2 1000 {}|cpsign 1 new - 2:600:500|keysend 2 1000 {}|cpsign 1 new - 2:600:500",
                t + 10, t + 4000)),
            // BOLT-11 approvals: identical repeat = Ok(true), a different invoice or a keysend for the same hash = Err;
            // pruning a day after expiry
            split(&format!(
                "init 2|invoice 0 100000000 {t} 3600 0|invoice 0 100000000 {t} 3600 0|invoice 0 100000000 {t} 3600 1|keysend 0 100000000 {t}|cpsign 0 new - 0:100222:500|fulfill 0 0|cprevoke 0|cpsign 0 new - -|heartbeat {}|heartbeat {}|cpsign 1 new - 0:600:500",
                t + 90_000, t + 90_001)),
            // the approver says no: nothing is registered, the HTLC is refused; a yes afterwards is a fresh approval
            split(&format!("init 2|keysend 0 100000000 {t} neg|cpsign 0 new - 0:100000:500|invoice 1 50000000 {t} 3600 0 neg|hval 1 new 1:50000:500 - p1|keysend 0 100000000 {t}|keysend 0 100000000 {t} neg|keysend 0 5 {t} neg|cpsign 0 new - 0:100000:500 p1")),
            // F2 shape and the multi-part limit through the phase-1 entry points, second channel with a permanent id, restart
            split(&format!("init 2|keysend 0 100000000 {t}|hval 0 new 0:100000:500 - p1|cpsign 1 new - 0:100000:500 p1|revoke 0|cprevoke 1|cpsign 1 new - 0:50000:500 p1|revoke 0|hval 0 new 0:50222:500 - p1|revoke 0|restart|cprevoke 1|cpsign 1 new - 0:50001:500 p1|cpsign 1 new - 0:50000:500,0:600:500 p1")),
            // diverging INCOMING views for an approved hash: only the smaller one (min of the views) may back outgoing value
            split(&format!("init 2|keysend 0 100000000 {t}|hval 0 new - 0:600:600|revoke 0|cpsign 0 new 0:100000:600 0:200000:500|cpsign 0 new 0:100000:600 0:100822:500|cpsign 0 new 0:100000:600 0:100823:500 p1|hval 1 new - 0:100000:600 p1|revoke 1|cpsign 1 new 0:600:600 0:100000:500")),
            // a preimage for a routed (uninvoiced) payment is persisted with the next node-state write and survives a restart
            split(&format!("init 2|hval 0 new - 0:2000:600|revoke 0|cpsign 0 new 0:2000:600 -|fulfill 0 0|keysend 1 1000 {t}|restart|cpsign 1 new - 0:2000:500|heartbeat {}|restart", t + 5)),
            // routed payment whose incoming part is gone (issue-331 tolerance): the entry must survive the heartbeat while
            // value is still outgoing, and a restart; once nothing is in flight the heartbeat drops it and the hash is unseen again
            split(&format!("init 3|hval 0 new - 1:50000:600|revoke 0|cpsign 0 new 1:50000:600 -|cpsign 1 new - 1:50000:500|cprevoke 0|cpsign 0 new - -|heartbeat {}|cpsign 2 new - 1:600:500|restart|heartbeat {}|cprevoke 2|cpsign 2 new - 1:600:500,1:700:500|cprevoke 1|cpsign 1 new - -|cprevoke 2|cpsign 2 new - -|hval 0 new - -|revoke 0|heartbeat {}|cprevoke 2|cpsign 2 new - 1:600:500", t + 1, t + 2, t + 3)),
            // add_invoice / add_keysend called directly (no approver shortcut in front): repeat, different invoice, keysend over invoice
            split(&format!("init 2|invoice 0 100000000 {t} 3600 0 direct|invoice 0 100000000 {t} 3600 0 direct|invoice 0 100000000 {t} 3600 1 direct|keysend 0 100000000 {t} direct|keysend 1 5000000 {t} direct|keysend 1 7000000 {t} direct|invoice 1 5000000 {t} 3600 0 direct|cpsign 0 new - 1:5222:500|cpsign 1 new - 1:600:500")),
            // an unfulfilled keysend past its prune time stays approved while its HTLC is in flight: the repeat is a repeat,
            // a second payment on another channel is refused; after the HTLC left, the heartbeat prunes it
            split(&format!("init 2|keysend 0 100000000 {t}|cpsign 0 new - 0:100000:500|heartbeat {}|keysend 0 100000000 {}|cpsign 1 new - 0:100000:500|restart|heartbeat {}|cpsign 1 new - 0:100000:500 p1|cprevoke 0|cpsign 0 new - -|heartbeat {}|cpsign 1 new - 0:600:500", t + 61, t + 61, t + 62, t + 63)),
            // an invoice the node ISSUED backs nothing: the outgoing HTLC for its hash is refused before the restart, after the
            // node state was written and the node restarted, on both kinds of commitment and entry point; the issued invoice
            // is persisted with the next node-state write, pruned a day after its expiry, a different one for the hash is an error
            split(&format!("init 2|issue 2 50000000 {t} 3600 0|cpsign 0 new - 2:10000:500|issue 2 50000000 {t} 3600 0|issue 2 60000000 {t} 3600 1|issue 1 0 {t} 3600 0|restart|issue 2 50000000 {t} 3600 0|keysend 0 1000 {t}|restart|cpsign 0 new - 2:10000:500|hval 1 new 2:10000:500 - p1|cpsign 1 new - 2:10000:500 p1|hval 0 new - 2:10000:600|revoke 0|cpsign 0 new 2:10000:600 2:10000:500|heartbeat {}|restart|heartbeat {}|restart|cprevoke 0|cpsign 0 new - -|hval 0 new - -|revoke 0|heartbeat {}|cpsign 1 new - 2:10000:500", t + 90_000, t + 90_001, t + 90_002)),
            // approvals recorded as zero: an amountless BOLT-11 invoice (through the approver and directly) and a keysend of
            // 0 msat back no HTLC of any size, on one or several channels; covered by incoming value they are forwards
            split(&format!("init 3|invoice 0 0 {t} 3600 0|cpsign 0 new - 0:100000:500|cpsign 1 new - 0:600:500 p1|hval 2 new 0:2000:500 -|keysend 1 0 {t}|cpsign 0 new - 1:600:500|hval 1 new 1:100000:500 - p1|invoice 2 0 {t} 3600 1 direct|cpsign 2 new - 2:200000:500|restart|cpsign 2 new - 2:200000:500|cpsign 0 new - 0:600:500|hval 0 new - 0:2000:600|revoke 0|cpsign 0 new 0:2000:600 0:2000:500|cprevoke 0|cpsign 0 new 0:2000:600 0:2223:500|invoice 0 0 {t} 3600 0|invoice 0 5000 {t} 3600 0")),
            // small parts around the trim thresholds (offered: 497 sat, received: 507 sat at the harness feerate): listed
            // below the threshold = refused on every entry point, whatever the hash; at the threshold they count in full
            split(&format!("init 2|keysend 0 1000 {t}|cpsign 0 new - 0:400:500 p1|cpsign 0 new - 0:506:500|cpsign 0 new - 2:100:500 p1|cpsign 0 new 0:496:600 - p1|cpsign 0 new 0:497:600 -|hval 1 new 0:496:500 - p1|hval 1 new - 0:506:600|hval 1 new 0:1:500 -|hval 1 new 0:497:500 -|hval 1 new - 0:507:600 p1|cpsign 1 new - 0:507:500 p1|keysend 1 2000000 {t}|cpsign 1 new - 1:507:500,1:507:500,1:507:500,1:507:500 p1|cprevoke 1|cpsign 1 new - 1:507:500,1:507:500,1:507:500,1:507:500,1:400:500 p1|cpsign 1 new - 1:507:500,1:507:500,1:507:500,1:507:500,1:507:500")),
            // allowlisted payee: its invoice is added although the approver says no (and then bounds the payment like any
            // approval); a keysend to it still needs the approver; the allowlist survives a restart
            split(&format!("init 2|invoice 0 50000000 {t} 3600 0 neg|cpsign 0 new - 0:50000:500|allowpayee|keysend 1 50000000 {t} neg|cpsign 0 new - 1:50000:500|invoice 0 50000000 {t} 3600 0 neg|cpsign 0 new - 0:50000:500|cpsign 1 new - 0:600:500|restart|invoice 2 2000000 {t} 3600 1 neg|cpsign 1 new - 2:2200:500|cprevoke 1|cpsign 1 new - 2:2221:500")),
            // room for two invoices: the third hash is refused (nothing registered, its HTLC refused), through the approver a
            // repeat of an existing one is still answered, directly even the repeat is refused; after the prune there is room
            // issued-invoice table limit (sign_bolt11_invoice): second issue and a repeat of the first refused under m1,
            // room again after the prune, restart in between (round 9)
            split(&format!("init 2 m1|issue 1 2000000 {t} 3600 0|issue 2 2000000 {t} 3600 1|issue 1 2000000 {t} 3600 0|keysend 0 1000 {t}|restart|issue 2 2000000 {t} 3600 1|heartbeat {}|issue 2 2000000 {} 3600 1|cpsign 0 new - 2:10000:500", t + 3600 + 86400 + 61, t + 3600 + 86400 + 61)),
            split(&format!("init 2 m2|keysend 0 50000000 {t}|invoice 1 50000000 {t} 3600 0|keysend 2 50000000 {t}|cpsign 0 new - 2:50000:500|keysend 0 50000000 {t}|keysend 0 50000000 {t} direct|invoice 1 50000000 {t} 3600 0 direct|invoice 1 50000000 {t} 3600 1|keysend 2 1000 {t} neg|heartbeat {}|keysend 2 50000000 {}|cpsign 0 new - 2:50000:500|restart|keysend 1 1000 {} direct", t + 61, t + 61, t + 62)),
            // u64 extreme approval: a + max_routing_fee overflows
            split(&format!("init 2|keysend 0 18446744073709551615 {t}|cpsign 0 new - 0:2000:500|cpsign 1 new - -")),
        ]
    }
    fn gen_case(&self, rng: &mut Rng, tier: Tier) -> Vec<String> {
        let nch = rng.range(2, 3) as usize;
        let mut ops = vec![format!("init {}", nch)];
        let mut now = T0;
        // a third of the worlds run under a finite node-wide velocity limit (hourly), so that approvals get refused
        let vlimit: Option<u64> =
            if rng.chance(1, 3) { Some(*rng.pick(&[150_000_000u64, 100_000_000, 250_000_000, 2_100_000])) } else { None };
        if let Some(l) = vlimit {
            ops[0] = format!("init {} {} h", nch, l);
        }
        // one world in five has room for one or two approved invoices only (policy.max_invoices): further approvals are
        // refused with an error — directly even the repeat of an existing one — until the heartbeat prunes
        if rng.chance(1, 5) {
            ops[0] = format!("{} m{}", ops[0], rng.range(1, 2));
        }
        let approval = |rng: &mut Rng, h: u64, amt: u64, now: u64| -> String {
            let line = if rng.chance(1, 2) && amt <= 1_000_000_000_000 {
                format!("invoice {} {} {} 3600 {}", h, amt, now, rng.below(2))
            } else {
                format!("keysend {} {} {}", h, amt, now)
            };
            // now and then the approver (user) says no
            match rng.below(8) {
                0 => format!("{} neg", line),
                1 | 2 => format!("{} direct", line),
                _ => line,
            }
        };
        // one world in six: the payee is on the allowlist (its invoices need no approver, its keysends still do)
        if rng.chance(1, 6) {
            ops.push("allowpayee".into());
        }
        let mut sims: Vec<Sim> = vec![Sim::default(); nch];
        // cases with u64-extreme approvals (overflow panics) use plain cltv values only, see random_htlc
        let extreme = rng.chance(1, 6);
        let len = rng.range(6, if tier == Tier::Quick { 18 } else { 40 }) as usize;
        // most cases start with one or two approvals so that outgoing HTLCs have something to pay
        for _ in 0..rng.below(3) {
            let amt = *rng.pick(&[100_000_000u64, 100_000_000, 50_000_000, 2_000_000]);
            let h = rng.below(NHASH as u64);
            ops.push(approval(rng, h, amt, now));
        }
        // with a small invoice table: more approvals than fit, and repeats of earlier ones both through the approver (an
        // existing entry still answers) and directly (the table-full refusal comes first)
        if ops[0].contains(" m") {
            for _ in 0..rng.range(1, 3) {
                let h = rng.below(NHASH as u64);
                ops.push(approval(rng, h, 50_000_000, now));
            }
            let earlier: Vec<String> =
                ops.iter().filter(|o| o.starts_with("keysend") || o.starts_with("invoice")).cloned().collect();
            for o in earlier {
                if rng.chance(1, 2) {
                    let base = o.trim_end_matches(" neg").trim_end_matches(" direct").to_string();
                    ops.push(if rng.chance(2, 3) { format!("{} direct", base) } else { base });
                }
            }
        }
        if rng.chance(1, 7) {
            // an approval recorded as ZERO (an amountless BOLT-11 invoice or a keysend of 0 msat) backs nothing beyond the
            // routing-fee allowance: HTLCs of every size for that hash, on one and on several channels, uncovered or covered
            let h = rng.below(NHASH as u64) as usize;
            ops.push(approval(rng, h as u64, 0, now));
            let parts = rng.range(1, nch as u64) as usize;
            for k in 0..parts {
                let c = (k + rng.below(nch as u64) as usize) % nch;
                let v = *rng.pick(&[600u64, 2_000, 100_000, 200_000]);
                let covered = rng.chance(1, 4);
                let s = &mut sims[c];
                if covered {
                    s.h_inc.push((h, v, 600));
                    ops.push(s.hval(c, "new"));
                    ops.push(format!("revoke {}", c));
                    s.cp_inc.push((h, v, 600));
                }
                if rng.chance(1, 2) {
                    s.cp_out.push((h, v + if covered { *rng.pick(&[0u64, 222, 223]) } else { 0 }, 500));
                    ops.push(format!("cprevoke {}", c));
                    ops.push(s.cpsign(c, "new"));
                } else {
                    s.h_out.push((h, v, 500));
                    ops.push(s.hval(c, "new"));
                    ops.push(format!("revoke {}", c));
                }
                if s.cp_out.len() + s.cp_inc.len() > 5 || s.h_out.len() + s.h_inc.len() > 5 {
                    *s = Sim::default();
                }
            }
        }
        if rng.chance(1, 4) {
            // cross-channel time-of-check/time-of-use shape (F2) with random parameters: a pending holder
            // commitment on A, a signed counterparty commitment on B, then the revocation on A
            let h = rng.below(NHASH as u64) as usize;
            let amt_sat = *rng.pick(&[50_000u64, 100_000, 2_000]);
            let (a, b) = (0usize, 1 + rng.below(nch as u64 - 1) as usize);
            let va = *rng.pick(&[amt_sat, amt_sat / 2, amt_sat + 222, 600]);
            let vb = *rng.pick(&[amt_sat, amt_sat / 2, amt_sat - va.min(amt_sat - 600) + 222, amt_sat - va.min(amt_sat - 600) + 223, 600]);
            ops.push(format!("keysend {} {} {}", h, amt_sat * 1000, now));
            sims[a].h_out.push((h, va, 500));
            ops.push(sims[a].hval(a, "new"));
            sims[b].cp_out.push((h, vb, 500));
            if rng.chance(1, 2) {
                ops.push(sims[b].cpsign(b, "new"));
            } else {
                sims[b].h_out.push((h, vb, 500));
                ops.push(sims[b].hval(b, "new"));
                ops.push(format!("revoke {}", b));
            }
            if rng.chance(1, 3) {
                ops.push("restart".into());
            }
            ops.push(format!("revoke {}", a));
            sims[a].cp_out.push((h, va, 500));
            ops.push(sims[a].cpsign(a, "new"));
        }
        if rng.chance(1, 6) {
            // the node issues an invoice for a hash; later — typically after the node state was written and the node
            // restarted — somebody proposes an outgoing HTLC for that hash without any approval or incoming value
            let h = rng.below(NHASH as u64) as usize;
            ops.push(format!("issue {} {} {} 3600 {}", h, *rng.pick(&[50_000_000u64, 1_000, 0]), now, rng.below(2)));
            if rng.chance(1, 2) {
                // more issued invoices (another hash, a repeat): meets `issued_invoices.len() >= max_invoices` in the m1/m2 worlds
                let h2 = (h + 1 + rng.below(NHASH as u64 - 1) as usize) % NHASH;
                ops.push(format!("issue {} {} {} 3600 {}", h2, *rng.pick(&[50_000_000u64, 2_000_000]), now, rng.below(2)));
                if rng.chance(1, 2) {
                    ops.push(format!("issue {} {} {} 3600 0", h, 50_000_000u64, now));
                }
            }
            if rng.chance(3, 4) {
                let other = (h + 1 + rng.below(NHASH as u64 - 1) as usize) % NHASH;
                ops.push(format!("keysend {} {} {}", other, *rng.pick(&[1_000u64, 100_000_000]), now));
            }
            if rng.chance(3, 4) {
                ops.push("restart".into());
            }
            let c = rng.below(nch as u64) as usize;
            let v = *rng.pick(&[10_000u64, 600, 50_000]);
            if rng.chance(1, 2) {
                sims[c].cp_out.push((h, v, 500));
                ops.push(sims[c].cpsign(c, "new"));
            } else {
                sims[c].h_out.push((h, v, 500));
                ops.push(sims[c].hval(c, "new"));
                ops.push(format!("revoke {}", c));
            }
        }
        if rng.chance(1, 8) {
            // a routed payment A -> B whose incoming part is removed first (tolerated), a heartbeat, then more outgoing value
            let h = rng.below(NHASH as u64) as usize;
            let (a, b) = (0usize, 1usize);
            let v = *rng.pick(&[2_000u64, 50_000]);
            sims[a].h_inc.push((h, v, 600));
            ops.push(sims[a].hval(a, "new"));
            ops.push(format!("revoke {}", a));
            sims[a].cp_inc.push((h, v, 600));
            ops.push(sims[a].cpsign(a, "new"));
            sims[b].cp_out.push((h, v, 500));
            ops.push(sims[b].cpsign(b, "new"));
            sims[a].cp_inc.clear();
            ops.push(format!("cprevoke {}", a));
            ops.push(sims[a].cpsign(a, "new"));
            now += 1;
            ops.push(format!("heartbeat {}", now));
            if rng.chance(1, 2) {
                ops.push("restart".into());
            }
            let c2 = nch - 1;
            sims[c2].cp_out.push((h, 600, 500));
            ops.push(format!("cprevoke {}", c2));
            ops.push(sims[c2].cpsign(c2, "new"));
        }
        if rng.chance(1, 8) {
            // pay a keysend, let its prune time pass (sometimes with the preimage known), heartbeat, approve again, pay again elsewhere
            let h = rng.below(NHASH as u64) as usize;
            let (a, b) = (0usize, nch - 1);
            ops.push(format!("keysend {} 100000000 {}", h, now));
            sims[a].cp_out.push((h, 100_000, 500));
            ops.push(sims[a].cpsign(a, "new"));
            if rng.chance(1, 4) {
                ops.push(format!("fulfill {} {}", a, h));
            }
            now += *rng.pick(&[60u64, 61, 100]);
            ops.push(format!("heartbeat {}", now));
            if rng.chance(1, 3) {
                ops.push("restart".into());
            }
            ops.push(format!("keysend {} 100000000 {}", h, now));
            sims[b].cp_out.push((h, *rng.pick(&[100_000u64, 600]), 500));
            ops.push(sims[b].cpsign(b, "new"));
        }
        if rng.chance(1, 6) {
            // an approved hash whose incoming HTLC differs between the holder and the counterparty view, then outgoing
            // value that only the larger incoming view would cover
            let h = rng.below(NHASH as u64) as usize;
            let c = rng.below(nch as u64) as usize;
            let (small, big) = (600u64, *rng.pick(&[50_000u64, 100_000]));
            let amt_sat = *rng.pick(&[50_000u64, 100_000]);
            ops.push(format!("keysend {} {} {}", h, amt_sat * 1000, now));
            let holder_small = rng.chance(1, 2);
            sims[c].h_inc.push((h, if holder_small { small } else { big }, 600));
            ops.push(sims[c].hval(c, "new"));
            ops.push(format!("revoke {}", c));
            sims[c].cp_inc.push((h, if holder_small { big } else { small }, 600));
            let out = amt_sat + *rng.pick(&[big, small + 222, small + 223, big + 222]);
            let oc = if rng.chance(1, 2) { c } else { (c + 1) % nch };
            if oc == c {
                sims[c].cp_out.push((h, out, 500));
                ops.push(sims[c].cpsign(c, "new"));
            } else {
                ops.push(sims[c].cpsign(c, "new"));
                sims[oc].cp_out.push((h, out, 500));
                ops.push(sims[oc].cpsign(oc, "new"));
            }
        }
        if rng.chance(1, 5) {
            // (round 10, b4) a multi-part payment with two parts on the SAME channel whose second part is in one view only
            // (signed counterparty commitment, holder commitment not yet carrying it — or the other way round), a restart in
            // exactly that window (restore_payments must rebuild max(holder view, counterparty view) per hash), then further
            // parts of the same hash on the OTHER channels: up to, at the edge of and over what is left of the approved amount
            // — relative to the true in-flight total and relative to each single view (what a restore that looks at one
            // view only would leave room for)
            let h = rng.below(NHASH as u64) as usize;
            let amt_sat = *rng.pick(&[50_000u64, 100_000]);
            let a = rng.below(nch as u64) as usize;
            ops.push(format!("keysend {} {} {}", h, amt_sat * 1000, now));
            let v1 = *rng.pick(&[amt_sat / 2, amt_sat / 4, 600]);
            let v2 = *rng.pick(&[amt_sat / 4, amt_sat / 2 - 600, 600, amt_sat - v1]);
            // part 1: in both views
            sims[a].cp_out.push((h, v1, 500));
            sims[a].h_out.push((h, v1, 500));
            ops.push(format!("cprevoke {}", a));
            ops.push(sims[a].cpsign(a, "new"));
            ops.push(sims[a].hval(a, "new"));
            ops.push(format!("revoke {}", a));
            // part 2: in one view only
            let cp_ahead = rng.chance(2, 3);
            if cp_ahead {
                sims[a].cp_out.push((h, v2, 500));
                ops.push(format!("cprevoke {}", a));
                ops.push(sims[a].cpsign(a, "new"));
            } else {
                sims[a].h_out.push((h, v2, 500));
                ops.push(sims[a].hval(a, "new"));
                ops.push(format!("revoke {}", a));
            }
            if rng.chance(5, 6) {
                ops.push("restart".into());
            }
            // further parts elsewhere
            let mut used = v1 + v2;
            for k in 1..nch {
                let b = (a + k) % nch;
                let left = amt_sat.saturating_sub(used);
                let v3 = *rng.pick(&[left, left + 222, left + 223, left + v2, left + v2 + 222, left + v2 + 223, (left / 2).max(600), 600]);
                let v3 = v3.max(600);
                if rng.chance(2, 3) {
                    sims[b].cp_out.push((h, v3, 500));
                    ops.push(format!("cprevoke {}", b));
                    ops.push(sims[b].cpsign(b, "new"));
                    // a refused request leaves the commitment as it was
                    if v3 > left + 222 { sims[b].cp_out.pop(); }
                } else {
                    sims[b].h_out.push((h, v3, 500));
                    ops.push(sims[b].hval(b, "new"));
                    ops.push(format!("revoke {}", b));
                    if v3 > left + 222 { sims[b].h_out.pop(); }
                }
                if v3 <= left + 222 { used += v3; }
                if rng.chance(1, 4) {
                    ops.push("restart".into());
                }
            }
            for s in sims.iter_mut() {
                if s.cp_out.len() + s.cp_inc.len() > 5 || s.h_out.len() + s.h_inc.len() > 5 {
                    *s = Sim::default();
                }
            }
        }
        while ops.len() < len + 1 {
            let c = rng.below(nch as u64) as usize;
            match rng.below(100) {
                0..=11 => {
                    let h = rng.below(NHASH as u64);
                    let amt = match rng.below(20) {
                        0 if extreme => u64::MAX,
                        1 if extreme => u64::MAX - 222_000,
                        0 | 1 => 100_222_000,
                        2 => 1,
                        3 => 0,
                        4 => 2_000_000,
                        5 | 6 => 50_000_000,
                        7 => 200_000_000,
                        _ => 100_000_000,
                    };
                    let line = approval(rng, h, amt, now);
                    ops.push(line.clone());
                    if (vlimit.is_some() || line.ends_with("neg")) && rng.chance(1, 2) {
                        // the approval may have been refused by the velocity limit: try to pay it anyway, then ask again
                        let v = (amt / 1000).clamp(600, 200_000);
                        let s = &mut sims[c];
                        if rng.chance(1, 2) {
                            s.cp_out.push((h as usize, v, 500));
                            ops.push(format!("cprevoke {}", c));
                            ops.push(s.cpsign(c, "new"));
                        } else {
                            s.h_out.push((h as usize, v, 500));
                            ops.push(s.hval(c, "new"));
                            ops.push(format!("revoke {}", c));
                        }
                        if s.cp_out.len() + s.cp_inc.len() > 5 || s.h_out.len() + s.h_inc.len() > 5 {
                            *s = Sim::default();
                        }
                        if rng.chance(1, 2) {
                            ops.push(line);
                        }
                    }
                }
                12..=26 => {
                    // full add of one HTLC on one channel: three requests in one of two orders
                    let outgoing = rng.chance(3, 5);
                    let htlc = Self::random_htlc(rng, outgoing, extreme);
                    let s = &mut sims[c];
                    let cp_first = rng.chance(1, 2);
                    if outgoing {
                        s.cp_out.push(htlc);
                        s.h_out.push(htlc);
                    } else {
                        s.cp_inc.push(htlc);
                        s.h_inc.push(htlc);
                    }
                    if s.cp_out.len() + s.cp_inc.len() > 5 || s.h_out.len() + s.h_inc.len() > 5 {
                        *s = Sim::default();
                    }
                    if cp_first {
                        ops.push(format!("cprevoke {}", c));
                        ops.push(s.cpsign(c, "new"));
                        ops.push(s.hval(c, "new"));
                        ops.push(format!("revoke {}", c));
                    } else {
                        ops.push(s.hval(c, "new"));
                        ops.push(format!("revoke {}", c));
                        ops.push(format!("cprevoke {}", c));
                        ops.push(s.cpsign(c, "new"));
                    }
                }
                27..=46 => {
                    let s = &mut sims[c];
                    let (mo, mi) = (s.h_out.clone(), s.h_inc.clone());
                    Self::mutate(rng, &mut s.cp_out, &mut s.cp_inc, (&mo, &mi), extreme);
                    if rng.chance(9, 10) {
                        ops.push(format!("cprevoke {}", c));
                    }
                    ops.push(s.cpsign(c, "new"));
                }
                47..=62 => {
                    let s = &mut sims[c];
                    let (mo, mi) = (s.cp_out.clone(), s.cp_inc.clone());
                    Self::mutate(rng, &mut s.h_out, &mut s.h_inc, (&mo, &mi), extreme);
                    ops.push(s.hval(c, "new"));
                }
                63..=78 => ops.push(format!("revoke {}", c)),
                79..=82 => {
                    let mut s = sims[c].clone();
                    if rng.chance(1, 4) {
                        s.cp_out.push(Self::random_htlc(rng, true, extreme));
                    }
                    ops.push(s.cpsign(c, "retry"));
                }
                83..=85 => {
                    let mut s = sims[c].clone();
                    if rng.chance(1, 4) {
                        s.h_inc.push(Self::random_htlc(rng, false, extreme));
                    }
                    ops.push(s.hval(c, "retry"));
                }
                86..=88 => ops.push(format!("fulfill {} {}", c, rng.below(NHASH as u64))),
                89 => ops.push(format!("issue {} {} {} 3600 {}", rng.below(NHASH as u64), *rng.pick(&[50_000_000u64, 2_000_000, 0]), now, rng.below(2))),
                90..=93 => {
                    now += *rng.pick(&[0u64, 30, 60, 61, 100]);
                    ops.push(format!("heartbeat {}", now));
                }
                94..=97 => ops.push("restart".into()),
                _ => now += *rng.pick(&[1u64, 59, 61]),
            }
        }
        // a third of the commitment requests go through the phase-1 entry points (transaction + witness scripts)
        for op in ops.iter_mut() {
            if (op.starts_with("cpsign ") || op.starts_with("hval ")) && rng.chance(1, 3) {
                op.push_str(" p1");
            }
        }
        ops
    }

    fn exec_case(&self, ops: &[String]) -> CaseOut {
        let mut co = CaseOut::default();
        let mut world: Option<World> = None;
        let mut dead = false;
        if std::env::var("C06_DEBUG").is_ok() {
            std::panic::set_hook(Box::new(|info| eprintln!("PANIC {}\n{}", info, std::backtrace::Backtrace::force_capture())));
        }
        let (mut acc_with_htlcs, mut refused) = (false, false);
        for (i, op) in ops.iter().enumerate() {
            let t: Vec<&str> = op.split_whitespace().collect();
            if t.first() == Some(&"init") {
                let nch: usize = t.get(1).and_then(|x| x.parse().ok()).unwrap_or(2).clamp(1, 4);
                MAX_INVOICES.with(|c| c.set(max_invoices_of(&t)));
                let w = World::new(nch, vspec_of(&t));
                co.out.push(format!("ok {}", w.digest()));
                world = Some(w);
                dead = false;
                continue;
            }
            if dead {
                co.out.push("dead".into());
                continue;
            }
            let w = world.as_mut().expect("init first");
            let r = catch_unwind(AssertUnwindSafe(|| exec_op(w, &t, i, &mut co)));
            match r {
                Err(e) => {
                    if std::env::var("C06_DEBUG").is_ok() {
                        let msg = e
                            .downcast_ref::<String>()
                            .cloned()
                            .or_else(|| e.downcast_ref::<&str>().map(|s| s.to_string()))
                            .unwrap_or_default();
                        eprintln!("panic at op {} ({}): {}", i, op, msg);
                    }
                    dead = true;
                    co.tags.insert(format!("{}:panic", t[0]));
                    co.out.push("panic".into());
                }
                Ok(None) => co.out.push("bad-op".into()),
                Ok(Some((res, had_htlcs))) => {
                    let commit = matches!(t[0], "cpsign" | "hval" | "revoke");
                    if commit && res == "ok" && had_htlcs {
                        acc_with_htlcs = true;
                    }
                    if commit && res == "err" {
                        refused = true;
                    }
                    co.tags.insert(format!("{}:{}", t[0], res));
                    co.out.push(format!("{} {}", res, w.digest()));
                }
            }
        }
        co.nontrivial = acc_with_htlcs && refused;
        co
    }
}

fn approval_class(r: &Result<bool, lightning_signer::util::status::Status>, op: &str, co: &mut CaseOut) -> String {
    match r {
        Ok(true) => "true".into(),
        Ok(false) => "false".into(),
        Err(e) => {
            co.tags.insert(format!("{}:err:{}", op, if e.message().contains("different") { "different-invoice" } else { "other" }));
            "err".into()
        }
    }
}

/// executes one op; returns (result class, the request carried HTLCs)
fn exec_op(w: &mut World, t: &[&str], at: usize, co: &mut CaseOut) -> Option<(String, bool)> {
    match t {
        ["keysend", h, amt, now, ap @ ..] => {
            let (negative, direct) = match ap {
                [] => (false, false),
                ["neg"] => (true, false),
                ["direct"] => (false, true),
                _ => return None,
            };
            let h: usize = h.parse().ok()?;
            let amt: u64 = amt.parse().ok()?;
            let now: u64 = now.parse().ok()?;
            let h = h % NHASH;
            w.clock.set(Duration::from_secs(now));
            // through the approver of vls-protocol-signer, as the protocol handler does
            let r = if direct {
                // straight into the node (what the approver does after saying yes), so that add_keysend's own
                // "already have this hash" branch is exercised as well
                w.ctx.node.add_keysend(make_test_pubkey(1), phash(h), amt)
            } else if negative {
                NegativeApprover().handle_proposed_keysend(&w.ctx.node, make_test_pubkey(1), phash(h), amt)
            } else {
                PositiveApprover().handle_proposed_keysend(&w.ctx.node, make_test_pubkey(1), phash(h), amt)
            };
            let cls = approval_class(&r, if negative { "keysend-neg" } else { "keysend" }, co);
            if negative {
                co.tags.insert(format!("keysend-neg:{}", cls));
            }
            w.note_answer(h, r.ok(), amt, now + KEYSEND_EXPIRY, co);
            Some((cls, false))
        }
        ["invoice", h, amt, now, expiry, tag, ap @ ..] => {
            let (negative, direct) = match ap {
                [] => (false, false),
                ["neg"] => (true, false),
                ["direct"] => (false, true),
                _ => return None,
            };
            // a real signed BOLT-11 invoice for the hash, issued at `now`
            use lightning_signer::invoice::Invoice;
            use lightning_signer::lightning::types::payment::PaymentSecret;
            use lightning_signer::lightning_invoice::{Currency, InvoiceBuilder};
            let h: usize = h.parse().ok()?;
            let amt: u64 = amt.parse().ok()?;
            let now: u64 = now.parse().ok()?;
            let expiry: u64 = expiry.parse().ok()?;
            let tag: u64 = tag.parse().ok()?;
            let h = h % NHASH;
            w.clock.set(Duration::from_secs(now));
            let key = SecretKey::from_slice(&[42; 32]).unwrap();
            let mut b = InvoiceBuilder::new(Currency::BitcoinTestnet)
                .description(format!("verif{}", tag))
                .payment_hash(Sha256Hash::from_byte_array(phash(h).0))
                .payment_secret(PaymentSecret([h as u8 + 1; 32]))
                .duration_since_epoch(Duration::from_secs(now))
                .expiry_time(Duration::from_secs(expiry))
                .min_final_cltv_expiry_delta(144);
            // amount 0 = a BOLT-11 invoice WITHOUT an amount (the signer records it as approved for 0 msat)
            if amt > 0 {
                b = b.amount_milli_satoshis(amt);
            } else {
                co.tags.insert("invoice:amountless".into());
            }
            let inv = b
                .build_signed(|hash| Secp256k1::new().sign_ecdsa_recoverable(hash, &key))
                .ok()?;
            let r = if direct {
                w.ctx.node.add_invoice(Invoice::Bolt11(inv))
            } else if negative {
                NegativeApprover().handle_proposed_invoice(&w.ctx.node, Invoice::Bolt11(inv))
            } else {
                PositiveApprover().handle_proposed_invoice(&w.ctx.node, Invoice::Bolt11(inv))
            };
            let cls = approval_class(&r, if negative { "invoice-neg" } else { "invoice" }, co);
            if negative {
                co.tags.insert(format!("invoice-neg:{}", cls));
            }
            w.note_answer(h, r.ok(), amt, now + expiry + INVOICE_PRUNE_TIME, co);
            Some((cls, false))
        }
        ["allowpayee"] => {
            // the payee of every invoice of the harness (the key the invoices are signed with) and of every keysend goes
            // on the node's allowlist: `handle_proposed_invoice` then adds its invoices without asking the approver,
            // `handle_proposed_keysend` still asks
            let key = SecretKey::from_slice(&[42; 32]).unwrap();
            let pk = PublicKey::from_secret_key(&Secp256k1::new(), &key);
            let ks = make_test_pubkey(1);
            w.ctx.node.add_allowlist(&[format!("payee:{}", pk), format!("payee:{}", ks)]).ok()?;
            Some(("ok".into(), false))
        }
        ["cpsign", c, kind, off, rcv, ph @ ..] => {
            let phase1 = match ph {
                [] => false,
                ["p1"] => true,
                _ => return None,
            };
            let c: usize = c.parse().ok()?;
            let is_new = match *kind {
                "new" => true,
                "retry" => false,
                _ => return None,
            };
            let off = parse_list(off)?;
            let rcv = parse_list(rcv)?;
            if c >= w.chans.len() {
                return None;
            }
            let pre_seen: Vec<(bool, bool)> = (0..NHASH).map(|h| w.seen(h)).collect();
            let (n, seed, id) = {
                let ch = &w.chans[c];
                (if is_new { ch.cp_next } else { ch.cp_next - 1 }, ch.cp_seed, ch.ctx.channel_id.clone())
            };
            let point = cp_point(&seed, n);
            let to_holder = BASE_HOLDER.saturating_sub(total(&rcv));
            let to_cp = BASE_CP.saturating_sub(total(&off));
            let (o2, r2) = (to_info(&off), to_info(&rcv));
            let cp_funding = w.chans[c].ctx.setup.counterparty_points.funding_pubkey;
            if phase1 {
                co.tags.insert("cpsign:phase1".into());
            }
            let r = w.ctx.node.with_channel(&id, |chan| {
                if phase1 {
                    // phase 1: the caller hands over the transaction and its witness scripts
                    let channel_parameters = chan.make_channel_parameters();
                    let parameters = channel_parameters.as_counterparty_broadcastable();
                    let keys = chan.make_counterparty_tx_keys(&point);
                    let htlcs = Channel::htlcs_info2_to_oic(&o2, &r2);
                    // as a node does it: the transaction and its witness scripts are built from the HTLCs that get an
                    // output (an HTLC below the trim threshold of its direction has none; its value goes to the fee), the
                    // HTLC lists are handed over in full
                    let features = chan.setup.features();
                    let lim = |w: u64| 330 + FEERATE as u64 * w / 1000;
                    let (lo, lr) = (
                        lim(lightning_signer::lightning::ln::chan_utils::htlc_timeout_tx_weight(&features)),
                        lim(lightning_signer::lightning::ln::chan_utils::htlc_success_tx_weight(&features)),
                    );
                    let with_output: Vec<_> = htlcs
                        .iter()
                        .filter(|h| h.amount_msat / 1000 >= if h.offered { lo } else { lr })
                        .cloned()
                        .collect();
                    let ctx = chan.make_counterparty_commitment_tx_with_keys(
                        keys.clone(),
                        n,
                        FEERATE,
                        to_holder,
                        to_cp,
                        with_output.clone(),
                    );
                    let scripts = build_tx_scripts(
                        &keys,
                        to_cp,
                        to_holder,
                        &with_output,
                        &parameters,
                        &chan.keys.pubkeys().funding_pubkey,
                        &cp_funding,
                    )
                    .expect("scripts");
                    let witscripts: Vec<Vec<u8>> = scripts.iter().map(|s| s.as_bytes().to_vec()).collect();
                    let tx = ctx.trust().built_transaction().transaction.clone();
                    chan.sign_counterparty_commitment_tx(&tx, &witscripts, &point, n, FEERATE, o2.clone(), r2.clone())
                        .map(|_| ())
                } else {
                    chan.sign_counterparty_commitment_tx_phase2(&point, n, FEERATE, to_holder, to_cp, o2.clone(), r2.clone())
                        .map(|_| ())
                }
            });
            let had = !off.is_empty() || !rcv.is_empty();
            Some((
                match r {
                    Ok(_) => {
                        let view: View = (off, rcv);
                        if is_new {
                            w.chans[c].cp_next += 1;
                            w.chans[c].g_ccur = view.clone();
                        }
                        let hv = w.chans[c].g_hcur.clone();
                        w.check_unbacked(at, &pre_seen, &hv, &view, co);
                        w.note_seen(&view);
                        w.check_conservation(at, co);
                        "ok".into()
                    }
                    Err(e) => {
                        if std::env::var("C06_DEBUG").is_ok() { eprintln!("cpsign err: {}", e.message()); } co.tags.insert(format!("cpsign:err:{}", status_tag(e.message())));
                        "err".into()
                    }
                },
                had,
            ))
        }
        ["hval", c, kind, off, rcv, ph @ ..] => {
            let phase1 = match ph {
                [] => false,
                ["p1"] => true,
                _ => return None,
            };
            let c: usize = c.parse().ok()?;
            let is_new = match *kind {
                "new" => true,
                "retry" => false,
                _ => return None,
            };
            let off = parse_list(off)?;
            let rcv = parse_list(rcv)?;
            if c >= w.chans.len() {
                return None;
            }
            let pre_seen: Vec<(bool, bool)> = (0..NHASH).map(|h| w.seen(h)).collect();
            let n = if is_new { w.chans[c].holder_next } else { w.chans[c].holder_next - 1 };
            let to_b = BASE_HOLDER.saturating_sub(total(&off));
            let to_c = BASE_CP.saturating_sub(total(&rcv));
            let (o2, r2) = (to_info(&off), to_info(&rcv));
            // as the peer does it: the commitment transaction it counter-signs has outputs (and HTLC signatures) only for
            // the HTLCs at or above the trim threshold of their direction; the request lists every HTLC
            let (lo, lr) = {
                let features = w.chans[c].ctx.setup.features();
                let lim = |wt: u64| 330 + FEERATE as u64 * wt / 1000;
                (
                    lim(lightning_signer::lightning::ln::chan_utils::htlc_timeout_tx_weight(&features)),
                    lim(lightning_signer::lightning::ln::chan_utils::htlc_success_tx_weight(&features)),
                )
            };
            let o2f: Vec<HTLCInfo2> = o2.iter().filter(|h| h.value_sat >= lo).cloned().collect();
            let r2f: Vec<HTLCInfo2> = r2.iter().filter(|h| h.value_sat >= lr).cloned().collect();
            if o2f.len() != o2.len() || r2f.len() != r2.len() {
                co.tags.insert("hval:small-part".into());
            }
            let mut cctx = channel_commitment(&w.ctx, &w.chans[c].ctx, n, FEERATE, to_b, to_c, o2f, r2f);
            let (csig, hsigs) = counterparty_sign_holder_commitment(&w.ctx, &w.chans[c].ctx, &mut cctx);
            let id = w.chans[c].ctx.channel_id.clone();
            let cp_funding = w.chans[c].ctx.setup.counterparty_points.funding_pubkey;
            if phase1 {
                co.tags.insert("hval:phase1".into());
            }
            let r = w.ctx.node.with_channel(&id, |chan| {
                if phase1 {
                    let channel_parameters = chan.make_channel_parameters();
                    let parameters = channel_parameters.as_holder_broadcastable();
                    let ctx = cctx.tx.as_ref().unwrap();
                    let trusted = ctx.trust();
                    // witness scripts for the outputs the transaction has (no output for a part below the trim
                    // threshold of its direction), the HTLC lists in full
                    let features = chan.setup.features();
                    let lim = |w: u64| 330 + FEERATE as u64 * w / 1000;
                    let (lo, lr) = (
                        lim(lightning_signer::lightning::ln::chan_utils::htlc_timeout_tx_weight(&features)),
                        lim(lightning_signer::lightning::ln::chan_utils::htlc_success_tx_weight(&features)),
                    );
                    let htlcs: Vec<_> = Channel::htlcs_info2_to_oic(&o2, &r2)
                        .into_iter()
                        .filter(|h| h.amount_msat / 1000 >= if h.offered { lo } else { lr })
                        .collect();
                    let scripts = build_tx_scripts(
                        trusted.keys(),
                        to_b,
                        to_c,
                        &htlcs,
                        &parameters,
                        &chan.keys.pubkeys().funding_pubkey,
                        &cp_funding,
                    )
                    .expect("scripts");
                    let witscripts: Vec<Vec<u8>> = scripts.iter().map(|s| s.as_bytes().to_vec()).collect();
                    chan.validate_holder_commitment_tx(
                        &trusted.built_transaction().transaction,
                        &witscripts,
                        n,
                        FEERATE,
                        o2.clone(),
                        r2.clone(),
                        &csig,
                        &hsigs,
                    )
                } else {
                    chan.validate_holder_commitment_tx_phase2(n, FEERATE, to_b, to_c, o2.clone(), r2.clone(), &csig, &hsigs)
                }
            });
            let had = !off.is_empty() || !rcv.is_empty();
            Some((
                match r {
                    Ok(_) => {
                        let view: View = (off, rcv);
                        if is_new {
                            w.chans[c].g_hnext = Some(view.clone());
                        }
                        let cv = w.chans[c].g_ccur.clone();
                        w.check_unbacked(at, &pre_seen, &view, &cv, co);
                        w.note_seen(&view);
                        w.check_conservation(at, co);
                        "ok".into()
                    }
                    Err(e) => {
                        co.tags.insert(format!("hval:err:{}", status_tag(e.message())));
                        "err".into()
                    }
                },
                had,
            ))
        }
        ["revoke", c] => {
            let c: usize = c.parse().ok()?;
            if c >= w.chans.len() {
                return None;
            }
            let pre_seen: Vec<(bool, bool)> = (0..NHASH).map(|h| w.seen(h)).collect();
            let n = w.chans[c].holder_next;
            let id = w.chans[c].ctx.channel_id.clone();
            let r = w.ctx.node.with_channel(&id, |chan| chan.revoke_previous_holder_commitment(n));
            let had = w.chans[c].g_hnext.as_ref().map(|v| !v.0.is_empty() || !v.1.is_empty()).unwrap_or(false);
            Some((
                match r {
                    Ok(_) => {
                        w.chans[c].holder_next += 1;
                        if let Some(v) = w.chans[c].g_hnext.take() {
                            w.chans[c].g_hcur = v;
                        } else {
                            // a revocation was accepted although no successor had been validated
                            co.violations.push(Violation {
                                kind: "revoke-without-validated-successor".into(),
                                desc: format!("channel {}: revoke accepted with no validated next holder commitment", c),
                                at,
                            });
                        }
                        let (hv, cv) = (w.chans[c].g_hcur.clone(), w.chans[c].g_ccur.clone());
                        w.check_unbacked(at, &pre_seen, &hv, &cv, co);
                        w.check_conservation(at, co);
                        "ok".into()
                    }
                    Err(e) => {
                        co.tags.insert(format!("revoke:err:{}", status_tag(e.message())));
                        "err".into()
                    }
                },
                had,
            ))
        }
        ["issue", h, amt, now, expiry, tag] => {
            // the node ISSUES an invoice of its own (receiving side): sign_bolt11_invoice on a raw BOLT-11 invoice.
            // The harness's book ignores it: it is neither an approval nor an HTLC seen.
            use lightning_signer::lightning::types::payment::PaymentSecret;
            use lightning_signer::lightning_invoice::{Currency, InvoiceBuilder};
            let h: usize = h.parse().ok()?;
            let amt: u64 = amt.parse().ok()?;
            let now: u64 = now.parse().ok()?;
            let expiry: u64 = expiry.parse().ok()?;
            let tag: u64 = tag.parse().ok()?;
            let h = h % NHASH;
            w.clock.set(Duration::from_secs(now));
            let mut b = InvoiceBuilder::new(Currency::BitcoinTestnet)
                .description(format!("issued{}", tag))
                .payment_hash(Sha256Hash::from_byte_array(phash(h).0))
                .payment_secret(PaymentSecret([h as u8 + 0x11; 32]))
                .duration_since_epoch(Duration::from_secs(now))
                .expiry_time(Duration::from_secs(expiry))
                .min_final_cltv_expiry_delta(144);
            if amt > 0 {
                b = b.amount_milli_satoshis(amt);
            }
            let raw = b
                .build_raw()
                .ok()?;
            let r = w.ctx.node.sign_bolt11_invoice(raw);
            Some((if r.is_ok() { "ok".into() } else { "err".into() }, false))
        }
        ["cprevoke", c] => {
            let c: usize = c.parse().ok()?;
            if c >= w.chans.len() {
                return None;
            }
            let m = w.chans[c].cp_revoke_next;
            let secret = cp_secret(&w.chans[c].cp_seed, m);
            let id = w.chans[c].ctx.channel_id.clone();
            let r = w.ctx.node.with_channel(&id, |chan| chan.validate_counterparty_revocation(m, &secret));
            Some((
                match r {
                    Ok(_) => {
                        w.chans[c].cp_revoke_next += 1;
                        "ok".into()
                    }
                    Err(_) => "err".into(),
                },
                false,
            ))
        }
        ["fulfill", c, h] => {
            let c: usize = c.parse().ok()?;
            let h: usize = h.parse().ok()?;
            if c >= w.chans.len() {
                return None;
            }
            let id = w.chans[c].ctx.channel_id.clone();
            w.ctx
                .node
                .with_channel(&id, |chan| {
                    chan.htlcs_fulfilled(vec![preimage(h % NHASH)]);
                    Ok(())
                })
                .expect("htlcs_fulfilled");
            w.fulfilled[h % NHASH] = true;
            Some(("ok".into(), false))
        }
        ["heartbeat", now] => {
            let now: u64 = now.parse().ok()?;
            w.clock.set(Duration::from_secs(now));
            let _ = w.ctx.node.get_heartbeat();
            w.lapse_approvals(now);
            Some(("ok".into(), false))
        }
        ["restart"] => {
            let (node_id, entry) = w.persister.get_nodes().unwrap().into_iter().next().unwrap();
            // drop the old node first: the restored one is built from the store only
            let placeholder = Node::restore_node(&node_id, entry, &w.seed, services(w.persister.clone(), w.clock.clone(), w.vspec)).unwrap();
            w.ctx = TestNodeContext { node: placeholder, secp_ctx: Secp256k1::signing_only() };
            Some(("ok".into(), false))
        }
        _ => None,
    }
}

pub fn groups() -> Vec<Box<dyn Group>> {
    vec![Box::new(C06Node)]
}
