//! C08, protocol entry point: a real `RootHandler` handling `SignWithdrawal` with a streamed PSBT built by
//! the harness.  The segwit flags the policy sees are the ones the real `StreamedPSBT` decoder produced from
//! what the PSBT *presents* per input (previous tx supplied / only an unverifiable `witness_utxo` / both),
//! while the monitor judges by the TRUE script type of the coin each input really spends, which only the
//! harness knows.  No Lean model (the PSBT codec belongs to C19); monitors only.
//!
//! Op line (each op builds a fresh handler, so a panic poisons nothing):
//!   wd <fund 0|1> <approver n|p> <unknown-output 0|1> <inputs kind:type:pres:claim,..>
//!     kind  o = own wallet coin (key index 1+i, listed in `utxos`, gets signed) | f = somebody else's coin
//!     type  TRUE script type of the spent output: w p2wpkh | t p2tr | k p2pkh | s p2sh-p2wpkh
//!     pres  n = non_witness_utxo (previous tx) supplied | u = only witness_utxo | b = both
//!           x = a forged previous tx (wrong txid) whose output is the claimed script
//!     claim (script in the witness_utxo) t = the true script | w = "p2wpkh of the same key"
//!           v = the true script with the value understated by 500_000 sat
use super::{foreign_key, key_script, to_dp, NET};
use crate::common::*;
use lightning_signer::bitcoin::absolute::LockTime;
use lightning_signer::bitcoin::bip32::{DerivationPath, Fingerprint};
use lightning_signer::bitcoin::blockdata::constants::genesis_block;
use lightning_signer::bitcoin::consensus::deserialize;
use lightning_signer::bitcoin::hashes::Hash;
use lightning_signer::bitcoin::psbt::Psbt;
use lightning_signer::bitcoin::secp256k1::{PublicKey, Secp256k1};
use lightning_signer::bitcoin::transaction::Version;
use lightning_signer::bitcoin::{Amount, OutPoint, ScriptBuf, Sequence, Transaction, TxIn, TxOut, Txid, Witness};
use lightning_signer::node::NodeServices;
use lightning_signer::persist::Persist;
use lightning_signer::policy::simple_validator::SimpleValidatorFactory;
use lightning_signer::signer::ClockStartingTimeFactory;
use lightning_signer::util::clock::StandardClock;
use lightning_signer::util::test_utils::*;
use std::collections::BTreeMap;
use std::sync::Arc;
use vls_persist::kvv::memory::MemoryKVVStore;
use vls_persist::kvv::{JsonFormat, KVVPersister};
use vls_protocol::model::{Bip32KeyVersion, Utxo};
use vls_protocol::msgs::{self, Message};
use vls_protocol::psbt::StreamedPSBT;
use vls_protocol::serde_bolt::{Array, Octets, WithSize};
use vls_protocol_signer::approver::{Approve, NegativeApprover, PositiveApprover};
use vls_protocol_signer::handler::{Handler, HandlerBuilder, RootHandler};

const UNDERSTATE: u64 = 500_000;

struct In {
    own: bool,
    ty: char,
    pres: char,
    claim: char,
}

fn root_handler(approve: bool, onchain: bool) -> Option<RootHandler> {
    let persister = Arc::new(KVVPersister(MemoryKVVStore::new([1u8; 16]), JsonFormat));
    let services = NodeServices {
        validator_factory: if onchain { Arc::new(lightning_signer::policy::onchain_validator::OnchainValidatorFactory::new()) } else { Arc::new(SimpleValidatorFactory::new()) },
        starting_time_factory: ClockStartingTimeFactory::new(),
        persister: persister as Arc<dyn Persist>,
        clock: Arc::new(StandardClock()),
        trusted_oracle_pubkeys: vec![],
    };
    let approver: Arc<dyn Approve> = if approve { Arc::new(PositiveApprover()) } else { Arc::new(NegativeApprover()) };
    let mut init = HandlerBuilder::new(NET, 0, services, [0u8; 32]).approver(approver).build().ok()?;
    let (done, _reply) = init
        .handle(Message::HsmdInit(msgs::HsmdInit {
            key_version: Bip32KeyVersion { pubkey_version: 0x0488b21e, privkey_version: 0x0488ade4 },
            chain_params: genesis_block(NET).block_hash(),
            encryption_key: None,
            dev_privkey: None,
            dev_bip32_seed: None,
            dev_channel_secrets: None,
            dev_channel_secrets_shaseed: None,
            hsm_wire_min_version: msgs::MIN_PROTOCOL_VERSION,
            hsm_wire_max_version: msgs::DEFAULT_MAX_PROTOCOL_VERSION,
        }))
        .ok()?;
    if !done {
        return None;
    }
    Some(init.into())
}

pub struct C08Psbt;

impl C08Psbt {
    fn exec_wd(&self, fund: bool, approve: bool, unknown: bool, onchain: bool, ins: &[In], at: usize, co: &mut CaseOut) -> String {
        let handler = match root_handler(approve, onchain) {
            Some(h) => h,
            None => return "harness-setup-failed handler".into(),
        };
        let node_ctx = TestNodeContext { node: Arc::clone(handler.node()), secp_ctx: Secp256k1::signing_only() };
        let node = node_ctx.node.clone();
        let secp = Secp256k1::new();
        // the coins really spent
        let mut prev_txs = vec![];
        let mut keys = vec![];
        let mut total: u64 = 0; // as presented to the signer
        let mut true_total: u64 = 0;
        for (i, inp) in ins.iter().enumerate() {
            let pk: PublicKey = if inp.own {
                let x = node.get_account_extended_key().derive_priv(&secp, &to_dp(&[1 + i as u32])).unwrap();
                PublicKey::from_secret_key(&secp, &x.private_key)
            } else {
                foreign_key(4000 + i as u32)
            };
            let value = 2_000_000 + 1000 * i as u64;
            total += if inp.claim == 'v' && inp.pres != 'n' { value - UNDERSTATE } else { value };
            true_total += value;
            let ptx = Transaction {
                version: Version::TWO,
                lock_time: LockTime::ZERO,
                input: vec![TxIn { previous_output: OutPoint { txid: Txid::all_zeros(), vout: i as u32 }, script_sig: ScriptBuf::new(), sequence: Sequence::ZERO, witness: Witness::default() }],
                output: vec![TxOut { value: Amount::from_sat(value), script_pubkey: key_script(&pk, inp.ty) }],
            };
            prev_txs.push(ptx);
            keys.push(pk);
        }
        let fee = 1_000u64;
        let unknown_amt = if unknown { 200_000 } else { 0 };
        let chan_amt = if fund { total / 2 } else { 0 };
        let change = total - fee - unknown_amt - chan_amt;
        let mut chan_ctx = if fund { Some(test_chan_ctx(&node_ctx, 1, chan_amt)) } else { None };
        let mut outputs = vec![];
        if let Some(c) = &chan_ctx {
            outputs.push(make_test_funding_channel_outpoint(&node, &c.setup, &c.channel_id, chan_amt));
        }
        let change_ndx = outputs.len();
        let change_pk = {
            let x = node.get_account_extended_key().derive_priv(&secp, &to_dp(&[77])).unwrap();
            PublicKey::from_secret_key(&secp, &x.private_key)
        };
        outputs.push(TxOut { value: Amount::from_sat(change), script_pubkey: key_script(&change_pk, 'w') });
        if unknown {
            outputs.push(TxOut { value: Amount::from_sat(unknown_amt), script_pubkey: key_script(&foreign_key(4100), 'w') });
        }
        let tx = Transaction {
            version: Version::TWO,
            lock_time: LockTime::ZERO,
            input: prev_txs.iter().map(|p| TxIn { previous_output: OutPoint { txid: p.compute_txid(), vout: 0 }, script_sig: ScriptBuf::new(), sequence: Sequence::ZERO, witness: Witness::default() }).collect(),
            output: outputs,
        };
        if let Some(c) = chan_ctx.as_mut() {
            if let Some(st) = funding_tx_setup_channel(&node_ctx, c, &tx, 0) {
                return format!("harness-setup-failed {}", st.message());
            }
            node.with_channel(&c.channel_id, |ch| {
                ch.enforcement_state.set_next_holder_commit_num_for_testing(1);
                Ok(())
            })
            .unwrap();
        }
        let psbt_weight = tx.weight().to_wu();
        let mut psbt = match Psbt::from_unsigned_tx(tx) {
            Ok(p) => p,
            Err(_) => return "harness-setup-failed psbt".into(),
        };
        let mut utxos = vec![];
        for (i, inp) in ins.iter().enumerate() {
            let true_out = prev_txs[i].output[0].clone();
            let claimed = match inp.claim {
                'w' => TxOut { value: true_out.value, script_pubkey: key_script(&keys[i], 'w') },
                'v' => TxOut { value: Amount::from_sat(true_out.value.to_sat() - UNDERSTATE), script_pubkey: true_out.script_pubkey.clone() },
                _ => true_out.clone(),
            };
            if inp.pres == 'n' || inp.pres == 'b' {
                psbt.inputs[i].non_witness_utxo = Some(prev_txs[i].clone());
            }
            if inp.pres == 'x' {
                // a forged previous tx: same shape, but its output is the claimed script (its txid does not match the outpoint)
                let mut fake = prev_txs[i].clone();
                fake.output[0] = claimed.clone();
                fake.lock_time = LockTime::from_consensus(1);
                psbt.inputs[i].non_witness_utxo = Some(fake);
            }
            if inp.pres == 'u' || inp.pres == 'b' {
                psbt.inputs[i].witness_utxo = Some(claimed);
            }
            if inp.own {
                if inp.ty == 's' {
                    psbt.inputs[i].redeem_script = Some(key_script(&keys[i], 'w'));
                }
                utxos.push(Utxo {
                    txid: prev_txs[i].compute_txid(),
                    outnum: 0,
                    amount: true_out.value.to_sat(),
                    keyindex: 1 + i as u32,
                    is_p2sh: inp.ty == 's',
                    script: Octets(true_out.script_pubkey.to_bytes()),
                    close_info: None,
                    is_in_coinbase: false,
                });
            }
        }
        let mut derivation = BTreeMap::new();
        let path: DerivationPath = to_dp(&[77]);
        derivation.insert(change_pk, (Fingerprint::default(), path));
        psbt.outputs[change_ndx].bip32_derivation = derivation;

        // through the wire encoding of the PSBT, as the real request does
        let streamed: StreamedPSBT = match deserialize(&psbt.serialize()) {
            Ok(s) => s,
            Err(_) => {
                co.tags.insert("wd:decode-error".into());
                return "decode-error".into();
            }
        };
        // the decoder must have refused a witness_utxo that disagrees with the supplied previous tx, and a forged previous tx
        if ins.iter().any(|i| (i.pres == 'b' && (i.claim == 'v' || (i.claim == 'w' && i.ty != 'w'))) || i.pres == 'x') {
            co.violations.push(Violation { kind: "psbt-utxo-mismatch-accepted".into(), desc: format!("the streamed PSBT decoder accepted inputs presented as {} (b+w/v: witness_utxo differs from the previous tx output; x: previous tx with the wrong txid)", ins.iter().map(|i| format!("{}{}{}", i.ty, i.pres, i.claim)).collect::<Vec<_>>().join(",")), at });
        }
        let flags = streamed.segwit_flags.clone();
        for (i, inp) in ins.iter().enumerate() {
            if flags.get(i) == Some(&true) && inp.pres == 'u' {
                co.tags.insert("psbt:unverified-input-flagged-segwit".into());
            }
        }
        let res = std::panic::catch_unwind(std::panic::AssertUnwindSafe(|| {
            handler.handle(Message::SignWithdrawal(msgs::SignWithdrawal { utxos: Array(utxos), psbt: WithSize(streamed) })).map(|reply| {
                reply.as_any().downcast_ref::<msgs::SignWithdrawalReply>().map(|r| r.psbt.0.inner.clone())
            })
        }));
        let flags_s: String = flags.iter().map(|b| if *b { '1' } else { '0' }).collect();
        match res {
            Err(_) => {
                co.tags.insert("wd:panic".into());
                format!("panic flags={}", flags_s)
            }
            Ok(Err(e)) => {
                let m = format!("{:?}", e);
                let short = if m.contains("non-segwit-native") { "non-malleable" } else if m.contains("unapproved") { "unapproved" } else { "other" };
                co.tags.insert(format!("wd:refused:{}", short));
                format!("refused:{} flags={}", short, flags_s)
            }
            Ok(Ok(signed)) => {
                let n_sigs = signed.map(|p| p.inputs.iter().filter(|i| i.final_script_witness.is_some()).count()).unwrap_or(0);
                co.tags.insert("wd:signed".into());
                if unknown && !approve {
                    co.violations.push(Violation { kind: "unapproved-destination-signed".into(), desc: format!("SignWithdrawal signed ({} witnesses) although the tx pays an unknown destination and the approver declined", n_sigs), at });
                }
                // ---- monitor: the fee really paid (true input values) against the default max feerate; own coins only can
                // be lost, and only where the signature does not commit to the amount (legacy p2pkh)
                let own_legacy_understated = ins.iter().any(|i| i.own && i.ty == 'k' && i.claim == 'v' && i.pres == 'u');
                if !unknown && own_legacy_understated {
                    let w = psbt_weight as u128 + 110 * ins.len() as u128;
                    let true_fee = (true_total - chan_amt - change) as u128;
                    if (true_fee * 1000 + 999) / w > 333_333 {
                        co.violations.push(Violation { kind: "legacy-input-value-unverified".into(), desc: format!("SignWithdrawal signed a tx that really pays {} sat of fee ({} sat/kw) from an own p2pkh coin whose value was understated in an unverified witness_utxo", true_fee, (true_fee * 1000 + 999) / w), at });
                    }
                }
                // ---- monitor: judged by the TRUE type of the coins
                let legacy: Vec<usize> = ins.iter().enumerate().filter(|(_, i)| !"wt".contains(i.ty)).map(|(k, _)| k).collect();
                if fund && !legacy.is_empty() {
                    co.violations.push(Violation {
                        kind: "funding-non-segwit-input-accepted".into(),
                        desc: format!(
                            "SignWithdrawal signed ({} witnesses released) a tx funding a channel although input(s) {:?} really spend non-segwit-native outputs; presented as {}; decoded segwit_flags = {}",
                            n_sigs, legacy,
                            ins.iter().map(|i| format!("{}{}{}", i.ty, i.pres, i.claim)).collect::<Vec<_>>().join(","), flags_s),
                        at,
                    });
                }
                format!("signed sigs={} flags={}", n_sigs, flags_s)
            }
        }
    }
}

fn parse_ins(s: &str) -> Option<Vec<In>> {
    s.split(',')
        .map(|x| {
            let p: Vec<&str> = x.split(':').collect();
            if p.len() != 4 {
                return None;
            }
            Some(In { own: p[0] == "o", ty: p[1].chars().next()?, pres: p[2].chars().next()?, claim: p[3].chars().next()? })
        })
        .collect()
}

impl Group for C08Psbt {
    fn property(&self) -> &'static str { "C08" }
    fn model(&self) -> Option<&'static str> { None }
    fn rule(&self) -> &'static str {
        "protocol entry point: real RootHandler (HsmdInit, Positive/NegativeApprover, KVV persister) handling SignWithdrawal with a \
         harness-built streamed PSBT: 1-3 inputs (own wallet coins that get signed / foreign coins; true type p2wpkh, p2tr, p2pkh, \
         p2sh-p2wpkh; previous tx supplied, only a witness_utxo - honest or claiming p2wpkh -, or both), optionally funding a validated \
         channel and paying an unknown destination; the monitor judges by the true prevout script types; non-trivial = one signed and \
         one refused request"
    }
    fn budget(&self, tier: Tier) -> usize { if tier == Tier::Quick { 500 } else { 10000 } }
    fn corpus(&self) -> Vec<Vec<String>> {
        let c = |s: &str| s.split('|').map(|x| x.to_string()).collect::<Vec<String>>();
        vec![
            // verified segwit inputs: signed; verified legacy input: refused; legacy coin behind an unverifiable p2wpkh claim: refused
            c("wd 1 n 0 o:w:n:t,f:w:n:t|wd 1 n 0 o:w:n:t,f:k:n:t|wd 1 n 0 o:w:n:t,f:k:u:w"),
            // not funding a channel: a legacy input is fine
            c("wd 0 n 0 o:w:n:t,f:k:n:t|wd 0 p 1 o:w:n:t|wd 0 n 1 o:w:n:t"),
            // known finding: an own p2pkh coin presented only through a witness_utxo with an understated value
            c("wd 0 p 0 o:k:u:v|wd 0 p 0 o:k:n:t|wd 0 p 0 o:w:u:v"),
            // a forged previous tx (txid mismatch) claiming a p2wpkh output for a legacy coin; both utxo forms disagreeing
            c("wd 1 n 0 o:w:n:t,f:k:x:w|wd 1 n 0 o:w:n:t,f:k:b:w"),
        ]
    }
    fn gen_case(&self, rng: &mut Rng, _tier: Tier) -> Vec<String> {
        let n = rng.range(2, 4);
        let mut ops = vec![];
        for _ in 0..n {
            let fund = rng.chance(3, 4);
            let unknown = rng.chance(1, 5);
            let approve = rng.chance(1, 2);
            let n_in = rng.range(1, 3) as usize;
            let mut ins = vec![];
            for i in 0..n_in {
                let own = i == 0 || rng.chance(1, 3);
                let ty = *rng.pick(&['w', 'w', 'w', 't', 'k', 's']);
                let pres = *rng.pick(&['n', 'n', 'n', 'u', 'u', 'b', 'x']);
                let claim = if pres == 'n' { 't' } else if pres == 'x' { 'w' } else { *rng.pick(&['w', 'w', 't', 't', 'v']) };
                ins.push(format!("{}:{}:{}:{}", if own { 'o' } else { 'f' }, ty, pres, claim));
            }
            ops.push(format!("wd {} {} {} {}{}", if fund { 1 } else { 0 }, if approve { 'p' } else { 'n' }, if unknown { 1 } else { 0 }, ins.join(","), if rng.chance(1, 3) { " o" } else { "" }));
        }
        ops
    }
    fn exec_case(&self, ops: &[String]) -> CaseOut {
        let mut co = CaseOut::default();
        let (mut acc, mut rej) = (false, false);
        for (i, op) in ops.iter().enumerate() {
            let t: Vec<&str> = op.split_whitespace().collect();
            let line = match t.as_slice() {
                ["wd", fund, ap, unk, ins] | ["wd", fund, ap, unk, ins, _] => match parse_ins(ins) {
                    Some(ins) => {
                        // a trailing `o`: the node runs vlsd's default OnchainValidatorFactory
                        let l = self.exec_wd(*fund == "1", *ap == "p", *unk == "1", t.get(5) == Some(&"o"), &ins, i, &mut co);
                        if l.starts_with("signed") { acc = true } else { rej = true }
                        l
                    }
                    None => "bad-op".into(),
                },
                _ => "bad-op".into(),
            };
            co.out.push(line);
        }
        co.nontrivial = acc && rej;
        co
    }
}
