//! C08, protocol entry point: a real `RootHandler` handling `SignWithdrawal` / `SignHtlcTxMingle` / `SignAnchorspend`
//! with a streamed PSBT built by the harness.  The segwit flags the policy sees are the ones the real `StreamedPSBT`
//! decoder produced from what the PSBT *presents* per input (previous tx supplied / only an unverifiable
//! `witness_utxo` / both / nothing at all), while the monitor judges by the TRUE script type and value of the coin each
//! input really spends, which only the harness knows.  No Lean model (the PSBT codec belongs to C19); monitors only.
//!
//! Op line (each op builds a fresh handler, so a panic poisons nothing):
//!   wd <fund 0|1> <approver n|p> <unknown-output 0|1> <inputs kind:type:pres:claim[:rec],..> [o] [m=<w|h|a|A>]
//!     kind  o = own wallet coin (key index 1+i, listed in `utxos`, gets signed) | f = somebody else's coin
//!     type  TRUE script type of the spent output: w p2wpkh | t p2tr | k p2pkh | s p2sh-p2wpkh
//!     pres  n = non_witness_utxo (previous tx) supplied | u = only witness_utxo | b = both
//!           x = a forged previous tx (wrong txid) whose output is the claimed script
//!           z = the PSBT input carries NEITHER witness_utxo NOR non_witness_utxo (the only description of the coin
//!               is then the node-supplied `Utxo` record of the request)
//!     claim (script in the witness_utxo) t = the true script | w = "p2wpkh of the same key"
//!           v = the true script with the value understated by 500_000 sat
//!     rec   (optional, default t; what the `Utxo` record of the request says for an own coin)
//!           t = true amount and script | v = true script, amount understated by 500_000 sat
//!           w = true amount, script "p2wpkh of the same key"
//!     o     the node runs vlsd's default OnchainValidatorFactory
//!     m=    message kind carrying the same utxos + PSBT: w SignWithdrawal (default) | h SignHtlcTxMingle (peer/dbid of
//!           no channel) | a SignAnchorspend for an EXISTING channel (peer/dbid made by new_channel + setup_channel; the
//!           harness appends that channel's anchor output as one more, foreign, segwit input) | A SignAnchorspend naming a
//!           channel that does not exist (sign_withdrawal runs, then the reply fails: no signatures are returned)
use super::{foreign_key, key_script, to_dp, NET};
use crate::common::*;
use lightning_signer::bitcoin::absolute::LockTime;
use lightning_signer::bitcoin::bip32::{DerivationPath, Fingerprint};
use lightning_signer::bitcoin::blockdata::constants::genesis_block;
use lightning_signer::bitcoin::consensus::deserialize;
use lightning_signer::bitcoin::hashes::Hash;
use lightning_signer::bitcoin::psbt::Psbt;
use lightning_signer::bitcoin::secp256k1::{PublicKey, Secp256k1};
use lightning_signer::bitcoin::transaction::Version;
use lightning_signer::bitcoin::{Amount, OutPoint, ScriptBuf, Sequence, Transaction, TxIn, TxOut, Txid, Witness};
use lightning_signer::node::NodeServices;
use lightning_signer::persist::Persist;
use lightning_signer::policy::simple_validator::SimpleValidatorFactory;
use lightning_signer::signer::ClockStartingTimeFactory;
use lightning_signer::util::clock::StandardClock;
use lightning_signer::util::test_utils::*;
use std::collections::BTreeMap;
use std::sync::Arc;
use vls_persist::kvv::memory::MemoryKVVStore;
use vls_persist::kvv::{JsonFormat, KVVPersister};
use vls_protocol::model::{Bip32KeyVersion, PubKey, Utxo};
use vls_protocol::msgs::{self, Message};
use vls_protocol::psbt::StreamedPSBT;
use vls_protocol::serde_bolt::{Array, Octets, WithSize};
use vls_protocol_signer::approver::{Approve, NegativeApprover, PositiveApprover};
use vls_protocol_signer::handler::{Handler, HandlerBuilder, RootHandler};

const UNDERSTATE: u64 = 500_000;
/// peer / dbid of the channel a SignAnchorspend (m=a) names; m=A and m=h name (PEER, NO_DBID), which never exists
const PEER: [u8; 33] = [2u8; 33];
const DBID: u64 = 7;
const NO_DBID: u64 = 99;

#[derive(Clone)]
struct In {
    own: bool,
    ty: char,
    pres: char,
    claim: char,
    rec: char,
}

impl In {
    fn show(&self) -> String {
        format!("{}{}{}{}", self.ty, self.pres, self.claim, if self.rec == 't' { String::new() } else { format!("/{}", self.rec) })
    }
    /// the value of the coin as the request presents it to the signer (what the transaction's outputs were sized for)
    fn presented(&self, value: u64) -> u64 {
        let under = match self.pres {
            'n' => false,
            'z' => self.own && self.rec == 'v',
            _ => self.claim == 'v',
        };
        if under { value - UNDERSTATE } else { value }
    }
    /// is the script the signer can see for this coin (if it sees any) the true one
    fn script_true(&self) -> bool {
        match self.pres {
            'n' => true,
            'z' => self.rec != 'w',
            _ => self.claim != 'w' || self.ty == 'w',
        }
    }
}

fn root_handler(approve: bool, onchain: bool) -> Option<RootHandler> {
    let persister = Arc::new(KVVPersister(MemoryKVVStore::new([1u8; 16]), JsonFormat));
    let services = NodeServices {
        validator_factory: if onchain { Arc::new(lightning_signer::policy::onchain_validator::OnchainValidatorFactory::new()) } else { Arc::new(SimpleValidatorFactory::new()) },
        starting_time_factory: ClockStartingTimeFactory::new(),
        persister: persister as Arc<dyn Persist>,
        clock: Arc::new(StandardClock()),
        trusted_oracle_pubkeys: vec![],
    };
    let approver: Arc<dyn Approve> = if approve { Arc::new(PositiveApprover()) } else { Arc::new(NegativeApprover()) };
    let mut init = HandlerBuilder::new(NET, 0, services, [0u8; 32]).approver(approver).build().ok()?;
    let (done, _reply) = init
        .handle(Message::HsmdInit(msgs::HsmdInit {
            key_version: Bip32KeyVersion { pubkey_version: 0x0488b21e, privkey_version: 0x0488ade4 },
            chain_params: genesis_block(NET).block_hash(),
            encryption_key: None,
            dev_privkey: None,
            dev_bip32_seed: None,
            dev_channel_secrets: None,
            dev_channel_secrets_shaseed: None,
            hsm_wire_min_version: msgs::MIN_PROTOCOL_VERSION,
            hsm_wire_max_version: msgs::DEFAULT_MAX_PROTOCOL_VERSION,
        }))
        .ok()?;
    if !done {
        return None;
    }
    Some(init.into())
}

pub struct C08Psbt;

impl C08Psbt {
    fn exec_wd(&self, fund: bool, approve: bool, unknown: bool, onchain: bool, msg: char, ins_in: &[In], at: usize, co: &mut CaseOut) -> String {
        let handler = match root_handler(approve, onchain) {
            Some(h) => h,
            None => return "harness-setup-failed handler".into(),
        };
        let node_ctx = TestNodeContext { node: Arc::clone(handler.node()), secp_ctx: Secp256k1::signing_only() };
        let node = node_ctx.node.clone();
        let secp = Secp256k1::new();
        let msg_name = match msg {
            'h' => "SignHtlcTxMingle",
            'a' | 'A' => "SignAnchorspend",
            _ => "SignWithdrawal",
        };
        // SignAnchorspend for an existing channel: the channel the message names, and its anchor output as one more input
        let mut ins: Vec<In> = ins_in.to_vec();
        let mut anchor_script: Option<ScriptBuf> = None;
        if msg == 'a' {
            let made = node.new_channel(DBID, &PEER, &node).and_then(|(cid, _)| {
                let mut setup = make_test_channel_setup();
                setup.funding_outpoint = OutPoint { txid: Txid::from_slice(&[0x5a; 32]).unwrap(), vout: 1 };
                node.setup_channel(cid.clone(), None, setup, &DerivationPath::master())?;
                node.with_channel(&cid, |c| Ok(c.get_anchor_redeemscript().to_p2wsh()))
            });
            match made {
                Ok(s) => {
                    anchor_script = Some(s);
                    ins.push(In { own: false, ty: 'a', pres: 'n', claim: 't', rec: 't' });
                }
                Err(st) => return format!("harness-setup-failed anchor channel: {}", st.message()),
            }
        }
        let ins = &ins[..];
        // the coins really spent
        let mut prev_txs = vec![];
        let mut keys = vec![];
        let mut total: u64 = 0; // as presented to the signer
        for (i, inp) in ins.iter().enumerate() {
            let pk: PublicKey = if inp.own {
                let x = node.get_account_extended_key().derive_priv(&secp, &to_dp(&[1 + i as u32])).unwrap();
                PublicKey::from_secret_key(&secp, &x.private_key)
            } else {
                foreign_key(4000 + i as u32)
            };
            let value = 2_000_000 + 1000 * i as u64;
            total += inp.presented(value);
            let script = match (&anchor_script, inp.ty) {
                (Some(s), 'a') => s.clone(),
                _ => key_script(&pk, inp.ty),
            };
            let ptx = Transaction {
                version: Version::TWO,
                lock_time: LockTime::ZERO,
                input: vec![TxIn { previous_output: OutPoint { txid: Txid::all_zeros(), vout: i as u32 }, script_sig: ScriptBuf::new(), sequence: Sequence::ZERO, witness: Witness::default() }],
                output: vec![TxOut { value: Amount::from_sat(value), script_pubkey: script }],
            };
            prev_txs.push(ptx);
            keys.push(pk);
        }
        let fee = 1_000u64;
        let unknown_amt = if unknown { 200_000 } else { 0 };
        let chan_amt = if fund { total / 2 } else { 0 };
        let change = total - fee - unknown_amt - chan_amt;
        let mut chan_ctx = if fund { Some(test_chan_ctx(&node_ctx, 1, chan_amt)) } else { None };
        let mut outputs = vec![];
        if let Some(c) = &chan_ctx {
            outputs.push(make_test_funding_channel_outpoint(&node, &c.setup, &c.channel_id, chan_amt));
        }
        let change_ndx = outputs.len();
        let change_pk = {
            let x = node.get_account_extended_key().derive_priv(&secp, &to_dp(&[77])).unwrap();
            PublicKey::from_secret_key(&secp, &x.private_key)
        };
        outputs.push(TxOut { value: Amount::from_sat(change), script_pubkey: key_script(&change_pk, 'w') });
        if unknown {
            outputs.push(TxOut { value: Amount::from_sat(unknown_amt), script_pubkey: key_script(&foreign_key(4100), 'w') });
        }
        let tx = Transaction {
            version: Version::TWO,
            lock_time: LockTime::ZERO,
            input: prev_txs.iter().map(|p| TxIn { previous_output: OutPoint { txid: p.compute_txid(), vout: 0 }, script_sig: ScriptBuf::new(), sequence: Sequence::ZERO, witness: Witness::default() }).collect(),
            output: outputs,
        };
        if let Some(c) = chan_ctx.as_mut() {
            if let Some(st) = funding_tx_setup_channel(&node_ctx, c, &tx, 0) {
                return format!("harness-setup-failed {}", st.message());
            }
            node.with_channel(&c.channel_id, |ch| {
                ch.enforcement_state.set_next_holder_commit_num_for_testing(1);
                Ok(())
            })
            .unwrap();
        }
        let psbt_weight = tx.weight().to_wu();
        let mut psbt = match Psbt::from_unsigned_tx(tx) {
            Ok(p) => p,
            Err(_) => return "harness-setup-failed psbt".into(),
        };
        let mut utxos = vec![];
        for (i, inp) in ins.iter().enumerate() {
            let true_out = prev_txs[i].output[0].clone();
            let claimed = match inp.claim {
                'w' => TxOut { value: true_out.value, script_pubkey: key_script(&keys[i], 'w') },
                'v' => TxOut { value: Amount::from_sat(true_out.value.to_sat() - UNDERSTATE), script_pubkey: true_out.script_pubkey.clone() },
                _ => true_out.clone(),
            };
            if inp.pres == 'n' || inp.pres == 'b' {
                psbt.inputs[i].non_witness_utxo = Some(prev_txs[i].clone());
            }
            if inp.pres == 'x' {
                // a forged previous tx: same shape, but its output is the claimed script (its txid does not match the outpoint)
                let mut fake = prev_txs[i].clone();
                fake.output[0] = claimed.clone();
                fake.lock_time = LockTime::from_consensus(1);
                psbt.inputs[i].non_witness_utxo = Some(fake);
            }
            if inp.pres == 'u' || inp.pres == 'b' {
                psbt.inputs[i].witness_utxo = Some(claimed);
            }
            // pres z: nothing at all in the PSBT input
            if inp.own {
                if inp.ty == 's' {
                    psbt.inputs[i].redeem_script = Some(key_script(&keys[i], 'w'));
                }
                // what the node-supplied record says about the coin
                let (rec_amount, rec_script) = match inp.rec {
                    'v' => (true_out.value.to_sat() - UNDERSTATE, true_out.script_pubkey.clone()),
                    'w' => (true_out.value.to_sat(), key_script(&keys[i], 'w')),
                    _ => (true_out.value.to_sat(), true_out.script_pubkey.clone()),
                };
                utxos.push(Utxo {
                    txid: prev_txs[i].compute_txid(),
                    outnum: 0,
                    amount: rec_amount,
                    keyindex: 1 + i as u32,
                    is_p2sh: inp.ty == 's',
                    script: Octets(rec_script.to_bytes()),
                    close_info: None,
                    is_in_coinbase: false,
                });
            }
        }
        let mut derivation = BTreeMap::new();
        let path: DerivationPath = to_dp(&[77]);
        derivation.insert(change_pk, (Fingerprint::default(), path));
        psbt.outputs[change_ndx].bip32_derivation = derivation;

        // through the wire encoding of the PSBT, as the real request does
        let streamed: StreamedPSBT = match deserialize(&psbt.serialize()) {
            Ok(s) => s,
            Err(_) => {
                co.tags.insert("wd:decode-error".into());
                return "decode-error".into();
            }
        };
        // the decoder must have refused a witness_utxo that disagrees with the supplied previous tx, and a forged previous tx
        if ins.iter().any(|i| (i.pres == 'b' && (i.claim == 'v' || (i.claim == 'w' && i.ty != 'w'))) || i.pres == 'x') {
            co.violations.push(Violation { kind: "psbt-utxo-mismatch-accepted".into(), desc: format!("the streamed PSBT decoder accepted inputs presented as {} (b+w/v: witness_utxo differs from the previous tx output; x: previous tx with the wrong txid)", ins.iter().map(|i| i.show()).collect::<Vec<_>>().join(",")), at });
        }
        let flags = streamed.segwit_flags.clone();
        for (i, inp) in ins.iter().enumerate() {
            if flags.get(i) == Some(&true) && (inp.pres == 'u' || inp.pres == 'z') {
                co.tags.insert("psbt:unverified-input-flagged-segwit".into());
            }
        }
        let any_z = ins.iter().any(|i| i.pres == 'z');
        // the reply carries the PSBT with the released witnesses; its type differs per message kind
        let res = std::panic::catch_unwind(std::panic::AssertUnwindSafe(|| {
            let utxos = Array(utxos);
            let psbt = WithSize(streamed);
            let m = match msg {
                'h' => Message::SignHtlcTxMingle(msgs::SignHtlcTxMingle { peer_id: PubKey(PEER), dbid: NO_DBID, utxos, psbt }),
                'a' => Message::SignAnchorspend(msgs::SignAnchorspend { peer_id: PubKey(PEER), dbid: DBID, utxos, psbt }),
                'A' => Message::SignAnchorspend(msgs::SignAnchorspend { peer_id: PubKey(PEER), dbid: NO_DBID, utxos, psbt }),
                _ => Message::SignWithdrawal(msgs::SignWithdrawal { utxos, psbt }),
            };
            handler.handle(m).map(|reply| {
                let any = reply.as_any();
                if let Some(r) = any.downcast_ref::<msgs::SignWithdrawalReply>() {
                    Some(r.psbt.0.inner.clone())
                } else if let Some(r) = any.downcast_ref::<msgs::SignHtlcTxMingleReply>() {
                    Some(r.psbt.0.inner.clone())
                } else if let Some(r) = any.downcast_ref::<msgs::SignAnchorspendReply>() {
                    Some(r.psbt.0.inner.clone())
                } else {
                    None
                }
            })
        }));
        let flags_s: String = flags.iter().map(|b| if *b { '1' } else { '0' }).collect();
        co.tags.insert(format!("wd:msg:{}", msg_name));
        match res {
            Err(_) => {
                co.tags.insert("wd:panic".into());
                if any_z {
                    co.tags.insert("wd:z-input:panic".into());
                }
                format!("panic flags={}", flags_s)
            }
            Ok(Err(e)) => {
                let m = format!("{:?}", e);
                let short = if m.contains("non-segwit-native") { "non-malleable" } else if m.contains("unapproved") { "unapproved" } else { "other" };
                co.tags.insert(format!("wd:refused:{}", short));
                if any_z {
                    co.tags.insert("wd:z-input:refused".into());
                }
                format!("refused:{} flags={}", short, flags_s)
            }
            Ok(Ok(signed)) => {
                // which inputs got a witness released
                let signed_in: Vec<bool> = (0..ins.len()).map(|i| signed.as_ref().and_then(|p| p.inputs.get(i)).map(|x| x.final_script_witness.is_some()).unwrap_or(false)).collect();
                let n_sigs = signed_in.iter().filter(|b| **b).count();
                co.tags.insert("wd:signed".into());
                co.tags.insert(format!("wd:signed:{}", msg_name));
                if any_z {
                    co.tags.insert("wd:z-input:signed".into());
                }
                if unknown && !approve {
                    co.violations.push(Violation { kind: "unapproved-destination-signed".into(), desc: format!("{} signed ({} witnesses) although the tx pays an unknown destination and the approver declined", msg_name, n_sigs), at });
                }
                // ---- monitor: the fee really paid (true input values) against the default max feerate; own coins only can
                // be lost, and only where the signature does not commit to the amount (legacy p2pkh).  Whatever the source of
                // the too-small value the signer worked with (an unverifiable witness_utxo, or - with nothing in the PSBT
                // input - the node-supplied Utxo record): the outputs were sized for the presented total, so the part of the
                // coin's true value above the presented one goes to the miners once the released signature is used.
                let mut hidden: u64 = 0;
                let mut via_record = false;
                let mut via_witness_utxo = false;
                for (i, inp) in ins.iter().enumerate() {
                    let value = prev_txs[i].output[0].value.to_sat();
                    if inp.own && inp.ty == 'k' && signed_in[i] && inp.script_true() && inp.presented(value) < value {
                        hidden += value - inp.presented(value);
                        if inp.pres == 'z' { via_record = true } else { via_witness_utxo = true }
                    }
                }
                if !unknown && hidden > 0 {
                    let w = psbt_weight as u128 + 110 * ins.len() as u128;
                    let true_fee = (fee + hidden) as u128;
                    if (true_fee * 1000 + 999) / w > 333_333 {
                        if via_witness_utxo {
                            co.violations.push(Violation { kind: "legacy-input-value-unverified".into(), desc: format!("{} signed a tx that really pays {} sat of fee ({} sat/kw) from an own p2pkh coin whose value was understated in an unverified witness_utxo", msg_name, true_fee, (true_fee * 1000 + 999) / w), at });
                        }
                        if via_record {
                            co.violations.push(Violation { kind: "input-value-from-unverified-record".into(), desc: format!("{} signed a tx that really pays {} sat of fee ({} sat/kw, policy max 333333) from an own p2pkh coin that the PSBT does not describe at all (no witness_utxo, no previous tx): the only value the signer can have used is the node-supplied Utxo record, which understates the coin by {} sat; inputs {}", msg_name, true_fee, (true_fee * 1000 + 999) / w, UNDERSTATE, ins.iter().map(|i| i.show()).collect::<Vec<_>>().join(",")), at });
                        }
                    }
                }
                // ---- monitor: judged by the TRUE type of the coins
                let legacy: Vec<usize> = ins.iter().enumerate().filter(|(_, i)| !"wta".contains(i.ty)).map(|(k, _)| k).collect();
                if fund && !legacy.is_empty() {
                    co.violations.push(Violation {
                        kind: "funding-non-segwit-input-accepted".into(),
                        desc: format!(
                            "{} signed ({} witnesses released) a tx funding a channel although input(s) {:?} really spend non-segwit-native outputs; presented as {}; decoded segwit_flags = {}",
                            msg_name, n_sigs, legacy,
                            ins.iter().map(|i| i.show()).collect::<Vec<_>>().join(","), flags_s),
                        at,
                    });
                }
                format!("signed sigs={} flags={}", n_sigs, flags_s)
            }
        }
    }
}

fn parse_ins(s: &str) -> Option<Vec<In>> {
    s.split(',')
        .map(|x| {
            let p: Vec<&str> = x.split(':').collect();
            if p.len() != 4 && p.len() != 5 {
                return None;
            }
            let ty = p[1].chars().next()?;
            if !"wtks".contains(ty) {
                return None;
            }
            Some(In { own: p[0] == "o", ty, pres: p[2].chars().next()?, claim: p[3].chars().next()?, rec: p.get(4).and_then(|r| r.chars().next()).unwrap_or('t') })
        })
        .collect()
}

impl Group for C08Psbt {
    fn property(&self) -> &'static str { "C08" }
    fn model(&self) -> Option<&'static str> { None }
    fn rule(&self) -> &'static str {
        "protocol entry point: real RootHandler (HsmdInit, Positive/NegativeApprover, KVV persister) handling the same request as \
         SignWithdrawal, SignHtlcTxMingle or SignAnchorspend (existing channel with its anchor input / non-existing channel) with a \
         harness-built streamed PSBT: 1-3 inputs (own wallet coins that get signed / foreign coins; true type p2wpkh, p2tr, p2pkh, \
         p2sh-p2wpkh; previous tx supplied, only a witness_utxo - honest, claiming p2wpkh or understating the value -, both, or nothing \
         at all in the PSBT input while the node-supplied Utxo record states the true amount, an understated amount or another script), \
         optionally funding a validated channel and paying an unknown destination; the monitors judge by the true prevout script types \
         and values; non-trivial = one signed and one refused request"
    }
    fn budget(&self, tier: Tier) -> usize { if tier == Tier::Quick { 500 } else { 10000 } }
    fn corpus(&self) -> Vec<Vec<String>> {
        let c = |s: &str| s.split('|').map(|x| x.to_string()).collect::<Vec<String>>();
        vec![
            // verified segwit inputs: signed; verified legacy input: refused; legacy coin behind an unverifiable p2wpkh claim: refused
            c("wd 1 n 0 o:w:n:t,f:w:n:t|wd 1 n 0 o:w:n:t,f:k:n:t|wd 1 n 0 o:w:n:t,f:k:u:w"),
            // not funding a channel: a legacy input is fine
            c("wd 0 n 0 o:w:n:t,f:k:n:t|wd 0 p 1 o:w:n:t|wd 0 n 1 o:w:n:t"),
            // known finding: an own p2pkh coin presented only through a witness_utxo with an understated value
            c("wd 0 p 0 o:k:u:v|wd 0 p 0 o:k:n:t|wd 0 p 0 o:w:u:v"),
            // a forged previous tx (txid mismatch) claiming a p2wpkh output for a legacy coin; both utxo forms disagreeing
            c("wd 1 n 0 o:w:n:t,f:k:x:w|wd 1 n 0 o:w:n:t,f:k:b:w"),
            // the same request through the three message kinds: an unknown destination with a declining approver is refused by all
            // of them, without it SignHtlcTxMingle / SignAnchorspend (existing channel + its anchor input) sign
            c("wd 0 n 1 o:w:n:t m=h|wd 0 n 1 o:w:n:t m=a|wd 0 n 1 o:w:n:t m=A|wd 0 n 0 o:w:n:t m=h|wd 0 n 0 o:w:n:t m=a|wd 0 n 0 o:w:n:t m=A"),
            // a PSBT input that describes nothing (no witness_utxo, no previous tx): an own p2pkh coin whose Utxo record understates
            // the amount must not be signed on the strength of that record, through any message kind
            c("wd 0 p 0 o:k:z:t:v|wd 0 p 0 o:k:z:t:v m=h|wd 0 p 0 o:k:z:t:t|wd 0 p 0 o:k:n:t:v"),
            c("wd 0 n 0 o:w:n:t,o:k:z:t:v m=a|wd 0 n 0 o:w:z:t:v|wd 0 n 0 o:k:z:t:w|wd 0 n 0 o:w:n:t"),
        ]
    }
    fn gen_case(&self, rng: &mut Rng, _tier: Tier) -> Vec<String> {
        let n = rng.range(2, 4);
        let mut ops = vec![];
        for _ in 0..n {
            let unknown = rng.chance(1, 5);
            let approve = rng.chance(1, 2);
            let n_in = rng.range(1, 3) as usize;
            let mut ins = vec![];
            let mut any_legacy = false;
            for i in 0..n_in {
                let own = i == 0 || rng.chance(1, 3);
                let ty = *rng.pick(&['w', 'w', 'w', 't', 'k', 's']);
                any_legacy |= ty == 'k' || ty == 's';
                let pres = *rng.pick(&['n', 'n', 'n', 'u', 'u', 'b', 'x', 'z', 'z']);
                let claim = if pres == 'n' || pres == 'z' { 't' } else if pres == 'x' { 'w' } else { *rng.pick(&['w', 'w', 't', 't', 'v']) };
                // what the Utxo record says: matters (if at all) where the PSBT says nothing
                let rec = if !own { 't' } else if pres == 'z' { *rng.pick(&['t', 'v', 'v', 'w']) } else { *rng.pick(&['t', 't', 't', 't', 'v', 'w']) };
                ins.push(format!("{}:{}:{}:{}{}", if own { 'o' } else { 'f' }, ty, pres, claim, if rec == 't' { String::new() } else { format!(":{}", rec) }));
            }
            // a channel-funding tx with a legacy input is always refused: fund those less often
            let fund = if any_legacy { rng.chance(1, 2) } else { rng.chance(3, 4) };
            let msg = *rng.pick(&['w', 'w', 'w', 'w', 'h', 'h', 'a', 'A']);
            ops.push(format!(
                "wd {} {} {} {}{}{}",
                if fund { 1 } else { 0 },
                if approve { 'p' } else { 'n' },
                if unknown { 1 } else { 0 },
                ins.join(","),
                if rng.chance(1, 3) { " o" } else { "" },
                if msg == 'w' { String::new() } else { format!(" m={}", msg) }
            ));
        }
        ops
    }
    fn exec_case(&self, ops: &[String]) -> CaseOut {
        let mut co = CaseOut::default();
        let (mut acc, mut rej) = (false, false);
        for (i, op) in ops.iter().enumerate() {
            let t: Vec<&str> = op.split_whitespace().collect();
            let line = match t.as_slice() {
                ["wd", fund, ap, unk, ins, rest @ ..] if rest.iter().all(|r| *r == "o" || ["m=w", "m=h", "m=a", "m=A"].contains(r)) => match parse_ins(ins) {
                    Some(ins) => {
                        // a trailing `o`: the node runs vlsd's default OnchainValidatorFactory; `m=<k>`: the message kind
                        let onchain = rest.contains(&"o");
                        let msg = rest.iter().find_map(|r| r.strip_prefix("m=")).and_then(|k| k.chars().next()).unwrap_or('w');
                        let l = self.exec_wd(*fund == "1", *ap == "p", *unk == "1", onchain, msg, &ins, i, &mut co);
                        if l.starts_with("signed") { acc = true } else { rej = true }
                        l
                    }
                    None => "bad-op".into(),
                },
                _ => "bad-op".into(),
            };
            co.out.push(line);
        }
        co.nontrivial = acc && rej;
        co
    }
}
