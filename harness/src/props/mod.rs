pub mod c12;
