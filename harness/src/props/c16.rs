//! C16 — the key-version-value stores never roll back and agree with each other.
//!
//! Two groups:
//!  * `C16Pair` (model `kvv_pair`): every case is run on a real `MemoryKVVStore` **and** on a real
//!    `RedbKVVStore` in a fresh temp dir (dropped and re-created from the same directory at `reopen`
//!    ops); one output line per op holds both results, both full `get_prefix("")` dumps and the
//!    `get_version` probes of the redb version cache.
//!  * `C16Cloud` (model `kvv_cloud`): `CloudKVVStore<MemoryKVVStore>` with enter/prepare/commit.
//!
//! Case plan (both groups): breadth-first exploration of *all* request sequences up to the tier's
//! depth over the small alphabet (2 keys × 3 versions × 2 values × all ops incl. put_batch with ≤ 2
//! entries and repeated keys), collapsed on equality of the complete observable state of the real
//! stores, followed by random long sequences with extreme versions.
//!
//! Monitors (ghost ledger on the implementation trace, independent of the Lean model): versions
//! never decrease, same version ⇒ same content (whole history), batch atomicity, read = last
//! accepted write, reopen keeps contents and version cache, memory ≡ redb (every divergence, batches
//! repeating a key included, is a violation since the F8 fix), cloud read-your-writes,
//! cloud local store changes only at commit and by exactly the mutations `prepare` reported.
use crate::common::*;
use lightning_signer::persist::Error;
use std::collections::{BTreeMap, BTreeSet, HashMap};
use std::panic::{catch_unwind, AssertUnwindSafe};
use std::sync::atomic::{AtomicUsize, Ordering};
use std::sync::{Mutex, OnceLock};
use vls_persist::kvv::cloud::CloudKVVStore;
use vls_persist::kvv::memory::MemoryKVVStore;
use vls_persist::kvv::redb::RedbKVVStore;
use vls_persist::kvv::{KVVStore, KVV};

#[path = "c16_persist.rs"]
mod persist;

type Rec = (u64, Vec<u8>);
type Dump = Vec<(u64, Rec)>; // key id, record — in the order the store returned them

const SID: [u8; 16] = [7u8; 16];

fn key_name(k: u64) -> String {
    if k == 0 {
        "_WRITER".to_string()
    } else {
        format!("k{}", k)
    }
}

fn key_id(s: &str) -> u64 {
    if s == "_WRITER" {
        0
    } else {
        s.trim_start_matches('k').parse().unwrap_or(99)
    }
}

fn hexs(b: &[u8]) -> String {
    if b.is_empty() {
        "-".into()
    } else {
        hex::encode(b)
    }
}

fn unhex(s: &str) -> Vec<u8> {
    if s == "-" {
        vec![]
    } else {
        hex::decode(s).expect("hex")
    }
}

fn show_rec(r: &Rec) -> String {
    format!("{}:{}", r.0, hexs(&r.1))
}

fn show_dump(d: &Dump) -> String {
    let v: Vec<String> = d.iter().map(|(k, r)| format!("{}:{}", k, show_rec(r))).collect();
    format!("[{}]", v.join(","))
}

#[derive(Clone, Debug, PartialEq)]
enum Op {
    Put(u64, Vec<u8>),
    PutV(u64, u64, Vec<u8>),
    Batch(Vec<(u64, Rec)>),
    Del(u64),
    Get(u64),
    GetVer(u64),
    Prefix(String),
    Reopen,
    Enter,
    Prepare,
    Commit,
}

fn prefix_string(p: &str) -> String {
    match p {
        "all" => "".into(),
        "w" => "_".into(),
        other => other.to_string(), // "k", "k1", "zz"
    }
}

fn parse_op(line: &str) -> Op {
    let t: Vec<&str> = line.split(' ').filter(|s| !s.is_empty()).collect();
    let n = |s: &str| s.parse::<u64>().expect("number");
    match t[0] {
        "put" => Op::Put(n(t[1]), unhex(t[2])),
        "putv" => Op::PutV(n(t[1]), n(t[2]), unhex(t[3])),
        "batch" => {
            let mut es = Vec::new();
            let mut i = 1;
            while i + 2 < t.len() {
                es.push((n(t[i]), (n(t[i + 1]), unhex(t[i + 2]))));
                i += 3;
            }
            Op::Batch(es)
        }
        "del" => Op::Del(n(t[1])),
        "get" => Op::Get(n(t[1])),
        "getver" => Op::GetVer(n(t[1])),
        "prefix" => Op::Prefix(t[1].to_string()),
        "reopen" => Op::Reopen,
        "enter" => Op::Enter,
        "prepare" => Op::Prepare,
        "commit" => Op::Commit,
        x => panic!("unknown op {}", x),
    }
}

fn res_class(r: &Result<(), Error>) -> String {
    match r {
        Ok(()) => "ok".into(),
        Err(Error::VersionMismatch) => "mismatch".into(),
        Err(_) => "err".into(),
    }
}

/// Run one op on any store; `Err(())` = the call panicked.  `ns` is a key namespace prepended to every
/// key and prefix (empty for the per-case stores; `c<n>/` for the pooled redb database, see `RedbPool`).
fn apply<S: KVVStore>(s: &S, op: &Op, ns: &str) -> Result<String, ()> {
    let key_name = |k: u64| format!("{}{}", ns, key_name(k));
    let kvvs = |es: &[(u64, Rec)]| -> Vec<KVV> { es.iter().map(|(k, r)| KVV(key_name(*k), r.clone())).collect() };
    let collect = |it: S::Iter| -> Dump { it.map(|kvv| (key_id(&kvv.0[ns.len()..]), kvv.1)).collect() };
    let prefix_string = |p: &str| format!("{}{}", ns, prefix_string(p));
    catch_unwind(AssertUnwindSafe(|| match op {
        Op::Put(k, x) => res_class(&s.put(&key_name(*k), x.clone())),
        Op::PutV(k, v, x) => res_class(&s.put_with_version(&key_name(*k), *v, x.clone())),
        Op::Batch(es) => res_class(&s.put_batch(kvvs(es))),
        Op::Del(k) => res_class(&s.delete(&key_name(*k))),
        Op::Get(k) => match s.get(&key_name(*k)) {
            Ok(Some(r)) => format!("got {}", show_rec(&r)),
            Ok(None) => "got none".into(),
            Err(_) => "err".into(),
        },
        Op::GetVer(k) => match s.get_version(&key_name(*k)) {
            Ok(Some(v)) => format!("ver {}", v),
            Ok(None) => "ver none".into(),
            Err(_) => "err".into(),
        },
        Op::Prefix(p) => match s.get_prefix(&prefix_string(p)) {
            Ok(it) => format!("list {}", show_dump(&collect(it))),
            Err(_) => "err".into(),
        },
        Op::Reopen => "ok".into(),
        Op::Enter => res_class(&s.enter()),
        Op::Prepare => {
            let m = s.prepare();
            let d: Dump = m.into_iter().map(|(k, r)| (key_id(&k[ns.len()..]), r)).collect();
            format!("list {}", show_dump(&d))
        }
        Op::Commit => res_class(&s.commit()),
    }))
    .map_err(|_| ())
}

fn full_dump_ns<S: KVVStore>(s: &S, ns: &str) -> Dump {
    s.get_prefix(ns).expect("get_prefix").map(|kvv| (key_id(&kvv.0[ns.len()..]), kvv.1)).collect()
}

fn full_dump<S: KVVStore>(s: &S) -> Dump {
    full_dump_ns(s, "")
}

fn as_map(d: &Dump) -> BTreeMap<u64, Rec> {
    d.iter().cloned().collect()
}

/// the records an accepted write request puts, in order (needs the ledger for `put`/`delete`)
fn written(op: &Op, ledger: &BTreeMap<u64, Rec>) -> Option<Vec<(u64, Rec)>> {
    let next = |k: &u64| ledger.get(k).map(|r| r.0.wrapping_add(1)).unwrap_or(0);
    match op {
        Op::Put(k, x) => Some(vec![(*k, (next(k), x.clone()))]),
        Op::Del(k) => Some(vec![(*k, (next(k), vec![]))]),
        Op::PutV(k, v, x) => Some(vec![(*k, (*v, x.clone()))]),
        Op::Batch(es) => Some(es.clone()),
        _ => None,
    }
}

fn batch_repeats_key(op: &Op) -> bool {
    if let Op::Batch(es) = op {
        let ks: BTreeSet<u64> = es.iter().map(|e| e.0).collect();
        ks.len() < es.len()
    } else {
        false
    }
}

/// Ghost ledger of one (non-staged) backend: evaluates the per-backend clauses of the property.
#[derive(Default)]
struct Ghost {
    name: &'static str,
    prev: BTreeMap<u64, Rec>,
    seen: HashMap<(u64, u64), Vec<u8>>,
    ledger: BTreeMap<u64, Rec>,
}

impl Ghost {
    fn new(name: &'static str) -> Self {
        Ghost { name, ..Default::default() }
    }

    fn observe(&mut self, at: usize, op: &Op, out: &str, dump: &Dump, viol: &mut Vec<Violation>) {
        let cur = as_map(dump);
        let n = self.name;
        let mut push = |kind: &str, desc: String| {
            viol.push(Violation { kind: kind.into(), desc: format!("{}: {}", n, desc), at })
        };
        // versions never decrease, keys never vanish
        for (k, (v, x)) in &self.prev {
            match cur.get(k) {
                None => push("c16-version-decreased", format!("key {} vanished", key_name(*k))),
                Some((v2, x2)) => {
                    if v2 < v {
                        push("c16-version-decreased", format!("key {} went from version {} to {}", key_name(*k), v, v2));
                    } else if v2 == v && x2 != x {
                        push("c16-same-version-content-changed",
                             format!("key {} version {} changed content {} -> {}", key_name(*k), v, hexs(x), hexs(x2)));
                    }
                }
            }
        }
        // same version ⇒ same content over the whole history of the committed store
        for (k, (v, x)) in &cur {
            match self.seen.get(&(*k, *v)) {
                Some(old) if old != x => push("c16-same-version-content-changed",
                    format!("key {} version {} held {} earlier and {} now", key_name(*k), v, hexs(old), hexs(x))),
                _ => { self.seen.insert((*k, *v), x.clone()); }
            }
        }
        // batch atomicity
        if let Op::Batch(es) = op {
            if out == "ok" {
                let mut last: BTreeMap<u64, Rec> = BTreeMap::new();
                for (k, r) in es { last.insert(*k, r.clone()); }
                for (k, r) in &last {
                    if cur.get(k) != Some(r) {
                        push("c16-batch-not-atomic", format!("accepted batch: key {} is {:?}, batch wrote {}",
                            key_name(*k), cur.get(k).map(show_rec), show_rec(r)));
                    }
                }
                for (k, r) in &self.prev {
                    if !last.contains_key(k) && cur.get(k) != Some(r) {
                        push("c16-batch-not-atomic", format!("accepted batch changed key {} outside the batch", key_name(*k)));
                    }
                }
            } else if cur != self.prev {
                push("c16-batch-not-atomic", format!("refused batch ({}) changed the store: {} -> {}", out,
                    show_dump(&self.prev.clone().into_iter().collect()), show_dump(dump)));
            }
        }
        // single-write acceptance rules, judged against the committed store before the request
        match op {
            Op::Put(k, _) | Op::Del(k) => {
                // put/delete choose their own version (committed + 1): they are never refused
                if out == "mismatch" {
                    push("c16-put-refused", format!("`put`/`delete` of key {} was refused with VersionMismatch (committed: {:?})",
                        key_name(*k), self.prev.get(k).map(show_rec)));
                }
            }
            Op::PutV(k, v, x) => {
                if let Some((v0, x0)) = self.prev.get(k) {
                    if v == v0 && x == x0 && out != "ok" {
                        push("c16-idempotent-rewrite-refused", format!("put_with_version repeating the committed record {}:{} of key {} returned {}",
                            v0, hexs(x0), key_name(*k), out));
                    }
                    if v == v0 && x != x0 && out == "ok" {
                        push("c16-same-version-other-content-accepted", format!("put_with_version of key {} at the committed version {} with other content ({} instead of {}) returned ok",
                            key_name(*k), v0, hexs(x), hexs(x0)));
                    }
                    if v < v0 && out == "ok" {
                        push("c16-lower-version-accepted", format!("put_with_version of key {} at version {} below the committed {} returned ok", key_name(*k), v, v0));
                    }
                }
            }
            _ => {}
        }
        // read = last accepted write
        if out == "ok" {
            if let Some(ws) = written(op, &self.ledger) {
                for (k, r) in ws { self.ledger.insert(k, r); }
            }
        }
        if cur != self.ledger {
            push("c16-read-not-last-write", format!("store holds {} but the accepted writes so far give {}",
                show_dump(dump), show_dump(&self.ledger.clone().into_iter().collect())));
            self.ledger = cur.clone(); // report once
        }
        if let Op::Get(k) = op {
            let want = match self.ledger.get(k) { Some(r) => format!("got {}", show_rec(r)), None => "got none".into() };
            if out != want {
                push("c16-read-not-last-write", format!("get {} returned `{}`, last accepted write gives `{}`", key_name(*k), out, want));
            }
        }
        self.prev = cur;
    }
}

// ------------------------------------------------------------------------------------------------
// memory + redb

struct PairOut {
    case: CaseOut,
    state_key: String,
}

fn redb_probe(r: &RedbKVVStore, ns: &str) -> String {
    let v: Vec<String> = (0..4u64)
        .map(|k| match r.get_version(&format!("{}{}", ns, key_name(k))) { Ok(Some(v)) => v.to_string(), _ => "-".into() })
        .collect();
    format!("[{}]", v.join(","))
}

/// Creating a redb database costs ~30 ms of CPU (region initialisation + integrity check), far more than
/// the requests of a case.  Cases therefore share one real database file per 1000 cases and are isolated by
/// a per-case key namespace `c<n>/` (the store keeps one table entry and one cached version per key, so a
/// fresh namespace is a fresh store as far as the property is concerned); `reopen` drops the handle and
/// opens the same file again with `RedbKVVStore::new`, exactly as a restart does.
struct RedbPool {
    dir: tempfile::TempDir,
    store: Option<RedbKVVStore>,
    cases: usize,
}

thread_local! {
    static POOL: std::cell::RefCell<Option<RedbPool>> = std::cell::RefCell::new(None);
    static NS: std::cell::Cell<usize> = std::cell::Cell::new(0);
}

impl RedbPool {
    fn fresh() -> RedbPool {
        let dir = scratch_dir();
        let store = Some(RedbKVVStore::new(dir.path()));
        RedbPool { dir, store, cases: 0 }
    }
    fn reopen(&mut self) {
        drop(self.store.take());
        self.store = Some(RedbKVVStore::new(self.dir.path()));
    }
    fn st(&self) -> &RedbKVVStore {
        self.store.as_ref().unwrap()
    }
}

/// redb files live on a memory file system when there is one: every write transaction fsyncs, and the
/// durability of fsync is outside this check (DESIGN §1.3); `VERIF_TMP` overrides the location
fn scratch_dir() -> tempfile::TempDir {
    if let Ok(d) = std::env::var("VERIF_TMP") {
        return tempfile::tempdir_in(d).expect("tempdir");
    }
    if std::path::Path::new("/dev/shm").is_dir() {
        if let Ok(d) = tempfile::tempdir_in("/dev/shm") {
            return d;
        }
    }
    tempfile::tempdir().expect("tempdir")
}

fn run_pair(ops: &[String]) -> PairOut {
    let mem = MemoryKVVStore::new(SID);
    let mut pool = POOL.with(|p| p.borrow_mut().take()).filter(|p| p.cases < 1000 && p.store.is_some()).unwrap_or_else(RedbPool::fresh);
    pool.cases += 1;
    let ns = NS.with(|n| { n.set(n.get() + 1); format!("c{}/", n.get()) });
    let ns = ns.as_str();
    let mut co = CaseOut::default();
    let (mut gm, mut gr) = (Ghost::new("memory"), Ghost::new("redb"));
    let mut diverged = false;
    let (mut accepted, mut refused) = (false, false);
    let mut state_key = String::new();
    for (i, line) in ops.iter().enumerate() {
        let op = parse_op(line);
        // memory
        let om = apply(&mem, &op, "").unwrap_or_else(|_| "panic".into());
        // (a store whose own mutex got poisoned by a panic can no longer be dumped: report that instead of
        // aborting the case; cannot happen on the unchanged tree, where memory panics outside its lock)
        let dm = catch_unwind(AssertUnwindSafe(|| full_dump(&mem))).unwrap_or_else(|_| vec![(99, (0, b"poisoned".to_vec()))]);
        // redb
        let before = full_dump_ns(pool.st(), ns);
        let probe_before = redb_probe(pool.st(), ns);
        let or = if op == Op::Reopen {
            pool.reopen();
            "ok".to_string()
        } else {
            match apply(pool.st(), &op, ns) {
                Ok(s) => s,
                Err(()) => {
                    // the handle's `versions` mutex may be poisoned now; a poisoned handle is not
                    // modelled: continue on a fresh handle over the same file
                    pool.reopen();
                    "panic".to_string()
                }
            }
        };
        let dr = full_dump_ns(pool.st(), ns);
        let probe = redb_probe(pool.st(), ns);
        if op == Op::Reopen && (before != dr || probe_before != probe) {
            co.violations.push(Violation {
                kind: "c16-reopen-changed-contents".into(),
                desc: format!("redb before reopen {} V {}, after {} V {}", show_dump(&before), probe_before, show_dump(&dr), probe),
                at: i,
            });
        }
        gm.observe(i, &op, &om, &dm, &mut co.violations);
        gr.observe(i, &op, &or, &dr, &mut co.violations);
        // the version cache must agree with the table (observable through get_version)
        {
            let m = as_map(&dr);
            let want: Vec<String> = (0..4u64).map(|k| m.get(&k).map(|r| r.0.to_string()).unwrap_or("-".into())).collect();
            let want = format!("[{}]", want.join(","));
            if want != probe {
                co.violations.push(Violation {
                    kind: "c16-redb-cache-differs-from-table".into(),
                    desc: format!("redb get_version gives {} but the table holds versions {}", probe, want),
                    at: i,
                });
            }
        }
        if !diverged && (om != or || dm != dr) {
            diverged = true;
            co.violations.push(Violation {
                kind: "c16-mem-redb-differ".into(),
                desc: format!("`{}`: memory -> {} {} ; redb -> {} {}", line, om, show_dump(&dm), or, show_dump(&dr)),
                at: i,
            });
            co.tags.insert("diverged".into());
        }
        for (n, o) in [("mem", &om), ("redb", &or)] {
            let class = o.split(' ').next().unwrap_or("");
            co.tags.insert(format!("{}:{}:{}", n, line.split(' ').next().unwrap_or(""), class));
        }
        if matches!(op, Op::Put(..) | Op::PutV(..) | Op::Batch(..) | Op::Del(..)) {
            if om == "ok" { accepted = true } else { refused = true }
        }
        if batch_repeats_key(&op) { co.tags.insert("batch-repeats-key".into()); }
        state_key = format!("D {} | D {} V {}", show_dump(&dm), show_dump(&dr), probe);
        co.out.push(format!("M {} D {} | R {} D {} V {}", om, show_dump(&dm), or, show_dump(&dr), probe));
    }
    co.nontrivial = accepted && refused;
    POOL.with(|p| *p.borrow_mut() = Some(pool));
    PairOut { case: co, state_key }
}

fn vals() -> [&'static str; 2] {
    ["aa", "bb"]
}

fn entry_alphabet() -> Vec<String> {
    let mut v = Vec::new();
    for k in 1..=2u64 {
        for ver in 0..3u64 {
            for x in vals() {
                v.push(format!("{} {} {}", k, ver, x));
            }
        }
    }
    v
}

fn write_alphabet() -> Vec<String> {
    let mut a = Vec::new();
    for k in 1..=2u64 {
        for x in vals() {
            a.push(format!("put {} {}", k, x));
        }
        a.push(format!("del {}", k));
    }
    let es = entry_alphabet();
    for e in &es {
        a.push(format!("putv {}", e));
    }
    a.push("batch".to_string());
    for e in &es {
        a.push(format!("batch {}", e));
    }
    for e in &es {
        for f in &es {
            a.push(format!("batch {} {}", e, f));
        }
    }
    a
}

fn pair_alphabet() -> Vec<String> {
    let mut a = write_alphabet();
    for k in 1..=2u64 {
        a.push(format!("get {}", k));
        a.push(format!("getver {}", k));
    }
    a.push("prefix all".into());
    a.push("prefix k1".into());
    a.push("reopen".into());
    a
}

fn cloud_alphabet() -> Vec<String> {
    let mut a = write_alphabet();
    for k in 0..=2u64 {
        a.push(format!("get {}", k));
    }
    a.push("getver 1".into());
    a.push("prefix all".into());
    a.push("enter".into());
    a.push("prepare".into());
    a.push("commit".into());
    a
}

/// All sequences of length ≤ depth over `alphabet`, collapsed on the state key `run` reports:
/// every op is tried from one representative sequence of every distinct reachable state.
fn bfs_plan(
    alphabet: &[String],
    depth: usize,
    max_cases: usize,
    run: &dyn Fn(&[String]) -> (CaseOut, String),
    cache: &Mutex<HashMap<String, CaseOut>>,
) -> (Vec<Vec<String>>, Vec<usize>) {
    let mut cases = Vec::new();
    let mut seen: BTreeSet<String> = BTreeSet::new();
    let mut frontier: Vec<Vec<String>> = vec![vec![]];
    let mut states_per_depth = Vec::new();
    seen.insert(run(&[]).1);
    'outer: for _d in 0..depth {
        let mut next = Vec::new();
        for rep in &frontier {
            for op in alphabet {
                let mut c = rep.clone();
                c.push(op.clone());
                let (out, key) = run(&c);
                cache.lock().unwrap().insert(c.join("\n"), out);
                if seen.insert(key) {
                    next.push(c.clone());
                }
                cases.push(c);
                if cases.len() >= max_cases {
                    states_per_depth.push(next.len());
                    break 'outer;
                }
            }
        }
        states_per_depth.push(next.len());
        frontier = next;
    }
    (cases, states_per_depth)
}

fn rand_val(rng: &mut Rng) -> String {
    match rng.below(6) {
        0 => "-".into(),
        1 | 2 => "aa".into(),
        3 => "bb".into(),
        4 => "aabb".into(),
        _ => { let n = 1 + rng.below(3) as usize; hex::encode(rng.bytes(n)) }
    }
}

fn rand_ver(rng: &mut Rng) -> u64 {
    match rng.below(12) {
        0..=6 => rng.below(4),
        7 => rng.below(8),
        8 => if rng.chance(1, 3) { u64::MAX } else { u64::MAX - 1 },
        9 => u64::MAX - 1 - rng.below(2),
        10 => 1u64 << 32,
        _ => rng.below(3),
    }
}

fn rand_write(rng: &mut Rng) -> String {
    let k = rng.range(1, 3);
    match rng.below(10) {
        0 | 1 => format!("put {} {}", k, rand_val(rng)),
        2 => format!("del {}", k),
        3 | 4 | 5 => format!("putv {} {} {}", k, rand_ver(rng), rand_val(rng)),
        _ => {
            let n = rng.below(4);
            let mut s = "batch".to_string();
            let mut lastk = k;
            for _ in 0..n {
                let kk = if rng.chance(1, 3) { lastk } else { rng.range(1, 3) };
                lastk = kk;
                s += &format!(" {} {} {}", kk, rand_ver(rng), rand_val(rng));
            }
            s
        }
    }
}

pub struct C16Pair {
    plan: OnceLock<Vec<Vec<String>>>,
    next: AtomicUsize,
    cache: Mutex<HashMap<String, CaseOut>>,
}

impl C16Pair {
    fn plan(&self, tier: Tier) -> &Vec<Vec<String>> {
        self.plan.get_or_init(|| {
            let (depth, max) = if tier == Tier::Quick { (4, 45_000) } else { (6, 250_000) };
            let run = |ops: &[String]| {
                let r = run_pair(ops);
                (r.case, r.state_key)
            };
            let (cases, per_depth) = bfs_plan(&pair_alphabet(), depth, max, &run, &self.cache);
            eprintln!("C16Pair: {} enumerated cases, new states per depth {:?}", cases.len(), per_depth);
            cases
        })
    }
    fn random_budget(tier: Tier) -> usize {
        if tier == Tier::Quick { 800 } else { 12_000 }
    }
}

impl Group for C16Pair {
    fn property(&self) -> &'static str { "C16" }
    fn model(&self) -> Option<&'static str> { Some("kvv_pair") }
    fn rule(&self) -> &'static str {
        "memory+redb: every request sequence up to length 4 (quick) / 6 (thorough) over {put, put_with_version, \
         put_batch(0..2 entries incl. repeated key), delete, get, get_version, get_prefix, reopen} x 2 keys x versions 0..2 \
         x 2 values, explored breadth-first modulo equality of the complete observable state of both real stores (dumps + \
         redb get_version probes), capped at 45k/250k cases; then random sequences of 5..60 requests over 3 keys with versions \
         near 0, 2^32 and u64::MAX; a case is non-trivial when it contains an accepted and a refused write"
    }
    fn budget(&self, tier: Tier) -> usize { self.plan(tier).len() + Self::random_budget(tier) }
    fn corpus(&self) -> Vec<Vec<String>> {
        let c = |s: &str| s.split('|').map(|x| x.to_string()).collect::<Vec<_>>();
        vec![
            // F8 witness (DESIGN §4, fixed in /repo b41c142): batch repeating a key — both stores refuse it now
            c("putv 1 1 aa|batch 1 2 bb 1 1 aa|get 1|prefix all"),
            c("putv 1 1 aa|batch 1 2 bb 1 1 aa 1 2 aa|get 1|reopen|get 1"),
            // the repository's own unit-test scenarios
            c("put 1 010203|get 1|put 1 040506|get 1|del 1|get 1|getver 1"),
            c("putv 1 0 010203|putv 1 0 010203|putv 1 0 040506|putv 1 1 070809|get 1|reopen|getver 1|put 1 aa"),
            c("batch 1 0 010203 2 0 040506|batch 1 0 010203|batch 1 1 070809|batch 1 0 aa 2 1 bb|prefix k|reopen|prefix all"),
            // u64::MAX version: `v + 1` overflows in put
            c("putv 1 18446744073709551615 aa|put 1 bb|get 1|del 1|putv 1 18446744073709551615 aa|putv 1 18446744073709551614 aa"),
        ]
    }
    fn gen_case(&self, rng: &mut Rng, tier: Tier) -> Vec<String> {
        let i = self.next.fetch_add(1, Ordering::SeqCst);
        let plan = self.plan(tier);
        if i < plan.len() {
            return plan[i].clone();
        }
        let len = rng.range(5, if tier == Tier::Quick { 30 } else { 60 }) as usize;
        let mut ops = Vec::new();
        for _ in 0..len {
            let k = rng.range(1, 3);
            ops.push(match rng.below(13) {
                0 => format!("get {}", k),
                1 => format!("getver {}", k),
                2 => format!("prefix {}", rng.pick(&["all", "k", "k1", "k2", "zz", "w"])),
                3 => if rng.chance(1, 3) { "reopen".to_string() } else { rand_write(rng) }, // a reopen costs ~30 ms
                _ => rand_write(rng),
            });
        }
        ops
    }
    fn exec_case(&self, ops: &[String]) -> CaseOut {
        if let Some(c) = self.cache.lock().unwrap().remove(&ops.join("\n")) {
            return c;
        }
        run_pair(ops).case
    }
}

// ------------------------------------------------------------------------------------------------
// cloud

#[derive(Clone, Copy, PartialEq, Debug)]
enum Txn {
    Closed,
    Open,
    Poisoned,
}

fn run_cloud(ops: &[String]) -> (CaseOut, String) {
    let cloud = CloudKVVStore::new(MemoryKVVStore::new(SID));
    let mut co = CaseOut::default();
    let mut txn = Txn::Closed;
    let mut prev = BTreeMap::<u64, Rec>::new();
    let mut seen: HashMap<(u64, u64), Vec<u8>> = HashMap::new();
    // writes accepted in the open transaction that advanced a key beyond the committed store
    let mut pending: BTreeMap<u64, Rec> = BTreeMap::new();
    // mutations reported by the last prepare with no accepted write since
    let mut reported: Option<Dump> = None;
    let mut prepared_in_txn = false;
    let (mut accepted, mut refused) = (false, false);
    for (i, line) in ops.iter().enumerate() {
        let op = parse_op(line);
        // the store's own view of the versions inside the transaction (get_version is side-effect free there)
        let is_write_op = matches!(op, Op::Put(..) | Op::PutV(..) | Op::Batch(..) | Op::Del(..));
        let view = |c: &CloudKVVStore<MemoryKVVStore>| -> Vec<Option<u64>> {
            (1..=3u64).map(|k| apply(c, &Op::GetVer(k), "").ok().and_then(|s| s.strip_prefix("ver ").and_then(|v| v.parse().ok()))).collect()
        };
        let view_before = if txn == Txn::Open && is_write_op { Some(view(&cloud)) } else { None };
        let r = apply(&cloud, &op, "");
        let out = match &r { Ok(s) => s.clone(), Err(()) => "panic".to_string() };
        if let (Some(before), true) = (&view_before, out != "panic") {
            let after = view(&cloud);
            for (j, (b, a)) in before.iter().zip(after.iter()).enumerate() {
                if let (Some(b), Some(a)) = (b, a) {
                    if a < b {
                        co.violations.push(Violation {
                            kind: "c16-cloud-pending-version-lowered".into(),
                            desc: format!("cloud: `{}` ({}) lowered the version the store reports for key {} inside the transaction: get_version {} -> {}",
                                line, out, key_name(j as u64 + 1), b, a),
                            at: i,
                        });
                    }
                }
            }
        }
        let dump = full_dump(&cloud);
        let cur = as_map(&dump);
        let mut push = |kind: &str, desc: String| co.violations.push(Violation { kind: kind.into(), desc: format!("cloud: {}", desc), at: i });
        // never lowers a version; same version same content (committed = local store)
        for (k, (v, x)) in &prev {
            match cur.get(k) {
                None => push("c16-version-decreased", format!("key {} vanished from the local store", key_name(*k))),
                Some((v2, x2)) => {
                    if v2 < v { push("c16-version-decreased", format!("local key {} went from version {} to {}", key_name(*k), v, v2)); }
                    else if v2 == v && x2 != x { push("c16-same-version-content-changed", format!("local key {} version {} changed content", key_name(*k), v)); }
                }
            }
        }
        for (k, (v, x)) in &cur {
            match seen.get(&(*k, *v)) {
                Some(old) if old != x => push("c16-same-version-content-changed", format!("local key {} version {} held {} earlier and {} now", key_name(*k), v, hexs(old), hexs(x))),
                _ => { seen.insert((*k, *v), x.clone()); }
            }
        }
        // the local store changes only at commit
        if op != Op::Commit && cur != prev {
            push("c16-cloud-local-changed-outside-commit", format!("`{}` changed the local store to {}", line, show_dump(&dump)));
        }
        // bookkeeping of accepted writes
        let pending_before = pending.clone();
        let is_write = matches!(op, Op::Put(..) | Op::PutV(..) | Op::Batch(..) | Op::Del(..));
        if is_write {
            // entries of a batch are accepted one by one until the first refusal
            let entries: Vec<(u64, Rec, bool)> = match &op {
                Op::Put(k, x) => vec![(*k, (prev.get(k).map(|r| r.0.wrapping_add(1)).unwrap_or(0), x.clone()), out == "ok")],
                Op::Del(k) => vec![(*k, (prev.get(k).map(|r| r.0.wrapping_add(1)).unwrap_or(0), vec![]), out == "ok")],
                Op::PutV(k, v, x) => vec![(*k, (*v, x.clone()), out == "ok")],
                Op::Batch(es) => {
                    if out == "ok" {
                        es.iter().map(|(k, r)| (*k, r.clone(), true)).collect()
                    } else {
                        // the API does not report which prefix of a failing batch was logged: resynchronise the
                        // ghost from the store's own answers for the keys of the batch (no RYW claim for this op)
                        if txn == Txn::Open && out == "mismatch" {
                            for (k, _) in es {
                                if let Ok(s) = apply(&cloud, &Op::Get(*k), "") {
                                    match s.strip_prefix("got ").filter(|x| *x != "none") {
                                        Some(recs) => {
                                            let p: Vec<&str> = recs.split(':').collect();
                                            let rec: Rec = (p[0].parse().unwrap(), unhex(p[1]));
                                            if prev.get(k) != Some(&rec) { pending.insert(*k, rec); reported = None; } else { pending.remove(k); }
                                        }
                                        None => { pending.remove(k); }
                                    }
                                }
                            }
                        }
                        vec![]
                    }
                }
                _ => vec![],
            };
            for (k, r, ok) in entries {
                if ok && txn == Txn::Open {
                    let advances = match prev.get(&k) { None => true, Some((v0, _)) => r.0 > *v0 };
                    if advances { pending.insert(k, r); reported = None; }
                }
            }
            if out == "ok" { accepted = true } else { refused = true }
        }
        // single-write acceptance rules inside a transaction, judged against the committed (local) store and the
        // transaction's own pending entries
        if txn == Txn::Open {
            match &op {
                Op::Put(k, _) | Op::Del(k) => {
                    // put/delete take committed + 1; refused only if the transaction itself wrote a higher version
                    let next = prev.get(k).map(|r| r.0.wrapping_add(1)).unwrap_or(0);
                    let pend_above = pending_before.get(k).map(|r| r.0 > next).unwrap_or(false);
                    if out == "mismatch" && !pend_above {
                        push("c16-put-refused", format!("`put`/`delete` of key {} (version {}) was refused with VersionMismatch; pending {:?}",
                            key_name(*k), next, pending_before.get(k).map(show_rec)));
                    }
                }
                Op::PutV(k, v, x) => {
                    if let Some((v0, x0)) = prev.get(k) {
                        let pend_above = pending_before.get(k).map(|r| r.0 > *v).unwrap_or(false);
                        if v == v0 && x == x0 && out != "ok" && !pend_above {
                            push("c16-idempotent-rewrite-refused", format!("put_with_version repeating the committed record {}:{} of key {} returned {}",
                                v0, hexs(x0), key_name(*k), out));
                        }
                        if v == v0 && x != x0 && out == "ok" {
                            push("c16-same-version-other-content-accepted", format!("put_with_version of key {} at the committed version {} with other content returned ok", key_name(*k), v0));
                        }
                        if v < v0 && out == "ok" {
                            push("c16-lower-version-accepted", format!("put_with_version of key {} at version {} below the committed {} returned ok", key_name(*k), v, v0));
                        }
                    }
                }
                Op::GetVer(k) => {
                    let want = match pending.get(k).or(cur.get(k)) { Some(r) => format!("ver {}", r.0), None => "ver none".into() };
                    if *k != 0 && out != want {
                        push("c16-cloud-ryw", format!("get_version {} returned `{}` but the transaction's own last write / the store gives `{}`", key_name(*k), out, want));
                    }
                }
                _ => {}
            }
        }
        // read-your-writes by key
        if let (Op::Get(k), Txn::Open) = (&op, txn) {
            let want = match pending.get(k).or(cur.get(k)) { Some(r) => format!("got {}", show_rec(r)), None => "got none".into() };
            if *k != 0 && out != want {
                push("c16-cloud-ryw", format!("get {} returned `{}` but the transaction's own last write / the store gives `{}`", key_name(*k), out, want));
            }
        }
        match &op {
            Op::Enter => if out == "ok" { pending.clear(); reported = None; prepared_in_txn = false; },
            Op::Prepare => if let Some(l) = out.strip_prefix("list ") {
                // remember what was reported (parse back from the canonical text is not needed: recompute)
                let _ = l;
                if let Ok(_) = &r {
                    // re-read through get for each key is intrusive; use the textual list
                    let rep = parse_dump(l);
                    // every reported mutation must advance its key beyond the committed store (the cloud refuses
                    // anything else as a conflict), and a non-empty report starts with the last-writer record:
                    // committed writer version + 1 (0 the first time), value = this store's signer id
                    for (k, rr) in &rep {
                        if let Some((v0, _)) = prev.get(k) {
                            if rr.0 <= *v0 {
                                push("c16-cloud-reported-not-advancing", format!("prepare reported key {} at version {} but the committed store already has version {}", key_name(*k), rr.0, v0));
                            }
                        }
                    }
                    // (only for the first prepare of a transaction: a write after an "empty" prepare — which dropped the
                    // record — is outside the enter -> writes -> prepare -> commit protocol, see notes)
                    if !rep.is_empty() && !prepared_in_txn {
                        let want_w: Rec = (prev.get(&0).map(|w| w.0.wrapping_add(1)).unwrap_or(0), SID.to_vec());
                        if rep.iter().find(|(k, _)| *k == 0).map(|(_, w)| w) != Some(&want_w) {
                            push("c16-cloud-last-writer-record", format!("prepare reported {} ; the last-writer record must be {}", show_dump(&rep), show_rec(&want_w)));
                        }
                    }
                    reported = Some(rep);
                    prepared_in_txn = true;
                }
            },
            Op::Commit => {
                if out == "ok" {
                    if let Some(rep) = &reported {
                        let mut want = prev.clone();
                        for (k, r) in rep { want.insert(*k, r.clone()); }
                        if want != cur {
                            push("c16-cloud-commit-not-exact", format!("prepare reported {} ; local store went {} -> {}",
                                show_dump(rep), show_dump(&prev.clone().into_iter().collect()), show_dump(&dump)));
                        }
                    }
                } else if cur != prev && out != "ok" {
                    push("c16-cloud-commit-not-exact", format!("commit returned {} but changed the local store", out));
                }
                pending.clear();
                reported = None;
            }
            _ => {}
        }
        // transaction status as the results reveal it
        if out == "panic" {
            // every panic the store raises itself happens under its mutex, except the `v + 1`
            // overflows (put/delete/enter at u64::MAX) which happen before the lock is taken
            let overflow = match &op {
                Op::Put(k, _) | Op::Del(k) => prev.get(k).map(|r| r.0 == u64::MAX).unwrap_or(false),
                Op::Enter => prev.get(&0).map(|r| r.0 == u64::MAX).unwrap_or(false),
                _ => false,
            };
            if !overflow { txn = Txn::Poisoned; }
        } else if txn != Txn::Poisoned {
            match &op {
                Op::Enter if out == "ok" => txn = Txn::Open,
                Op::Commit => txn = Txn::Closed,
                _ => {}
            }
        }
        co.tags.insert(format!("cloud:{}:{}", line.split(' ').next().unwrap_or(""), out.split(' ').next().unwrap_or("")));
        co.tags.insert(format!("cloud:txn:{:?}", txn));
        co.out.push(format!("{} D {}", out, show_dump(&dump)));
        prev = cur;
    }
    co.nontrivial = accepted && refused;
    // state key: local store, status, and (inside a transaction) the log as seen through get
    let mut key = format!("D {} {:?}", show_dump(&prev.clone().into_iter().collect()), txn);
    if txn == Txn::Open {
        for k in 0..=2u64 {
            key += &format!(" {}", apply(&cloud, &Op::Get(k), "").unwrap_or_else(|_| "panic".into()));
        }
        // an emptied log (after an "empty" prepare) is distinguishable only through prepare itself;
        // it is reflected by `get 0` returning the local record instead of the pending one
    }
    (co, key)
}

fn parse_dump(s: &str) -> Dump {
    let s = s.trim().trim_start_matches('[').trim_end_matches(']');
    if s.is_empty() {
        return vec![];
    }
    s.split(',')
        .map(|e| {
            let p: Vec<&str> = e.split(':').collect();
            (p[0].parse().unwrap(), (p[1].parse().unwrap(), unhex(p[2])))
        })
        .collect()
}

pub struct C16Cloud {
    plan: OnceLock<Vec<Vec<String>>>,
    next: AtomicUsize,
    cache: Mutex<HashMap<String, CaseOut>>,
}

impl C16Cloud {
    fn plan(&self, tier: Tier) -> &Vec<Vec<String>> {
        self.plan.get_or_init(|| {
            let (depth, max) = if tier == Tier::Quick { (5, 80_000) } else { (6, 300_000) };
            let (cases, per_depth) = bfs_plan(&cloud_alphabet(), depth, max, &run_cloud, &self.cache);
            eprintln!("C16Cloud: {} enumerated cases, new states per depth {:?}", cases.len(), per_depth);
            cases
        })
    }
}

impl Group for C16Cloud {
    fn property(&self) -> &'static str { "C16" }
    fn model(&self) -> Option<&'static str> { Some("kvv_cloud") }
    fn rule(&self) -> &'static str {
        "cloud<memory>: every request sequence up to length 5 (quick) / 6 (thorough) over {put, put_with_version, put_batch(0..2 \
         entries), delete, get, get_version, get_prefix, enter, prepare, commit} x 2 keys x versions 0..2 x 2 values, explored \
         breadth-first modulo equality of the observable state (local dump, transaction status, pending entries read through \
         get), capped at 80k/300k cases; then random transactions (mostly well-bracketed enter..prepare..commit with occasional \
         misuse) of 5..60 requests; non-trivial = an accepted and a refused write"
    }
    fn budget(&self, tier: Tier) -> usize { self.plan(tier).len() + if tier == Tier::Quick { 2000 } else { 40_000 } }
    fn corpus(&self) -> Vec<Vec<String>> {
        let c = |s: &str| s.split('|').map(|x| x.to_string()).collect::<Vec<_>>();
        vec![
            c("enter|put 1 aa|get 1|prefix all|prepare|commit|prefix all|enter|get 1|put 1 bb|get 1|prepare|commit|get 1"),
            // DESIGN §3 C16 note: a pending entry replaced by a lower (still > local) version
            c("enter|putv 1 5 aa|putv 1 3 bb|get 1|prepare|commit|prefix all"),
            // empty prepare commits nothing; a write after it trips the len==1 assertion of the next prepare
            c("enter|prepare|commit|prefix all|enter|prepare|put 1 aa|prepare|get 1"),
            // misuse: not in a transaction / entering twice poisons the mutex
            c("put 1 aa|enter|prefix all"),
            c("enter|enter|get 1|prefix all|batch"),
            // failing batch leaves its accepted prefix in the log
            c("enter|putv 2 1 aa|prepare|commit|enter|batch 1 0 aa 2 0 bb|get 1|prepare|commit|prefix all"),
        ]
    }
    fn gen_case(&self, rng: &mut Rng, tier: Tier) -> Vec<String> {
        let i = self.next.fetch_add(1, Ordering::SeqCst);
        let plan = self.plan(tier);
        if i < plan.len() {
            return plan[i].clone();
        }
        let len = rng.range(5, if tier == Tier::Quick { 30 } else { 60 }) as usize;
        let mut ops: Vec<String> = Vec::new();
        let mut open = false;
        while ops.len() < len {
            if rng.chance(1, 40) {
                ops.push(rng.pick(&["enter", "prepare", "commit", "get 1", "put 1 aa"]).to_string()); // misuse
                continue;
            }
            if !open {
                if rng.chance(1, 5) { ops.push("prefix all".into()); }
                ops.push("enter".into());
                open = true;
                continue;
            }
            match rng.below(12) {
                0 | 1 => ops.push(format!("get {}", rng.below(4))),
                2 => ops.push(format!("getver {}", rng.range(1, 3))),
                3 => ops.push("prefix all".into()),
                4 | 5 => {
                    ops.push("prepare".into());
                    if rng.chance(1, 6) { ops.push(rand_write(rng)); }
                    if rng.chance(1, 4) { ops.push("prepare".into()); }
                    ops.push("commit".into());
                    open = false;
                }
                _ => ops.push(rand_write(rng)),
            }
        }
        ops
    }
    fn exec_case(&self, ops: &[String]) -> CaseOut {
        if let Some(c) = self.cache.lock().unwrap().remove(&ops.join("\n")) {
            return c;
        }
        run_cloud(ops).0
    }
}

pub fn groups() -> Vec<Box<dyn Group>> {
    vec![
        Box::new(C16Pair { plan: OnceLock::new(), next: AtomicUsize::new(0), cache: Mutex::new(HashMap::new()) }),
        Box::new(C16Cloud { plan: OnceLock::new(), next: AtomicUsize::new(0), cache: Mutex::new(HashMap::new()) }),
        Box::new(persist::C16Persist),
    ]
}
