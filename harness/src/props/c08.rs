//! C08 — on-chain spends lose at most a bounded fee and fund only validated channels.
//!
//! One group (`C08Onchain`, Lean model `onchain`): a real `Node` with a configurable policy (max feerate,
//! dev flag, policy filter, fee velocity control), key-derivation style and allowlist (scripts, xpubs);
//! random funding / wallet transactions built from a *scenario description* (every output carries the
//! descriptor it was built from), several channels funded at once (outbound/inbound, push, holder
//! commitment number 0/1/2, partly through the real validate_holder_commitment path), submitted through
//! the real `Node::check_onchain_tx` or through `Approve::handle_proposed_onchain` with a recording
//! approver.  The model receives, per output, the ground truth *by construction* of the scenario
//! (not by calling can_spend/allowlist_contains), so a wrong classification inside the implementation
//! shows up as a disagreement; the monitors evaluate the property itself with u128 arithmetic.
//!
//! Op lines (one per op):
//!   node <cfg> <fee-velocity limit msat> <h|d|u>
//!   tx   <cfg> <now> <version> <ap 0|1|2> <segwit flags|-> <n inputs> <prev v:type,..|-> <uck ..|->
//!        <n opaths> <chans vout:value:outbound:push:nhc[:r],..|-> <outs desc@path=value,..|->
//!   cfg = maxFeerate;dev;filter;style;allow-scripts(,);allow-xpubs(,)
//!   desc = W/<path>/<ty> | F/<n>/<ty> | X<j>/<path>/<ty> | C<c> | C<c>m | R/<len>
use crate::common::*;
use lightning_signer::bitcoin::absolute::LockTime;
use lightning_signer::bitcoin::bip32::{ChildNumber, DerivationPath, Xpriv, Xpub};
use lightning_signer::bitcoin::hashes::Hash;
use lightning_signer::bitcoin::key::CompressedPublicKey;
use lightning_signer::bitcoin::secp256k1::{self, PublicKey, Secp256k1, SecretKey};
use lightning_signer::bitcoin::transaction::Version;
use lightning_signer::bitcoin::{
    Address, Amount, Network, OutPoint, ScriptBuf, Sequence, Transaction, TxIn, TxOut, Txid, Witness,
};
use lightning_signer::channel::ChannelId;
use lightning_signer::lightning::ln::chan_utils::make_funding_redeemscript;
use lightning_signer::lightning::types::payment::PaymentHash;
use lightning_signer::node::{Allowable, Node, NodeConfig, NodeServices};
use lightning_signer::policy::error::ValidationErrorKind;
use lightning_signer::policy::filter::{FilterResult, FilterRule, PolicyFilter};
use lightning_signer::policy::simple_validator::{
    make_default_simple_policy, PolicyDevFlags, SimpleValidatorFactory,
};
use lightning_signer::prelude::SendSync;
use lightning_signer::signer::derive::KeyDerivationStyle;
use lightning_signer::util::clock::ManualClock;
use lightning_signer::util::test_utils::*;
use lightning_signer::util::velocity::{VelocityControl, VelocityControlIntervalType, VelocityControlSpec};
use std::sync::{Arc, Mutex};
use std::time::Duration;
use vls_protocol_signer::approver::Approve;

pub const HARD: u32 = 0x8000_0000;
pub const NET: Network = Network::Testnet;

/// xpub id that stands for the node's own account xpub (never used in an `X` descriptor)
pub const OWN_XPUB: u32 = 9;

pub const TAGS: [&str; 10] = [
    "policy-onchain-format-standard",
    "policy-onchain-max-size",
    "policy-onchain-funding-non-malleable",
    "policy-onchain-no-unknown-outputs",
    "policy-onchain-output-match-commitment",
    "policy-onchain-output-scriptpubkey",
    "policy-onchain-initial-commitment-countersigned",
    "policy-onchain-no-fund-inbound",
    "policy-onchain-no-channel-push",
    "policy-onchain-fee-range",
];

// ---------------------------------------------------------------------------------------------
// scenario language

pub fn parse_path(s: &str) -> Option<Vec<u32>> {
    if s == "-" || s.is_empty() {
        return Some(vec![]);
    }
    s.split('.')
        .map(|c| {
            if let Some(n) = c.strip_suffix('h') {
                n.parse::<u32>().ok().filter(|n| *n < HARD).map(|n| n | HARD)
            } else {
                c.parse::<u32>().ok().filter(|n| *n < HARD)
            }
        })
        .collect()
}
pub fn path_str(p: &[u32]) -> String {
    if p.is_empty() {
        return "-".into();
    }
    p.iter()
        .map(|c| if c & HARD != 0 { format!("{}h", c & !HARD) } else { c.to_string() })
        .collect::<Vec<_>>()
        .join(".")
}
pub fn to_dp(p: &[u32]) -> DerivationPath {
    p.iter().map(|c| ChildNumber::from(*c)).collect::<Vec<_>>().into()
}

#[derive(Clone, Debug, PartialEq)]
pub enum Desc {
    W(Vec<u32>, char),
    F(u32, char),
    X(u32, Vec<u32>, char),
    C(usize, bool),
    R(usize),
}
impl Desc {
    pub fn parse(s: &str) -> Option<Desc> {
        let parts: Vec<&str> = s.split('/').collect();
        let ty = |t: &str| t.chars().next().filter(|c| "wstkh".contains(*c) && t.len() == 1);
        match parts.as_slice() {
            ["W", p, t] => Some(Desc::W(parse_path(p)?, ty(t)?)),
            ["F", n, t] => Some(Desc::F(n.parse().ok()?, ty(t)?)),
            ["R", n] => Some(Desc::R(n.parse().ok()?)),
            [x, p, t] if x.starts_with('X') => Some(Desc::X(x[1..].parse().ok()?, parse_path(p)?, ty(t)?)),
            [c] if c.starts_with('C') => {
                let (num, m) = match c.strip_suffix('m') {
                    Some(n) => (n, true),
                    None => (*c, false),
                };
                Some(Desc::C(num[1..].parse().ok()?, m))
            }
            _ => None,
        }
    }
    pub fn to_string(&self) -> String {
        match self {
            Desc::W(p, t) => format!("W/{}/{}", path_str(p), t),
            Desc::F(n, t) => format!("F/{}/{}", n, t),
            Desc::X(j, p, t) => format!("X{}/{}/{}", j, path_str(p), t),
            Desc::C(c, m) => format!("C{}{}", c, if *m { "m" } else { "" }),
            Desc::R(n) => format!("R/{}", n),
        }
    }
    /// script length in bytes (determines tx size/weight)
    fn script_len(&self) -> usize {
        match self {
            Desc::W(_, t) | Desc::F(_, t) | Desc::X(_, _, t) => ty_len(*t),
            Desc::C(..) => 34,
            Desc::R(n) => *n,
        }
    }
}
fn ty_len(t: char) -> usize {
    match t {
        'w' => 22,
        's' => 23,
        'k' => 25,
        _ => 34,
    }
}

#[derive(Clone, Debug)]
pub struct Cfg {
    pub max_feerate: u32,
    pub dev: bool,
    pub filter: String,
    pub style: char,
    /// run under OnchainValidatorFactory (encoded as an upper-case style letter in the cfg string)
    pub onchain: bool,
    pub allow: Vec<String>,
    pub xpubs: Vec<u32>,
}
impl Cfg {
    fn parse(s: &str) -> Option<Cfg> {
        let p: Vec<&str> = s.split(';').collect();
        if p.len() != 6 {
            return None;
        }
        let list = |x: &str| -> Vec<String> {
            if x == "-" || x.is_empty() { vec![] } else { x.split(',').map(|s| s.to_string()).collect() }
        };
        Some(Cfg {
            max_feerate: p[0].parse().ok()?,
            dev: p[1] == "1",
            filter: p[2].to_string(),
            style: p[3].chars().next()?.to_ascii_lowercase(),
            onchain: p[3].chars().next()?.is_ascii_uppercase(),
            allow: list(p[4]),
            xpubs: list(p[5]).iter().map(|s| s.parse().ok()).collect::<Option<Vec<u32>>>()?,
        })
    }
    pub fn to_string(&self) -> String {
        let l = |v: &Vec<String>| if v.is_empty() { "-".to_string() } else { v.join(",") };
        format!(
            "{};{};{};{};{};{}",
            self.max_feerate,
            if self.dev { 1 } else { 0 },
            self.filter,
            if self.onchain { self.style.to_ascii_uppercase() } else { self.style },
            l(&self.allow),
            l(&self.xpubs.iter().map(|x| x.to_string()).collect())
        )
    }
    /// filter presets: d = default; p = permissive; w<k> = warn exactly TAGS[k]; x = warn prefix "policy-onchain-"
    pub fn policy_filter(&self) -> PolicyFilter {
        match self.filter.as_str() {
            "d" => PolicyFilter::default(),
            "p" => PolicyFilter::new_permissive(),
            "x" => PolicyFilter {
                rules: vec![FilterRule { tag: "policy-onchain-".into(), is_prefix: true, action: FilterResult::Warn }],
            },
            s if s.starts_with('w') => {
                let k: usize = s[1..].parse().unwrap_or(0) % TAGS.len();
                PolicyFilter { rules: vec![FilterRule { tag: TAGS[k].into(), is_prefix: false, action: FilterResult::Warn }] }
            }
            _ => PolicyFilter::default(),
        }
    }
    fn filter_bits(&self) -> Vec<bool> {
        let f = self.policy_filter();
        TAGS.iter().map(|t| f.filter(t) == FilterResult::Error).collect()
    }
    /// the opt-outs the property excludes: a filter demoting one of the tags the argument needs, or the dev flag
    #[allow(dead_code)]
    fn strict(&self) -> bool {
        let b = self.filter_bits();
        !self.dev && b[2..].iter().all(|x| *x)
    }
}

#[derive(Clone, Debug)]
pub struct ChanSpec {
    vout: usize,
    value: u64,
    outbound: bool,
    push_msat: u64,
    nhc: u64,
    real: bool,
}
#[derive(Clone, Debug)]
pub struct OutSpec {
    desc: Desc,
    path: Vec<u32>,
    value: u64,
}
#[derive(Clone, Debug)]
pub struct TxSpec {
    cfg: Cfg,
    now: u64,
    version: i32,
    ap: u8,
    segwit: Vec<bool>,
    n_in: usize,
    prev: Vec<(u64, char)>,
    uck: Vec<Option<Vec<usize>>>,
    n_opaths: usize,
    chans: Vec<ChanSpec>,
    outs: Vec<OutSpec>,
}
fn list(s: &str) -> Vec<&str> {
    if s == "-" || s.is_empty() { vec![] } else { s.split(',').collect() }
}
impl TxSpec {
    fn parse(t: &[&str]) -> Option<TxSpec> {
        if t.len() != 12 || t[0] != "tx" {
            return None;
        }
        let cfg = Cfg::parse(t[1])?;
        let segwit = if t[5] == "-" { vec![] } else { t[5].chars().map(|c| c == '1').collect() };
        let prev = list(t[7])
            .iter()
            .map(|s| {
                let (v, ty) = s.split_once(':')?;
                Some((v.parse().ok()?, ty.chars().next()?))
            })
            .collect::<Option<Vec<_>>>()?;
        let uck = list(t[8])
            .iter()
            .map(|s| {
                if *s == "N" {
                    Some(None)
                } else if let Some(r) = s.strip_prefix('S') {
                    if r.is_empty() {
                        Some(Some(vec![]))
                    } else {
                        r.split('+').map(|x| x.parse().ok()).collect::<Option<Vec<usize>>>().map(Some)
                    }
                } else {
                    None
                }
            })
            .collect::<Option<Vec<_>>>()?;
        let chans = list(t[10])
            .iter()
            .map(|s| {
                let p: Vec<&str> = s.split(':').collect();
                if p.len() < 5 {
                    return None;
                }
                Some(ChanSpec {
                    vout: p[0].parse().ok()?,
                    value: p[1].parse().ok()?,
                    outbound: p[2] == "1",
                    push_msat: p[3].parse().ok()?,
                    nhc: p[4].parse().ok()?,
                    real: p.get(5) == Some(&"r"),
                })
            })
            .collect::<Option<Vec<_>>>()?;
        let outs = list(t[11])
            .iter()
            .map(|s| {
                let (d, rest) = s.split_once('@')?;
                let (p, v) = rest.split_once('=')?;
                Some(OutSpec { desc: Desc::parse(d)?, path: parse_path(p)?, value: v.parse().ok()? })
            })
            .collect::<Option<Vec<_>>>()?;
        Some(TxSpec {
            cfg,
            now: t[2].parse().ok()?,
            version: t[3].parse().ok()?,
            ap: t[4].parse().ok()?,
            segwit,
            n_in: t[6].parse().ok()?,
            prev,
            uck,
            n_opaths: t[9].parse().ok()?,
            chans,
            outs,
        })
    }
    fn to_line(&self) -> String {
        let j = |v: Vec<String>| if v.is_empty() { "-".to_string() } else { v.join(",") };
        format!(
            "tx {} {} {} {} {} {} {} {} {} {} {}",
            self.cfg.to_string(),
            self.now,
            self.version,
            self.ap,
            if self.segwit.is_empty() { "-".to_string() } else { self.segwit.iter().map(|b| if *b { '1' } else { '0' }).collect() },
            self.n_in,
            j(self.prev.iter().map(|(v, t)| format!("{}:{}", v, t)).collect()),
            j(self.uck.iter().map(|u| match u {
                None => "N".to_string(),
                Some(v) => format!("S{}", v.iter().map(|x| x.to_string()).collect::<Vec<_>>().join("+")),
            }).collect()),
            self.n_opaths,
            j(self.chans.iter().map(|c| format!("{}:{}:{}:{}:{}{}", c.vout, c.value, if c.outbound { 1 } else { 0 }, c.push_msat, c.nhc, if c.real { ":r" } else { "" })).collect()),
            j(self.outs.iter().map(|o| format!("{}@{}={}", o.desc.to_string(), path_str(&o.path), o.value)).collect()),
        )
    }
    /// opath of output i as handed to the implementation (missing entries: list is shorter)
    fn opaths(&self) -> Vec<Vec<u32>> {
        let mut v: Vec<Vec<u32>> = self.outs.iter().map(|o| o.path.clone()).collect();
        v.resize(self.n_opaths, vec![]);
        v
    }
    /// a transaction of the same shape (script lengths only): size and weight do not depend on keys
    fn dummy_tx(&self) -> Transaction {
        Transaction {
            version: Version(self.version),
            lock_time: LockTime::ZERO,
            input: (0..self.n_in).map(|i| mk_txin(i as u32)).collect(),
            output: self.outs.iter().map(|o| TxOut { value: Amount::from_sat(o.value), script_pubkey: ScriptBuf::from_bytes(vec![0x51; o.desc.script_len()]) }).collect(),
        }
    }
    fn chan_at(&self, vout: usize) -> Option<(usize, &ChanSpec)> {
        self.chans.iter().enumerate().find(|(_, c)| c.vout == vout)
    }
}
fn mk_txin(i: u32) -> TxIn {
    let mut h = [0x33u8; 32];
    h[..4].copy_from_slice(&i.to_be_bytes());
    TxIn {
        previous_output: OutPoint { txid: Txid::from_slice(&h).unwrap(), vout: i },
        script_sig: ScriptBuf::new(),
        sequence: Sequence::ZERO,
        witness: Witness::default(),
    }
}

// ---------------------------------------------------------------------------------------------
// ground truth by construction

#[derive(Clone, Debug, PartialEq)]
enum Class {
    Wallet,
    Xpub,
    Script,
    Channel(usize),
    Unknown,
    Bogus,
    Fault,
}
struct Truth {
    path_len: usize,
    can_spend: Option<bool>,
    script_allow: bool,
    xpub: char, // y n p
    chan: Option<usize>,
    script_match: bool,
}
fn truth(spec: &TxSpec, i: usize) -> Truth {
    let o = &spec.outs[i];
    let cfg = &spec.cfg;
    let path = spec.opaths().get(i).cloned().unwrap_or_default();
    let can_spend = if path.is_empty() {
        Some(false)
    } else if cfg.style == 'n' && path.len() != 1 {
        None
    } else {
        Some(matches!(&o.desc, Desc::W(p, t) if *p == path && "wst".contains(*t)))
    };
    let script_allow = cfg.allow.iter().any(|a| *a == o.desc.to_string());
    let hardened = path.iter().any(|c| c & HARD != 0);
    let xpub = if cfg.xpubs.is_empty() || path.is_empty() {
        'n'
    } else if hardened {
        'p'
    } else if matches!(&o.desc, Desc::X(j, p, t) if cfg.xpubs.contains(j) && *p == path && "wkt".contains(*t)) {
        'y'
    } else if cfg.xpubs.contains(&OWN_XPUB) && matches!(&o.desc, Desc::W(p, t) if *p == path && "wkt".contains(*t)) {
        // the operator allowlisted the node's own account xpub: wallet scripts are also xpub-derivable
        'y'
    } else {
        'n'
    };
    let chan = spec.chan_at(i).map(|(k, _)| k);
    let script_match = match (chan, &o.desc) {
        (Some(k), Desc::C(c, false)) => *c == k,
        _ => false,
    };
    Truth { path_len: path.len(), can_spend, script_allow, xpub, chan, script_match }
}
fn classify(t: &Truth) -> Class {
    if t.path_len > 0 {
        match t.can_spend {
            None => Class::Fault,
            Some(true) => Class::Wallet,
            Some(false) => {
                if t.script_allow {
                    Class::Script
                } else {
                    match t.xpub {
                        'p' => Class::Fault,
                        'y' => Class::Xpub,
                        _ => Class::Bogus,
                    }
                }
            }
        }
    } else if t.script_allow {
        Class::Script
    } else if let Some(k) = t.chan {
        Class::Channel(k)
    } else {
        Class::Unknown
    }
}

// ---------------------------------------------------------------------------------------------
// real objects

pub fn foreign_key(n: u32) -> PublicKey {
    let secp = Secp256k1::new();
    let mut b = [0x11u8; 32];
    b[..4].copy_from_slice(&(n + 1).to_be_bytes());
    PublicKey::from_secret_key(&secp, &SecretKey::from_slice(&b).unwrap())
}
pub fn ext_xpub(j: u32) -> Xpub {
    let secp = Secp256k1::new();
    let seed = [(j as u8).wrapping_add(50); 32];
    Xpub::from_priv(&secp, &Xpriv::new_master(NET, &seed).unwrap())
}
pub fn key_script(pk: &PublicKey, ty: char) -> ScriptBuf {
    let secp = Secp256k1::new();
    let cpk = CompressedPublicKey(*pk);
    match ty {
        'w' => Address::p2wpkh(&cpk, NET).script_pubkey(),
        's' => Address::p2shwpkh(&cpk, NET).script_pubkey(),
        'k' => Address::p2pkh(cpk, NET).script_pubkey(),
        't' => Address::p2tr(&secp, secp256k1::XOnlyPublicKey::from(*pk), None, NET).script_pubkey(),
        _ => {
            let mut ws = vec![33u8];
            ws.extend_from_slice(&pk.serialize());
            ws.push(0xac);
            Address::p2wsh(&ScriptBuf::from_bytes(ws), NET).script_pubkey()
        }
    }
}
/// previous outputs belong to the node's wallet (key at path [1000 + i]) so that the flow can really sign them
fn prev_script(node: &Node, ty: char, i: usize) -> ScriptBuf {
    if ty == 'i' {
        return ScriptBuf::from_bytes(vec![0x6a, 0x01, i as u8]);
    }
    let secp = Secp256k1::new();
    let x = node.get_account_extended_key().derive_priv(&secp, &to_dp(&[1000 + i as u32])).unwrap();
    key_script(&PublicKey::from_secret_key(&secp, &x.private_key), ty)
}

struct Env {
    node_ctx: TestNodeContext,
    clock: Arc<ManualClock>,
    cfg: Cfg,
    spec: VelocityControlSpec,
    log: Vec<(u64, u64)>,
    chan_ctr: usize,
    dead: bool,
}

fn desc_script(env: &Env, d: &Desc, chan_ids: &[(ChannelId, lightning_signer::channel::ChannelSetup)]) -> ScriptBuf {
    let secp = Secp256k1::new();
    match d {
        Desc::W(p, t) => {
            let x = env.node_ctx.node.get_account_extended_key().derive_priv(&secp, &to_dp(p)).unwrap();
            key_script(&PublicKey::from_secret_key(&secp, &x.private_key), *t)
        }
        Desc::F(n, t) => key_script(&foreign_key(*n), *t),
        Desc::X(j, p, t) => key_script(&ext_xpub(*j).derive_pub(&secp, &to_dp(p)).unwrap().public_key, *t),
        Desc::R(n) => {
            let mut v = vec![0x51u8; *n];
            if *n > 0 {
                v[0] = 0x6a;
            }
            ScriptBuf::from_bytes(v)
        }
        Desc::C(c, mutated) => {
            let (id, setup) = &chan_ids[*c % chan_ids.len().max(1)];
            let holder = env.node_ctx.node.with_channel_base(id, |b| Ok(b.get_channel_basepoints().funding_pubkey)).unwrap();
            let other = if *mutated { foreign_key(777) } else { setup.counterparty_points.funding_pubkey };
            Address::p2wsh(&make_funding_redeemscript(&holder, &other), NET).script_pubkey()
        }
    }
}
pub fn allow_script(env_node: &Node, s: &str) -> Option<ScriptBuf> {
    let secp = Secp256k1::new();
    match Desc::parse(s)? {
        Desc::W(p, t) => {
            let x = env_node.get_account_extended_key().derive_priv(&secp, &to_dp(&p)).ok()?;
            Some(key_script(&PublicKey::from_secret_key(&secp, &x.private_key), t))
        }
        Desc::F(n, t) => Some(key_script(&foreign_key(n), t)),
        Desc::X(j, p, t) => Some(key_script(&ext_xpub(j).derive_pub(&secp, &to_dp(&p)).ok()?.public_key, t)),
        Desc::R(n) => {
            let mut v = vec![0x51u8; n];
            if n > 0 {
                v[0] = 0x6a;
            }
            Some(ScriptBuf::from_bytes(v))
        }
        Desc::C(..) => None,
    }
}

fn itype(s: &str) -> VelocityControlIntervalType {
    match s {
        "h" => VelocityControlIntervalType::Hourly,
        "d" => VelocityControlIntervalType::Daily,
        _ => VelocityControlIntervalType::Unlimited,
    }
}

fn make_env(cfg: &Cfg, limit: u64, ty: &str) -> Env {
    let mut policy = make_default_simple_policy(NET);
    policy.max_feerate_per_kw = cfg.max_feerate;
    policy.dev_flags = if cfg.dev { Some(PolicyDevFlags { disable_beneficial_balance_checks: true }) } else { None };
    policy.filter = cfg.policy_filter();
    let spec = VelocityControlSpec { limit_msat: limit, interval_type: itype(ty) };
    policy.fee_velocity_control = spec;
    let clock = Arc::new(ManualClock::new(Duration::from_secs(1_600_000_000)));
    let services = NodeServices {
        validator_factory: validator_factory(policy, cfg.onchain),
        starting_time_factory: make_genesis_starting_time_factory(NET),
        persister: Arc::new(lightning_signer::persist::DummyPersister {}),
        clock: clock.clone(),
        trusted_oracle_pubkeys: vec![],
    };
    let config = NodeConfig {
        network: NET,
        key_derivation_style: if cfg.style == 'l' { KeyDerivationStyle::Ldk } else { KeyDerivationStyle::Native },
        use_checkpoints: false,
        allow_deep_reorgs: false,
    };
    let mut seed = [0u8; 32];
    seed.copy_from_slice(&hex::decode(TEST_SEED[1]).unwrap());
    let node0 = Node::new(config, &seed, vec![], services.clone());
    let mut allow: Vec<Allowable> = cfg.allow.iter().filter_map(|s| allow_script(&node0, s)).map(Allowable::Script).collect();
    for j in &cfg.xpubs {
        allow.push(Allowable::XPub(if *j == OWN_XPUB { node0.get_account_extended_pubkey() } else { ext_xpub(*j) }));
    }
    let node = Arc::new(Node::new(config, &seed, allow, services));
    Env {
        node_ctx: TestNodeContext { node, secp_ctx: Secp256k1::signing_only() },
        clock,
        cfg: cfg.clone(),
        spec,
        log: vec![],
        chan_ctr: 0,
        dead: false,
    }
}

fn vc_digest(v: &VelocityControl) -> String {
    let b: Vec<String> = v.buckets.iter().map(|x| x.to_string()).collect();
    format!("{} [{}]", v.start_sec, b.join(","))
}

/// same oracle as C12: worst closed window of length `w` over the approved (time, amount) log
fn window_violation(log: &[(u64, u64)], w: u64, limit: u64) -> Option<(u64, u128)> {
    for (t0, _) in log.iter() {
        let sum: u128 = log.iter().filter(|(t, _)| *t >= *t0 && *t - *t0 <= w).map(|(_, a)| *a as u128).sum();
        if sum > limit as u128 {
            return Some((*t0, sum));
        }
    }
    None
}

/// records what the flow asks and delegates the decision to one of the approvers of approver.rs
struct RecApprover {
    inner: Arc<dyn Approve>,
    seen: Mutex<Option<Vec<usize>>>,
}
impl SendSync for RecApprover {}
impl Approve for RecApprover {
    fn approve_invoice(&self, _invoice: &lightning_signer::invoice::Invoice) -> bool {
        false
    }
    fn approve_keysend(&self, _payment_hash: PaymentHash, _amount_msat: u64) -> bool {
        false
    }
    fn approve_onchain(&self, tx: &Transaction, prev_outs: &[TxOut], unknown_indices: &[usize]) -> bool {
        *self.seen.lock().unwrap() = Some(unknown_indices.to_vec());
        self.inner.approve_onchain(tx, prev_outs, unknown_indices)
    }
}

/// approver kinds (the `ap` token): 0 = no approver (check_onchain_tx only) · 1 Positive · 2 Negative ·
/// 3 MemoApprover<Negative> holding Approval::Onchain(THIS tx) · 4 … holding an approval for a tx with the same outputs
/// but other inputs · 5 … for a tx with the same inputs and one output value changed · 6 VelocityApprover<Positive> ·
/// 7 VelocityApprover<Negative> · 8 MemoApprover<Negative> holding only a keysend approval
fn approver_approves(ap: u8) -> bool {
    matches!(ap, 1 | 3 | 6)
}
fn make_approver(ap: u8, tx: &Transaction, clock: Arc<ManualClock>) -> Arc<dyn Approve> {
    use vls_protocol_signer::approver::{Approval, MemoApprover, NegativeApprover, PositiveApprover, VelocityApprover};
    let memo = |a: Vec<Approval>| -> Arc<dyn Approve> {
        let m = MemoApprover::new(NegativeApprover());
        m.approve(a);
        Arc::new(m)
    };
    match ap {
        1 => Arc::new(PositiveApprover()),
        3 => memo(vec![Approval::Onchain(tx.clone())]),
        4 => {
            // what the user approved: the same payments, funded by other coins
            let mut a = tx.clone();
            if let Some(i) = a.input.first_mut() {
                i.previous_output.vout = i.previous_output.vout.wrapping_add(1000);
            }
            a.input.push(mk_txin(9999));
            memo(vec![Approval::Onchain(a)])
        }
        5 => {
            let mut a = tx.clone();
            if let Some(o) = a.output.first_mut() {
                o.value = Amount::from_sat(o.value.to_sat() ^ 1);
            } else {
                a.version = Version(a.version.0 ^ 1);
            }
            memo(vec![Approval::Onchain(a)])
        }
        6 => Arc::new(VelocityApprover::new(clock, VelocityControl::new(VelocityControlSpec::UNLIMITED), PositiveApprover())),
        7 => Arc::new(VelocityApprover::new(clock, VelocityControl::new(VelocityControlSpec::UNLIMITED), NegativeApprover())),
        8 => memo(vec![Approval::KeySend(PaymentHash([1; 32]), 1000)]),
        _ => Arc::new(NegativeApprover()),
    }
}

/// the node's validator factory: `SimpleValidatorFactory`, or (a share of the cases) vlsd's default
/// `OnchainValidatorFactory` wrapping it, so that every delegating method of onchain_validator.rs is in the loop
pub fn validator_factory(policy: lightning_signer::policy::simple_validator::SimplePolicy, onchain: bool) -> Arc<dyn lightning_signer::policy::validator::ValidatorFactory> {
    let simple = SimpleValidatorFactory::new_with_policy(policy);
    if onchain {
        Arc::new(lightning_signer::policy::onchain_validator::OnchainValidatorFactory::new_with_simple_factory(simple))
    } else {
        Arc::new(simple)
    }
}

pub struct C08Onchain;

impl C08Onchain {
    fn exec_tx(&self, env: &mut Env, spec: &TxSpec, at: usize, co: &mut CaseOut) -> String {
        let node = env.node_ctx.node.clone();
        // channel stubs first (their funding keys are needed for the output scripts)
        let mut chans: Vec<TestChannelContext> = Vec::new();
        for c in &spec.chans {
            env.chan_ctr += 1;
            let mut ctx = test_chan_ctx_with_push_val(&env.node_ctx, 1000 + env.chan_ctr, c.value, c.push_msat);
            ctx.setup.is_outbound = c.outbound;
            chans.push(ctx);
        }
        let ids: Vec<_> = chans.iter().map(|c| (c.channel_id.clone(), c.setup.clone())).collect();
        let outputs: Vec<TxOut> = spec
            .outs
            .iter()
            .map(|o| TxOut { value: Amount::from_sat(o.value), script_pubkey: desc_script(env, &o.desc, &ids) })
            .collect();
        let tx = Transaction {
            version: Version(spec.version),
            lock_time: LockTime::ZERO,
            input: (0..spec.n_in).map(|i| mk_txin(i as u32)).collect(),
            output: outputs,
        };
        for (k, c) in spec.chans.iter().enumerate() {
            if let Some(st) = funding_tx_setup_channel(&env.node_ctx, &mut chans[k], &tx, c.vout as u32) {
                return format!("harness-setup-failed {}", st.message());
            }
            if c.real {
                let mut commit = channel_initial_holder_commitment(&env.node_ctx, &chans[k]);
                let (csig, hsigs) = counterparty_sign_holder_commitment(&env.node_ctx, &chans[k], &mut commit);
                if let Err(e) = validate_holder_commitment(&env.node_ctx, &chans[k], &commit, &csig, &hsigs) {
                    return format!("harness-setup-failed validate_holder_commitment {}", e.message());
                }
                co.tags.insert("chan:real-initial-commitment".into());
            } else {
                let nhc = c.nhc;
                node.with_channel(&chans[k].channel_id, |ch| {
                    ch.enforcement_state.set_next_holder_commit_num_for_testing(nhc);
                    Ok(())
                })
                .unwrap();
            }
        }
        let prev_outs: Vec<TxOut> = spec
            .prev
            .iter()
            .enumerate()
            .map(|(i, (v, t))| TxOut { value: Amount::from_sat(*v), script_pubkey: prev_script(&node, *t, i) })
            .collect();
        let ucks: Vec<Option<(SecretKey, Vec<Vec<u8>>)>> = spec
            .uck
            .iter()
            .map(|u| u.as_ref().map(|lens| (SecretKey::from_slice(&[7u8; 32]).unwrap(), lens.iter().map(|l| vec![0u8; *l]).collect())))
            .collect();
        let opaths: Vec<DerivationPath> = spec.opaths().iter().map(|p| to_dp(p)).collect();
        env.clock.set(Duration::from_secs(spec.now));

        // ---- the call under test
        let approves = approver_approves(spec.ap);
        let approver = RecApprover { inner: make_approver(spec.ap, &tx, env.clock.clone()), seen: Mutex::new(None) };
        let node2 = node.clone();
        let r = std::panic::catch_unwind(std::panic::AssertUnwindSafe(|| {
            if spec.ap == 0 {
                (Some(node2.check_onchain_tx(&tx, &spec.segwit, &prev_outs, &ucks, &opaths)), None)
            } else {
                (None, Some(approver.handle_proposed_onchain(&node2, &tx, &spec.segwit, &prev_outs, &ucks, &opaths)))
            }
        }));
        let mut flow: Option<&'static str> = None;
        let (class, unknown_reported): (String, Option<Vec<usize>>) = match r {
            Err(_) => {
                env.dead = true;
                co.tags.insert("res:panic".into());
                return "panic".into();
            }
            Ok((Some(Ok(())), _)) => ("ok".into(), None),
            Ok((Some(Err(ve)), _)) => match &ve.kind {
                ValidationErrorKind::UnknownDestinations(_, ix) => ("unknown".into(), Some(ix.clone())),
                _ => (format!("err:{}", ve.tag), None),
            },
            Ok((_, Some(res))) => {
                flow = Some(match &res { Ok(true) => "signed", Ok(false) => "declined", Err(_) => "refused" });
                let seen = approver.seen.lock().unwrap().clone();
                match (res, seen) {
                    (Ok(b), Some(ix)) => {
                        if b != approves {
                            co.violations.push(Violation { kind: "approver-decision-ignored".into(), desc: format!("approver kind {} (approves THIS tx: {}) but handle_proposed_onchain returned {}", spec.ap, approves, b), at });
                        }
                        co.tags.insert(format!("approver:{}", if b { "approved" } else { "declined" }));
                        ("unknown".into(), Some(ix))
                    }
                    (Ok(true), None) => ("ok".into(), None),
                    (Ok(false), None) => {
                        co.violations.push(Violation { kind: "approver-decision-ignored".into(), desc: "handle_proposed_onchain returned false without consulting the approver".into(), at });
                        ("declined-unasked".into(), None)
                    }
                    (Err(_), _) => ("err:*".into(), None),
                }
            }
            Ok((None, None)) => unreachable!(),
        };
        // Ok(true): the caller now signs.  Sign the inputs the wallet can sign (p2wpkh / p2sh-p2wpkh / p2pkh).
        let mut flow_signed = false;
        if flow == Some("signed") {
            let n = spec.uck.len().min(prev_outs.len()).min(spec.n_in);
            let ipaths: Vec<DerivationPath> = (0..n)
                .map(|i| if "wsk".contains(spec.prev[i].1) { to_dp(&[1000 + i as u32]) } else { to_dp(&[]) })
                .collect();
            let node3 = node.clone();
            let sr = std::panic::catch_unwind(std::panic::AssertUnwindSafe(|| {
                node3.unchecked_sign_onchain_tx(&tx, &ipaths, &prev_outs[..n], vec![None; n])
            }));
            match sr {
                Ok(Ok(wit)) => {
                    flow_signed = true;
                    co.tags.insert(format!("flow:signed:{}", if wit.iter().any(|w| !w.is_empty()) { "with-signatures" } else { "nothing-to-sign" }));
                }
                Ok(Err(e)) => { co.tags.insert(format!("flow:sign-error {}", e.message().chars().take(40).collect::<String>())); }
                Err(_) => {
                    env.dead = true;
                    co.tags.insert("flow:sign-panic".into());
                }
            }
        }
        if let Some(f) = flow {
            co.tags.insert(format!("flow:{}", f));
        }
        let vcd = vc_digest(&node.get_state().fee_velocity_control);
        co.tags.insert(format!("res:{}", class.split(':').next().unwrap()));
        if class.starts_with("err:policy") {
            co.tags.insert(class.clone());
        }

        // ---- monitors (property evaluated directly, u128 arithmetic, ground truth by construction)
        let truths: Vec<Truth> = (0..spec.outs.len()).map(|i| truth(spec, i)).collect();
        let classes: Vec<Class> = truths.iter().map(classify).collect();
        for c in &classes {
            co.tags.insert(format!("class:{}", match c { Class::Channel(_) => "Channel".to_string(), x => format!("{:?}", x) }));
        }
        // every monitor is conditioned on exactly the opt-out that concerns it (the policy filter bit of its tag, the
        // dev flag for the fee bound) - a filter demoting one tag must not switch the other conjuncts off
        let bits = env.cfg.filter_bits();
        let fee_strict = !env.cfg.dev && bits[9];
        let unknown_truth: Vec<usize> = classes.iter().enumerate().filter(|(_, c)| **c == Class::Unknown).map(|(i, _)| i).collect();
        {
            if let Some(ix) = &unknown_reported {
                if *ix != unknown_truth {
                    co.violations.push(Violation { kind: "unknown-indices-wrong".into(), desc: format!("reported unknown outputs {:?}, really unknown {:?}", ix, unknown_truth), at });
                }
            }
        }
        // an unknown destination is signed only if THIS transaction was approved
        if flow == Some("signed") && !unknown_truth.is_empty() && !approves {
            co.violations.push(Violation {
                kind: "unapproved-destination-signed".into(),
                desc: format!("the flow ended in `sign` for a tx paying unknown destinations {:?} although approver kind {} did not approve this transaction", unknown_truth, spec.ap),
                at,
            });
        }
        let passed_ok = class == "ok";
        if passed_ok || flow_signed {
            let sum_in: u128 = spec.prev.iter().map(|(v, _)| *v as u128).sum();
            let mut ben: u128 = 0;
            for (i, c) in classes.iter().enumerate() {
                match c {
                    Class::Wallet | Class::Xpub | Class::Script => ben += spec.outs[i].value as u128,
                    Class::Channel(k) => ben += (spec.chans[*k].value as u128).saturating_sub((spec.chans[*k].push_msat / 1000) as u128),
                    _ => {}
                }
            }
            let nb = sum_in.saturating_sub(ben);
            {
                for (i, c) in classes.iter().enumerate() {
                    match c {
                        // an Unknown output may be there if (and only if) it was reported and the approver accepted it
                        Class::Unknown if !passed_ok => {}
                        // "output[i] is unknown" for a path that matches nothing is a filterable policy error
                        Class::Bogus if !bits[3] => {}
                        Class::Unknown | Class::Bogus | Class::Fault => co.violations.push(Violation {
                            kind: "unknown-output-accepted".into(),
                            desc: format!("output {} ({} sat, {}) is neither wallet, allowlisted nor a funded channel ({:?}) but the tx was accepted", i, spec.outs[i].value, spec.outs[i].desc.to_string(), c),
                            at,
                        }),
                        Class::Channel(k) => {
                            let ch = &spec.chans[*k];
                            let mut bad = vec![];
                            if bits[4] && spec.outs[i].value != ch.value { bad.push("channel-funding-wrong-value"); }
                            if bits[5] && !truths[i].script_match { bad.push("channel-funding-wrong-script"); }
                            if bits[7] && !ch.outbound { bad.push("channel-funding-inbound"); }
                            if bits[8] && ch.push_msat / 1000 > 0 { bad.push("channel-funding-with-push"); }
                            if bits[6] && ch.nhc != 1 && !ch.real { bad.push("channel-funding-not-countersigned"); }
                            if bits[2] && !(spec.segwit.len() == spec.n_in && spec.segwit.iter().all(|b| *b)) { bad.push("funding-non-segwit-input-accepted"); }
                            for b in bad {
                                co.violations.push(Violation { kind: b.into(), desc: format!("accepted funding output {} = {} sat for channel {:?}", i, spec.outs[i].value, ch), at });
                            }
                        }
                        _ => {}
                    }
                }
                // weight lower bound recomputed independently
                let mut w: u128 = tx.weight().to_wu() as u128;
                for (i, u) in spec.uck.iter().enumerate() {
                    if spec.prev.get(i).map(|(_, t)| *t != 'i').unwrap_or(false) {
                        w += 77 + match u { None => 33u128, Some(l) => l.iter().map(|x| 1 + *x as u128).sum() };
                    }
                }
                // (no fee bound applies to a tx whose unknown destinations were explicitly approved)
                // loss = inputs - own outputs - funded channel value NET OF PUSH: whatever else the filter tolerates, value
                // handed to the counterparty or to nobody counts as fee
                if fee_strict && passed_ok && w > 0 && (nb * 1000 + 999) / w > env.cfg.max_feerate as u128 {
                    co.violations.push(Violation {
                        kind: "onchain-fee-exceeds-bound".into(),
                        desc: format!("accepted: inputs {} - beneficial {} = {} sat over weight {} is {} sat/kw > max {}", sum_in, ben, nb, w, (nb * 1000 + 999) / w, env.cfg.max_feerate),
                        at,
                    });
                }
                if ben > sum_in {
                    co.tags.insert("accepted:beneficial>inputs".into());
                }
                // fee velocity
                // limit and window from the CONFIGURED policy spec, not from the node's control (which a defect may have replaced)
                let (limit, wlen): (u64, u64) = match env.spec.interval_type {
                    VelocityControlIntervalType::Hourly => (env.spec.limit_msat, 11 * 300),
                    VelocityControlIntervalType::Daily => (env.spec.limit_msat, 23 * 3600),
                    VelocityControlIntervalType::Unlimited => (u64::MAX, 0),
                };
                let msat = (nb * 1000).min(u64::MAX as u128) as u64;
                if fee_strict && passed_ok {
                    env.log.push((spec.now, msat));
                }
                if fee_strict && passed_ok && limit != u64::MAX {
                    if let Some((t0, sum)) = window_violation(&env.log, wlen, limit) {
                        co.violations.push(Violation { kind: "fee-velocity-exceeded".into(), desc: format!("fees of {} msat approved within window [{}, {}] with limit {}", sum, t0, t0 + wlen, limit), at });
                    }
                }
            }
        }
        let _ = env.spec;
        let fl = flow.map(|f| format!(" flow={}", f)).unwrap_or_default();
        match (&class[..], unknown_reported) {
            ("unknown", Some(ix)) => format!("unknown [{}]{} | {}", ix.iter().map(|x| x.to_string()).collect::<Vec<_>>().join(","), fl, vcd),
            _ => format!("{}{} | {}", class, fl, vcd),
        }
    }
}

fn gen_cfg(rng: &mut Rng) -> Cfg {
    let max_feerate = match rng.below(10) {
        0 => 25_000,
        1 => 1000,
        2 => 253,
        3 => 0,
        4 => u32::MAX,
        _ => 333_333,
    };
    let filter = match rng.below(20) {
        0 => "p".to_string(),
        1 => "x".to_string(),
        2 | 3 | 4 => format!("w{}", rng.below(10)),
        5 => "w8".to_string(),
        _ => "d".to_string(),
    };
    let style = if rng.chance(1, 4) { 'l' } else { 'n' };
    let mut allow = vec![];
    for _ in 0..rng.below(4) {
        let d = match rng.below(6) {
            0 => Desc::W(vec![rng.below(4) as u32], *rng.pick(&['w', 's', 't'])),
            1 => Desc::R(*rng.pick(&[3usize, 40])),
            _ => Desc::F(rng.below(4) as u32, *rng.pick(&['w', 's', 't', 'k', 'h'])),
        };
        allow.push(d.to_string());
    }
    allow.sort();
    allow.dedup();
    let mut xpubs = vec![];
    for _ in 0..(if rng.chance(1, 2) { rng.below(3) } else { 0 }) {
        xpubs.push(rng.below(3) as u32);
    }
    xpubs.sort();
    xpubs.dedup();
    Cfg { max_feerate, dev: rng.chance(1, 15), filter, style, onchain: rng.chance(1, 3), allow, xpubs }
}

fn gen_tx(rng: &mut Rng, cfg: &Cfg, now: u64) -> TxSpec {
    let n_in = rng.range(1, 4) as usize;
    let n_out = match rng.below(10) { 0 => 0, 1 | 2 => 1, 3 | 4 | 5 => 2, 6 | 7 => 3, 8 => 4, _ => 6 } as usize;
    let mut outs: Vec<OutSpec> = Vec::new();
    let mut chans: Vec<ChanSpec> = Vec::new();
    let val = |rng: &mut Rng| -> u64 {
        match rng.below(12) {
            0 => 0,
            1 => 330,
            2 => u64::MAX - rng.below(3),
            3 => 1u64 << 63,
            4 => 21_000_000 * 100_000_000,
            _ => rng.range(1_000, 5_000_000),
        }
    };
    let wrong_path = |rng: &mut Rng, p: &Vec<u32>, style: char| -> Vec<u32> {
        match rng.below(6) {
            0 => vec![],
            1 => vec![p[0].wrapping_add(1) & !HARD],
            2 => vec![p[0] | HARD],
            3 => { let mut q = p.clone(); q.push(0); q }
            4 if style == 'l' => vec![p[0], 1, 2],
            _ => vec![(p[0] ^ 1) & !HARD],
        }
    };
    for i in 0..n_out {
        let k = rng.below(20);
        let value = val(rng);
        let o = if k < 6 {
            // wallet output, correct path most of the time
            let p = if cfg.style == 'l' && rng.chance(1, 3) { vec![rng.below(3) as u32, rng.below(3) as u32] } else { vec![rng.below(6) as u32] };
            let ty = *rng.pick(&['w', 'w', 's', 't', 'k', 'h']);
            let path = if rng.chance(1, 5) { wrong_path(rng, &p, cfg.style) } else { p.clone() };
            OutSpec { desc: Desc::W(p, ty), path, value }
        } else if k < 9 {
            // foreign script: allowlisted if it happens to be in cfg.allow
            let d = if !cfg.allow.is_empty() && rng.chance(2, 3) { Desc::parse(rng.pick(&cfg.allow[..]).as_str()).unwrap() } else { Desc::F(rng.below(5) as u32, *rng.pick(&['w', 's', 't', 'k', 'h'])) };
            let path = if rng.chance(1, 6) { vec![rng.below(3) as u32] } else { vec![] };
            OutSpec { desc: d, path, value }
        } else if k < 12 {
            // xpub child
            let j = if !cfg.xpubs.is_empty() && rng.chance(3, 4) { *rng.pick(&cfg.xpubs) } else { rng.below(4) as u32 };
            let p = if cfg.style == 'l' && rng.chance(1, 3) { vec![rng.below(3) as u32, rng.below(3) as u32] } else { vec![rng.below(6) as u32] };
            let ty = *rng.pick(&['w', 'w', 'k', 't', 's']);
            let path = if rng.chance(1, 5) { wrong_path(rng, &p, cfg.style) } else { p.clone() };
            OutSpec { desc: if j == OWN_XPUB { Desc::W(p, ty) } else { Desc::X(j, p, ty) }, path, value }
        } else if k < 18 && chans.len() < 3 {
            // channel funding output
            let c = chans.len();
            // setup_channel computes channel_value_sat * 1000 (panics on overflow) and refuses push > value
            let value = value.min(u64::MAX / 1000 - 1);
            let cv = match rng.below(8) { 0 => value + 1, 1 => value.saturating_sub(1), _ => value };
            let outbound = !rng.chance(1, 8);
            let push = if !cfg.filter_bits()[8] {
                // the push check is demoted to a warning: pushes are tolerated, and must then count as fee
                match rng.below(5) { 0 => 0, 1 => 1000, 2 => 5_000_000, 3 => 999, _ => rng.below(cv.saturating_mul(1000).min(u64::MAX / 2) + 1) }
            } else {
                match rng.below(10) { 0 => 999, 1 => 1000, 2 => 5_000_000, _ => 0 }
            };
            let push = if push > cv.saturating_mul(1000) { 0 } else { push };
            let nhc = match rng.below(8) { 0 => 0, 1 => 2, _ => 1 };
            let real = cfg.max_feerate >= 25_000 && cfg.max_feerate < u32::MAX && nhc == 1 && outbound && push == 0 && cv == value && (10_000..=5_000_000).contains(&value) && rng.chance(1, 3);
            chans.push(ChanSpec { vout: i, value: cv, outbound, push_msat: push, nhc, real });
            let d = match rng.below(12) { 0 => Desc::C(c, true), 1 => Desc::F(9, 'h'), _ => Desc::C(c, false) };
            let path = if rng.chance(1, 15) { vec![1] } else { vec![] };
            OutSpec { desc: d, path, value }
        } else if k == 18 {
            if rng.chance(1, 3) {
                // the allowlisted xpub's own key (empty derivation path): only derivable with a non-empty path
                let j = if !cfg.xpubs.is_empty() { *rng.pick(&cfg.xpubs[..]) } else { 1 };
                if j == OWN_XPUB { OutSpec { desc: Desc::F(3, 'w'), path: vec![], value } } else { OutSpec { desc: Desc::X(j, vec![], *rng.pick(&['w', 'k', 't'])), path: vec![], value } }
            } else {
                OutSpec { desc: Desc::R(if rng.chance(1, 3) { 33_000 } else { *rng.pick(&[3usize, 40]) }), path: vec![], value }
            }
        } else {
            OutSpec { desc: Desc::F(rng.below(5) as u32, 'w'), path: vec![], value }
        };
        outs.push(o);
    }
    let mut spec = TxSpec {
        cfg: cfg.clone(),
        now,
        version: match rng.below(15) { 0 => 1, 1 => 3, _ => 2 },
        ap: match rng.below(10) { 0 | 1 => *rng.pick(&[1u8, 3, 6]), 2 | 3 => *rng.pick(&[2u8, 4, 4, 5, 7, 8]), _ => 0 },
        segwit: (0..n_in).map(|_| !rng.chance(1, 12)).collect(),
        n_in,
        prev: vec![],
        uck: (0..n_in).map(|_| match rng.below(8) { 0 => Some(vec![33]), 1 => Some(vec![0, 71]), 2 => Some(vec![]), _ => None }).collect(),
        n_opaths: n_out,
        chans,
        outs,
    };
    // an oversized script: aim the base size at MAX_ONCHAIN_TX_SIZE - 1 / exactly / + 1
    if let Some(k) = spec.outs.iter().position(|o| matches!(o.desc, Desc::R(n) if n > 30_000)) {
        let target = 32 * 1024 + rng.below(3) as usize - 1;
        for _ in 0..3 {
            let base = spec.dummy_tx().base_size();
            if let Desc::R(n) = spec.outs[k].desc {
                let want = (n + target).saturating_sub(base);
                spec.outs[k].desc = Desc::R(want.max(1));
            }
        }
    }
    if rng.chance(1, 25) { spec.segwit.pop(); }
    if rng.chance(1, 40) { spec.uck.push(None); }
    if rng.chance(1, 40) && n_out > 0 { spec.n_opaths = n_out - 1; }
    // inputs: make the total = beneficial (by construction) + a fee aimed at the feerate edge
    let mut ben: u128 = 0;
    for i in 0..spec.outs.len() {
        match classify(&truth(&spec, i)) {
            Class::Wallet | Class::Xpub | Class::Script => ben += spec.outs[i].value as u128,
            Class::Channel(k) => ben += spec.chans[k].value as u128,
            _ => {}
        }
    }
    let prev_types: Vec<char> = (0..n_in).map(|_| *rng.pick(&['w', 'w', 'w', 's', 't', 'h', 'k', 'i'])).collect();
    let mut w = spec.dummy_tx().weight().to_wu() as u128;
    for (i, u) in spec.uck.iter().enumerate() {
        if prev_types.get(i).map(|t| *t != 'i').unwrap_or(false) {
            w += 77 + match u { None => 33u128, Some(l) => l.iter().map(|x| 1 + *x as u128).sum() };
        }
    }
    let mf = cfg.max_feerate as u128;
    let nb_edge = (mf * w) / 1000;
    let nb: u128 = match rng.below(13) {
        0 => 0,
        1 => nb_edge,
        2 => nb_edge + 1,
        3 => nb_edge.saturating_sub(1),
        4 => nb_edge + 2,
        5 => (253 * w) / 1000,
        // feerate just above 2^32 sat/kw: the old `as u32` truncation wrapped it to a small accepted value
        6 => (4_294_967_296u128 * w + 999) / 1000 + rng.below(50) as u128,
        7 => 25_8000_0000u128 + rng.below(1000) as u128,
        8 => u64::MAX as u128 / 1000 + rng.below(3) as u128,
        // the input sum passes 2^64 by a small amount: a wrapping sum would look like a tiny fee
        9 if n_in >= 2 => (1u128 << 64) + rng.below((nb_edge + 2) as u64) as u128,
        _ => rng.below((nb_edge + 2) as u64) as u128,
    };
    let mut total = (ben + nb).min(u64::MAX as u128 * n_in as u128);
    // `non_beneficial_sat * 1000` overflowing while the node state lock is held makes the `defer!` in
    // check_onchain_tx panic again during unwinding, which aborts the process (cannot be caught): keep the
    // inputs below u64::MAX/1000 whenever the fee-range check cannot refuse first (see notes/C08-C09.md)
    let fee_check_refuses = !cfg.dev && cfg.filter_bits()[9];
    if !fee_check_refuses {
        total = total.min(u64::MAX as u128 / 1000 - 2000);
    }
    let mut rest = total;
    for i in 0..n_in {
        let v = if i + 1 == n_in { rest.min(u64::MAX as u128) } else { (rng.below(1001) as u128 * rest / 1000).min(u64::MAX as u128) };
        rest -= v;
        spec.prev.push((v as u64, prev_types[i]));
    }
    if rng.chance(1, 30) { spec.prev.push((rng.below(1000), 'w')); }
    spec
}


/// weight lower bound of a spec (the formula of check_onchain_tx, recomputed here for the generators)
fn spec_weight(spec: &TxSpec) -> u128 {
    let mut w = spec.dummy_tx().weight().to_wu() as u128;
    for (i, u) in spec.uck.iter().enumerate() {
        if spec.prev.get(i).map(|(_, t)| *t != 'i').unwrap_or(false) {
            w += 77 + match u { None => 33u128, Some(l) => l.iter().map(|x| 1 + *x as u128).sum() };
        }
    }
    w
}

/// split `total` over the inputs of the spec (types already chosen)
fn fill_inputs(rng: &mut Rng, spec: &mut TxSpec, types: &[char], total: u128) {
    let n = types.len();
    let mut rest = total.min(u64::MAX as u128 * n as u128);
    for (i, t) in types.iter().enumerate() {
        let v = if i + 1 == n { rest.min(u64::MAX as u128) } else { (rng.below(1001) as u128 * rest / 1000).min(u64::MAX as u128) };
        rest -= v;
        spec.prev.push((v as u64, *t));
    }
}

/// outputs that are at the same time wallet-derivable (path given) and allowlisted (own address allowlisted
/// by script, or the node's own xpub allowlisted); inputs around Σoutputs and 2·Σoutputs: an output must be
/// credited exactly once
fn gen_dual_tx(rng: &mut Rng, cfg: &Cfg, now: u64) -> Option<TxSpec> {
    let own: Vec<Desc> = cfg.allow.iter().filter_map(|a| Desc::parse(a)).filter(|d| matches!(d, Desc::W(p, t) if "wst".contains(*t) && (cfg.style == 'l' || p.len() == 1))).collect();
    let own_xpub = cfg.xpubs.contains(&OWN_XPUB);
    if own.is_empty() && !own_xpub {
        return None;
    }
    let n_out = rng.range(1, 3) as usize;
    let mut outs = vec![];
    for _ in 0..n_out {
        let d = if !own.is_empty() && (!own_xpub || rng.chance(1, 2)) { rng.pick(&own[..]).clone() } else { Desc::W(vec![rng.below(6) as u32], *rng.pick(&['w', 't', 'w', 's'])) };
        let path = match &d { Desc::W(p, _) => p.clone(), _ => vec![] };
        outs.push(OutSpec { desc: d, path, value: rng.range(10_000, 5_000_000) });
    }
    if rng.chance(1, 4) {
        outs.push(OutSpec { desc: Desc::W(vec![7], 'w'), path: vec![7], value: rng.range(1_000, 100_000) });
    }
    let n_in = rng.range(1, 3) as usize;
    let mut spec = TxSpec {
        cfg: cfg.clone(), now, version: 2, ap: if rng.chance(1, 5) { 1 } else { 0 },
        segwit: vec![true; n_in], n_in, prev: vec![], uck: vec![None; n_in], n_opaths: outs.len(), chans: vec![], outs,
    };
    let types: Vec<char> = (0..n_in).map(|_| *rng.pick(&['w', 'w', 's', 't'])).collect();
    let sum: u128 = spec.outs.iter().map(|o| o.value as u128).sum();
    spec.prev = types.iter().map(|t| (0u64, *t)).collect();
    let w = spec_weight(&spec);
    spec.prev.clear();
    let edge = (cfg.max_feerate as u128 * w) / 1000;
    let fee = match rng.below(6) { 0 => 0, 1 => edge, 2 => edge + 1, 3 => edge.saturating_sub(1), 4 => (253 * w) / 1000, _ => rng.below(edge as u64 + 2) as u128 };
    let k = match rng.below(5) { 0 => 1, 1 | 2 | 3 => 2, _ => 3 };
    fill_inputs(rng, &mut spec, &types, k * sum + fee);
    Some(spec)
}

/// one transaction that funds a validated channel, pays an unknown destination and (often) spends a non-segwit
/// input, through the approver flow (approving or declining)
fn gen_flow_tx(rng: &mut Rng, cfg: &Cfg, now: u64) -> TxSpec {
    let cv = rng.range(100_000, 5_000_000);
    let mut outs = vec![];
    let mut chans = vec![];
    let order = rng.below(3);
    let change = OutSpec { desc: Desc::W(vec![1], 'w'), path: vec![1], value: rng.range(10_000, 2_000_000) };
    let unknown = OutSpec { desc: Desc::F(20 + rng.below(5) as u32, *rng.pick(&['w', 's', 't'])), path: vec![], value: rng.range(1_000, 1_000_000) };
    let funding = OutSpec { desc: Desc::C(0, false), path: vec![], value: cv };
    let seq: Vec<OutSpec> = match order { 0 => vec![change, unknown, funding], 1 => vec![funding, change, unknown], _ => vec![unknown, funding, change] };
    for (i, o) in seq.into_iter().enumerate() {
        if matches!(o.desc, Desc::C(..)) {
            let (push, nhc, outbound) = match rng.below(12) { 0 => (5_000_000.min(cv * 1000), 1, true), 1 => (0, 0, true), 2 => (0, 1, false), _ => (0, 1, true) };
            chans.push(ChanSpec { vout: i, value: cv, outbound, push_msat: push, nhc, real: false });
        }
        outs.push(o);
    }
    if rng.chance(1, 4) {
        outs.push(OutSpec { desc: Desc::F(30, 'w'), path: vec![], value: rng.range(1_000, 50_000) });
    }
    let n_in = rng.range(1, 3) as usize;
    // a non-segwit input: p2pkh, or p2sh-p2wpkh flagged `false` by the caller
    let types: Vec<char> = (0..n_in).map(|_| *rng.pick(&['w', 'w', 's', 'k'])).collect();
    let mut segwit: Vec<bool> = types.iter().map(|t| *t == 'w').collect();
    if rng.chance(1, 3) {
        segwit = vec![true; n_in];
    }
    let mut spec = TxSpec {
        cfg: cfg.clone(), now, version: 2, ap: match rng.below(6) { 0 => 0, 1 | 2 => *rng.pick(&[2u8, 4, 4, 5, 7, 8]), _ => *rng.pick(&[1u8, 3, 6]) },
        segwit, n_in, prev: vec![], uck: vec![None; n_in], n_opaths: outs.len(), chans, outs,
    };
    let sum: u128 = spec.outs.iter().map(|o| o.value as u128).sum();
    let fee = rng.range(200, 3_000) as u128;
    fill_inputs(rng, &mut spec, &types, sum + fee);
    spec
}

impl Group for C08Onchain {
    fn property(&self) -> &'static str { "C08" }
    fn model(&self) -> Option<&'static str> { Some("onchain") }
    fn rule(&self) -> &'static str {
        "real Node (Native/Ldk key derivation, allowlisted scripts and xpubs, max feerate 0..u32::MAX, dev flag, \
         default/one-tag-warn/prefix-warn/permissive policy filter, fee velocity Hourly/Daily/Unlimited) checking random \
         transactions with 0-6 outputs (wallet p2wpkh/p2sh-p2wpkh/p2tr/p2pkh/p2wsh with right and wrong paths, \
         allowlisted and foreign scripts, xpub children, up to 3 channel funding outputs with value/script/outbound/push/ \
         commitment-number deviations, oversized scripts), 1-4 inputs with values summing to beneficial + a fee aimed at the \
         max-feerate edge (±1 sat), the old 2^32 sat/kw truncation region and u64 overflow candidates; through \
         Node::check_onchain_tx or Approve::handle_proposed_onchain; non-trivial = at least one accepted and one refused/reported tx"
    }
    fn budget(&self, tier: Tier) -> usize { if tier == Tier::Quick { 2500 } else { 40000 } }
    fn corpus(&self) -> Vec<Vec<String>> {
        let c = |s: &str| s.split('|').map(|x| x.to_string()).collect::<Vec<String>>();
        vec![
            // the repository's own funding scenario: wallet in, change + channel out
            c("node 333333;0;d;n;-;- 1000000000 d|tx 333333;0;d;n;-;- 1600000000 2 0 1 1 5000000:w N 2 1:3000000:1:0:1:r W/1/w@1=1999000,C0@-=3000000"),
            // F5 witness shape: ~25.8 BTC of "fee" wrapped to a small feerate before the saturating fix
            c("node 333333;0;d;n;-;- 18446744073709551615 u|tx 333333;0;d;n;-;- 1600000000 2 0 1 1 2580000000:w N 1 - W/1/w@1=1000"),
            // max_feerate_per_kw = u32::MAX is a real bound since the exact u128 comparison (fix 3751e9c)
            c("node 4294967295;0;d;n;-;- 18446744073709551615 u|tx 4294967295;0;d;n;-;- 1600000000 2 0 1 1 10000000000000000:w N 1 - W/1/w@1=1000"),
            // own deposit address on the allowlist / own xpub on the allowlist: credited once (inputs = 2X + fee is refused)
            c("node 333333;0;d;n;W/1/w;- 1000000000 d|tx 333333;0;d;n;W/1/w;- 1600000000 2 0 1 1 2001000:w N 1 - W/1/w@1=1000000|tx 333333;0;d;n;W/1/w;- 1600000001 2 0 1 1 1001000:w N 1 - W/1/w@1=1000000"),
            c("node 333333;0;d;n;-;9 1000000000 d|tx 333333;0;d;n;-;9 1600000000 2 0 1 1 2001000:w N 1 - W/1/w@1=1000000|tx 333333;0;d;n;-;9 1600000001 2 0 1 1 1001000:w N 1 - W/1/w@1=1000000"),
            // channel funding + unknown destination + non-segwit input through the approving approver: refused;
            // with a segwit input: reported, approved, signed; declining approver: declined
            c("node 333333;0;d;n;-;- 1000000000 d|tx 333333;0;d;n;-;- 1600000000 2 1 0 1 5001000:s N 3 2:3000000:1:0:1 W/1/w@1=1500000,F/21/w@-=500000,C0@-=3000000|tx 333333;0;d;n;-;- 1600000001 2 1 1 1 5001000:w N 3 2:3000000:1:0:1 W/1/w@1=1500000,F/21/w@-=500000,C0@-=3000000|tx 333333;0;d;n;-;- 1600000002 2 2 1 1 5001000:w N 3 2:3000000:1:0:1 W/1/w@1=1500000,F/21/w@-=500000,C0@-=3000000"),
            // only policy-onchain-no-channel-push demoted to a warning: the push still counts as fee (900000 sat pushed on top of
            // a 1000 sat fee exceeds 333333 sat/kw and is refused; a 3000 sat push has room and is counted)
            c("node 333333;0;w8;n;-;- 1000000000 d|tx 333333;0;w8;n;-;- 1600000000 2 0 1 1 1001000:w N 1 0:1000000:1:900000000:1 C0@-=1000000|tx 333333;0;w8;n;-;- 1600000001 2 0 1 1 1000100:w N 1 0:1000000:1:0:1 C0@-=1000000"),
            c("node 333333;0;w8;n;-;- 1000000000 d|tx 333333;0;w8;n;-;- 1600000000 2 0 1 1 1001000:w N 1 0:1000000:1:3000000:1 C0@-=1000000"),
            // the same funding scenario under vlsd's default OnchainValidatorFactory (upper-case style letter)
            c("node 333333;0;d;N;-;- 1000000000 d|tx 333333;0;d;N;-;- 1600000000 2 0 1 1 5000000:w N 2 1:3000000:1:0:1 W/1/w@1=1999000,C0@-=3000000|tx 333333;0;d;N;-;- 1600000001 2 0 0 1 5000000:w N 2 1:3000000:1:0:1 W/1/w@1=1999000,C0@-=3000000"),
            // MemoApprover: an approval for THIS tx is honoured (3); an approval for a tx with the same outputs but other inputs (4) or
            // with another output value (5) is not; VelocityApprover delegates (6 approves, 7 declines)
            c("node 333333;0;d;n;-;- 1000000000 d|tx 333333;0;d;n;-;- 1600000000 2 3 1 1 1000000:w N 1 - F/2/w@-=990000|tx 333333;0;d;n;-;- 1600000001 2 4 1 1 50000000:w N 1 - F/2/w@-=990000|tx 333333;0;d;n;-;- 1600000002 2 5 1 1 1000000:w N 1 - F/2/w@-=990000|tx 333333;0;d;n;-;- 1600000003 2 6 1 1 1000000:w N 1 - F/2/w@-=990000|tx 333333;0;d;n;-;- 1600000004 2 7 1 1 1000000:w N 1 - F/2/w@-=990000"),
            // unknown output next to a wallet output, through the approver (declines)
            c("node 333333;0;d;n;F/1/w;- 1000000000 d|tx 333333;0;d;n;F/1/w;- 1600000000 2 2 1 1 100000:w N 3 - W/1/w@1=50000,F/2/w@-=20000,F/1/w@-=29000"),
            // inbound / pushed / not yet counter-signed channels
            c("node 333333;0;d;n;-;- 1000000000 d|tx 333333;0;d;n;-;- 1600000000 2 0 1 1 1001000:w N 1 0:1000000:0:0:1 C0@-=1000000|tx 333333;0;d;n;-;- 1600000001 2 0 1 1 1001000:w N 1 0:1000000:1:5000000:1 C0@-=1000000|tx 333333;0;d;n;-;- 1600000002 2 0 1 1 1001000:w N 1 0:1000000:1:0:0 C0@-=1000000|tx 333333;0;d;n;-;- 1600000003 2 0 0 1 1001000:w N 1 0:1000000:1:0:1 C0@-=1000000"),
        ]
    }
    fn model_line(&self, op: &str) -> Option<String> {
        let t: Vec<&str> = op.split_whitespace().collect();
        match t.as_slice() {
            ["node", _cfg, l, ty] => Some(format!("node {} {}", l, ty)),
            _ => {
                let spec = match TxSpec::parse(&t) {
                    Some(s) => s,
                    None => return Some("bad-op".into()),
                };
                let d = spec.dummy_tx();
                let bits: String = spec.cfg.filter_bits().iter().map(|b| if *b { '1' } else { '0' }).collect();
                let j = |v: Vec<String>, sep: &str| if v.is_empty() { "-".to_string() } else { v.join(sep) };
                let ucks: Vec<String> = spec.uck.iter().enumerate().map(|(i, u)| match spec.prev.get(i) {
                    None => "P".to_string(),
                    Some((_, 'i')) => "I".to_string(),
                    Some(_) => match u { None => "N".to_string(), Some(l) => format!("S{}", l.iter().map(|x| 1 + x).sum::<usize>()) },
                }).collect();
                let outs: Vec<String> = (0..spec.outs.len()).map(|i| {
                    let tr = truth(&spec, i);
                    let ch = match tr.chan {
                        None => "-".to_string(),
                        Some(k) => {
                            let c = &spec.chans[k];
                            // the real validation path leaves next_holder_commit_num = 1
                            format!("{}/{}/{}/{}/{}", c.value, if tr.script_match { 1 } else { 0 }, if c.outbound { 1 } else { 0 }, c.push_msat, if c.real { 1 } else { c.nhc })
                        }
                    };
                    // the output goes to the model as its script descriptor with style, derivation path and allowlist: the
                    // wallet facts (can_spend, script / xpub allowlisted) are computed by the Lean wallet model
                    // (Model/Wallet.lean); `truth` stays the independent ground truth of the monitors
                    let path = spec.opaths().get(i).cloned().unwrap_or_default();
                    let mut al: Vec<String> = spec.cfg.allow.clone();
                    al.extend(spec.cfg.xpubs.iter().map(|j| format!("x{}", j)));
                    format!("{}:@{}~{}~{}~{}:{}", spec.outs[i].value, spec.cfg.style, path_str(&path),
                        if al.is_empty() { "-".to_string() } else { al.join(",") }, spec.outs[i].desc.to_string(), ch)
                }).collect();
                Some(format!("tx {} {} {} {} {} {} {} {} {} {} {} {} {} {}",
                    if spec.ap == 0 { 0 } else if approver_approves(spec.ap) { 1 } else { 2 }, spec.cfg.max_feerate, if spec.cfg.dev { 1 } else { 0 }, bits, spec.now,
                    spec.version as u32, d.base_size(), d.weight().to_wu(), spec.n_in,
                    if spec.segwit.is_empty() { "-".to_string() } else { spec.segwit.iter().map(|b| if *b { '1' } else { '0' }).collect() },
                    j(spec.prev.iter().map(|(v, _)| v.to_string()).collect(), ","),
                    j(ucks, ","), spec.n_opaths, j(outs, ";")))
            }
        }
    }
    fn gen_case(&self, rng: &mut Rng, tier: Tier) -> Vec<String> {
        let mut cfg = gen_cfg(rng);
        // the operator allowlisted one of the node's own deposit addresses / the node's own account xpub
        if rng.chance(1, 4) {
            if rng.chance(1, 2) {
                for _ in 0..rng.range(1, 3) {
                    cfg.allow.push(Desc::W(vec![rng.below(6) as u32], *rng.pick(&['w', 's', 't'])).to_string());
                }
                cfg.allow.sort();
                cfg.allow.dedup();
            } else {
                cfg.xpubs.push(OWN_XPUB);
                cfg.xpubs.sort();
                cfg.xpubs.dedup();
            }
        }
        let (limit, ty) = match rng.below(8) {
            0 => (5_000_000u64, "h"),
            1 => (100_000, "d"),
            2 => (0, "h"),
            3 => (u64::MAX, "u"),
            4 => (50_000_000, "h"),
            _ => (1_000_000_000, "d"),
        };
        let mut ops = vec![format!("node {} {} {}", cfg.to_string(), limit, ty)];
        let n = rng.range(1, if tier == Tier::Quick { 4 } else { 8 });
        let mut now = 1_600_000_000u64 + rng.below(100_000);
        for _ in 0..n {
            now += match rng.below(5) { 0 => 0, 1 => rng.below(300), 2 => 3600, 3 => 86_400, _ => rng.below(4000) };
            let spec = match rng.below(8) {
                0 => gen_flow_tx(rng, &cfg, now),
                1 | 2 => gen_dual_tx(rng, &cfg, now).unwrap_or_else(|| gen_tx(rng, &cfg, now)),
                _ => gen_tx(rng, &cfg, now),
            };
            ops.push(spec.to_line());
        }
        ops
    }
    fn exec_case(&self, ops: &[String]) -> CaseOut {
        let mut co = CaseOut::default();
        let mut env: Option<Env> = None;
        let (mut acc, mut rej) = (false, false);
        let trace = std::env::var("VERIF_TRACE").is_ok();
        for (i, op) in ops.iter().enumerate() {
            if trace {
                eprintln!("{}", op);
            }
            let t: Vec<&str> = op.split_whitespace().collect();
            let line = match t.as_slice() {
                ["node", cfg, l, ty] => match Cfg::parse(cfg) {
                    Some(cfg) => {
                        let e = make_env(&cfg, l.parse().unwrap_or(0), ty);
                        let d = vc_digest(&e.node_ctx.node.get_state().fee_velocity_control);
                        env = Some(e);
                        format!("ok {}", d)
                    }
                    None => "bad-op".into(),
                },
                _ => match (TxSpec::parse(&t), env.as_mut()) {
                    (Some(spec), Some(e)) if e.dead => { let _ = spec; "dead".into() }
                    (Some(spec), Some(e)) if spec.cfg.to_string() == e.cfg.to_string() => {
                        let l = self.exec_tx(e, &spec, i, &mut co);
                        if l.starts_with("ok") { acc = true } else { rej = true }
                        l
                    }
                    (Some(_), None) => panic!("tx before node (malformed shrunk case)"),
                    _ => "bad-op".into(),
                },
            };
            co.out.push(line);
        }
        co.nontrivial = acc && rej;
        co
    }
}

#[path = "c08_psbt.rs"]
mod psbt;
#[path = "c08_restart.rs"]
mod restart;
#[path = "c08_wallet.rs"]
mod wallet;

pub fn groups() -> Vec<Box<dyn Group>> {
    vec![Box::new(C08Onchain), Box::new(psbt::C08Psbt), Box::new(restart::C08FeeRestart), Box::new(wallet::C08Wallet)]
}
