//! C14 — channel monitors depend only on the current best chain; add-then-remove restores the
//! view; a reorganisation never aborts the signer.
//!
//! Real `Node` + channel (real keys), the channel's real `ChainMonitor` registered in the node's real
//! `ChainTracker`; blocks are real `Block`s (mined with `make_block`) delivered compact
//! (`TxoProof::prove_unchecked`) or streamed (`block_chunk` + `ProofType::ExternalBlock`).
//! Transactions: funding, double-spend of a funding input, mutual close, holder commitment with
//! our output and two offered HTLCs (built with the channel's keys through the repo's
//! `channel_commitment`), sweep of our output, HTLC spends, second-level spends, unrelated spends.
//! Model: `monitor` (Lean `Listener.add/remove`).  Monitor: after every step the Debug/serde view
//! of the monitor `State` + `ListenSlot` is compared with a *fresh replay* of the surviving chain.
#[path = "c14_world.rs"]
pub mod world;
use crate::common::*;
use world::*;

pub struct C14;

/// which pool transactions are on the chain, in block order
#[derive(Default, Clone)]
struct Plan {
    blocks: Vec<Vec<u64>>,
}

impl Plan {
    fn confirmed(&self) -> Vec<u64> {
        self.blocks.iter().flatten().cloned().collect()
    }
}

/// pool ids whose dependencies are confirmed (or earlier in the current block) and that conflict with nothing
fn available(confirmed: &[u64], n_extra: u64) -> Vec<u64> {
    let has = |x: u64| confirmed.contains(&x);
    let mut v = Vec::new();
    let mut push = |id: u64, ok: bool| {
        if ok && !has(id) {
            v.push(id)
        }
    };
    push(F, !has(D) && !has(D2));
    push(D, !has(F));
    push(D2, !has(F));
    push(M, has(F) && !has(U) && !has(UC) && !has(UN) && !has(UR) && !has(UP));
    push(U, has(F) && !has(M) && !has(UC) && !has(UN) && !has(UR) && !has(UP));
    push(UC, has(F) && !has(M) && !has(U) && !has(UN) && !has(UR) && !has(UP));
    push(UN, has(F) && !has(M) && !has(U) && !has(UC) && !has(UR) && !has(UP));
    push(SC, has(UC));
    push(TC, has(UC));
    push(VC, has(TC));
    // the counterparty's previous, not yet revoked commitment with an HTLC we offered (its point must be available)
    push(UP, has(F) && !has(M) && !has(U) && !has(UC) && !has(UN) && !has(UR));
    push(SP, has(UP));
    push(TP, has(UP));
    push(VP, has(TP));
    // breach: an old revoked counterparty commitment (only where the source survives it, finding F20)
    if super::c13::SPENDABLE_FALLBACK {
        push(UR, has(F) && !has(M) && !has(U) && !has(UC) && !has(UN) && !has(UP));
        push(SR, has(UR));
        push(JR, has(UR));
    }
    push(S, has(U));
    push(T1, has(U) && !has(T12));
    push(T2, has(U) && !has(T12));
    push(T12, has(U) && !has(T1) && !has(T2));
    push(V1, has(T1));
    push(V2, has(T2));
    push(V12A, has(T12));
    push(V12B, has(T12));
    for i in 0..n_extra {
        push(X0 + i, true);
    }
    v
}

fn gen_block(rng: &mut Rng, plan: &Plan, aggressive: bool) -> Vec<u64> {
    let mut confirmed = plan.confirmed();
    let mut blk = Vec::new();
    let n = match rng.below(10) {
        0 | 1 => 0,
        2 | 3 | 4 => 1,
        5 | 6 => 2,
        7 | 8 => 3,
        _ => 5,
    };
    for _ in 0..n {
        let av = available(&confirmed, 3);
        if av.is_empty() {
            break;
        }
        // prefer channel-relevant transactions
        let rel: Vec<u64> = av.iter().cloned().filter(|x| *x < X0).collect();
        let pick = if !rel.is_empty() && (aggressive || rng.chance(3, 4)) { *rng.pick(&rel) } else { *rng.pick(&av) };
        blk.push(pick);
        confirmed.push(pick);
    }
    blk
}

thread_local! { static CT: std::cell::RefCell<String> = std::cell::RefCell::new("s".to_string()); }

/// op line with the tx tokens of the current case's channel type
fn line(dir: &str, delivery: &str, blk: &[u64]) -> String {
    let ct = CT.with(|c| c.borrow().clone());
    let mut s = format!("{} {}", dir, delivery);
    for id in blk {
        s.push(' ');
        s.push_str(&tok_typed(&ct, *id));
    }
    s
}

fn typed_init(ct: &str) -> String {
    CT.with(|c| *c.borrow_mut() = ct.to_string());
    format!("{} | {}", init_line(), ct)
}

impl Group for C14 {
    fn property(&self) -> &'static str { "C14" }
    fn model(&self) -> Option<&'static str> { Some("monitor") }
    fn rule(&self) -> &'static str {
        "consensus-valid block histories over the pool {funding, double-spend, mutual close, holder commitment with \
         our output + 2 HTLCs, sweep, HTLC spends (separate or one tx), second-level spends, unrelated} in random \
         groupings (0-5 txs per block, incl. funding+close and close+sweep+HTLC in one block), compact and streamed \
         adds, reorgs of depth 1-6 followed by alternative blocks; non-trivial = at least one reorg that disconnects \
         a block with a monitor-relevant transaction"
    }
    fn budget(&self, tier: Tier) -> usize { if tier == Tier::Quick { 300 } else { 4000 } }
    fn model_line(&self, op: &str) -> Option<String> {
        Some(op.split(" | ").next().unwrap().trim_end().to_string())
    }
    fn corpus(&self) -> Vec<Vec<String>> {
        let mk_t = |ct: &str, steps: &[(&str, &str, &[u64])]| -> Vec<String> {
            let mut v = vec![typed_init(ct)];
            for (d, c, b) in steps { v.push(line(d, c, b)); }
            v
        };
        let mk = |steps: &[(&str, &str, &[u64])]| -> Vec<String> {
            let mut v = vec![typed_init("s")];
            for (d, c, b) in steps { v.push(line(d, c, b)); }
            v
        };
        vec![
            // F7 witness: close + sweep in one block, then disconnect it
            mk(&[("add", "c", &[F]), ("add", "c", &[U, S]), ("remove", "c", &[U, S])]),
            // funding + mutual close in one block, streamed, then reorg of depth 2
            mk(&[("add", "s", &[F, M]), ("add", "c", &[]), ("remove", "c", &[]), ("remove", "c", &[F, M]), ("add", "c", &[D])]),
            // HTLC spend and second-level spend, disconnected one by one
            mk(&[("add", "c", &[F]), ("add", "c", &[U]), ("add", "c", &[T1]), ("add", "c", &[V1]),
                 ("remove", "c", &[V1]), ("remove", "c", &[T1]), ("add", "c", &[T1, V1]), ("remove", "c", &[T1, V1])]),
            // two independent double-spends at different heights, reorg of the later one only (seeded change C14/2)
            mk(&[("add", "c", &[D]), ("add", "c", &[]), ("add", "c", &[D2]), ("remove", "c", &[D2]), ("add", "c", &[]), ("remove", "c", &[]), ("remove", "c", &[]), ("remove", "c", &[D])]),
            // full sweep over several blocks, reorg of the last second-level sweep only (seeded change C15/1)
            mk(&[("add", "c", &[F]), ("add", "c", &[U]), ("add", "c", &[S, T1]), ("add", "c", &[T2, V1]), ("add", "c", &[V2]),
                 ("remove", "c", &[V2]), ("add", "c", &[]), ("add", "c", &[V2]), ("remove", "c", &[V2]), ("remove", "c", &[]), ("remove", "c", &[T2, V1])]),
            // rejected streamed block (orphan at the start of a reorg), then streamed blocks again (seeded change C14/1 of round 2)
            mk(&[("add", "s", &[F]), ("orphan", "s", &[X0]), ("add", "s", &[U]), ("orphan", "s", &[]), ("remove", "s", &[U]), ("add", "s", &[M])]),
            // anchors channel closed by the counterparty's commitment: our to_remote output must be recognised and swept
            mk_t("a", &[("add", "c", &[F]), ("add", "c", &[UC]), ("add", "c", &[SC]), ("remove", "c", &[SC]), ("remove", "c", &[UC]), ("add", "c", &[U, S])]),
            mk_t("s", &[("add", "c", &[F, UC]), ("add", "s", &[SC]), ("remove", "c", &[SC])]),
            // closed by a counterparty commitment that pays us nothing: swept from the start; reorg of the close
            mk_t("a", &[("add", "c", &[F]), ("add", "s", &[UN]), ("add", "c", &[]), ("remove", "c", &[]), ("remove", "s", &[UN]), ("add", "c", &[UN])]),
            // a reorg exactly as deep as the header window (MAX_REORG_SIZE = 100), then the chain grows again
            {
                let mut v = vec![typed_init("s")];
                v.push(line("add", "c", &[F]));
                v.push("addn 100".to_string());
                v.push("removen 100".to_string());
                v.push(line("add", "c", &[M]));
                v
            },
            // an outpoint seen spent before a restart must still be reported in the reverse watches after it: mutual close,
            // restart, reorg of the close with follower-built compact proofs (several blocks, so that both proof styles occur)
            {
                let mut v = vec![typed_init("s")];
                v.push(line("add", "c", &[F]));
                v.push(line("add", "c", &[M]));
                v.push("restart".to_string());
                v.push(line("remove", "c", &[M]));
                v.push(line("add", "c", &[M]));
                v.push("restart".to_string());
                v.push(line("add", "c", &[]));
                v.push(line("remove", "c", &[]));
                v.push(line("remove", "c", &[M]));
                v.push(line("add", "c", &[U]));
                v
            },
            // closed by the counterparty's previous, not yet revoked commitment carrying an HTLC; sweeps; reorg through them
            mk_t("a", &[("add", "c", &[F]), ("add", "c", &[UP]), ("add", "s", &[SP, TP]), ("add", "c", &[VP]), ("remove", "c", &[VP]), ("remove", "c", &[SP, TP]), ("remove", "c", &[UP]), ("add", "c", &[UP, TP])]),
            // everything in one block
            mk(&[("add", "c", &[F, U, S, T12, V12A, V12B]), ("remove", "c", &[F, U, S, T12, V12A, V12B]), ("add", "c", &[D])]),
        ]
    }
    fn gen_case(&self, rng: &mut Rng, tier: Tier) -> Vec<String> {
        // (CommitmentType::Legacy is refused by validate_setup_channel: "unsafe commitment type")
        let ct = if rng.chance(1, 2) { "s" } else { "a" };
        let mut ops = vec![typed_init(ct)];
        let mut plan = Plan::default();
        let delivery = |rng: &mut Rng| if rng.chance(1, 3) { "s" } else { "c" };
        let rdelivery = |rng: &mut Rng| if super::c13::REMOVE_EXPECTS_TIP_HASH && rng.chance(1, 3) { "s" } else { "c" };
        match rng.below(10) {
            // directed family A: two independent double-spends of different funding inputs at different
            // heights, then a reorg of a suffix that undoes only the later one (or both), then more blocks
            0 | 1 => {
                let (first, second) = if rng.chance(1, 2) { (D, D2) } else { (D2, D) };
                let mut push = |ops: &mut Vec<String>, plan: &mut Plan, rng: &mut Rng, blk: Vec<u64>| {
                    ops.push(line("add", delivery(rng), &blk));
                    plan.blocks.push(blk);
                };
                for _ in 0..rng.below(2) { push(&mut ops, &mut plan, rng, vec![]); }
                let b1 = if rng.chance(1, 4) { vec![first, X0] } else { vec![first] };
                push(&mut ops, &mut plan, rng, b1);
                let gap = rng.below(3);
                for _ in 0..gap { push(&mut ops, &mut plan, rng, vec![]); }
                push(&mut ops, &mut plan, rng, vec![second]);
                let tail = rng.below(3);
                for _ in 0..tail { push(&mut ops, &mut plan, rng, vec![]); }
                // undo exactly down to (and including) the second double-spend, sometimes one block more / all
                let depth = match rng.below(4) { 0 => tail + 1 + gap + 1, 1 => tail + 1 + rng.below(gap + 1), _ => tail + 1 };
                for _ in 0..depth.min(plan.blocks.len() as u64) {
                    let blk = plan.blocks.pop().unwrap();
                    ops.push(line("remove", rdelivery(rng), &blk));
                }
                for _ in 0..rng.below(3) {
                    let blk = gen_block(rng, &plan, true);
                    ops.push(line("add", delivery(rng), &blk));
                    plan.blocks.push(blk);
                }
                return ops;
            }
            // directed family B: funding, unilateral close, then the sweeps (our output, HTLC spends, second-level
            // spends) spread over several blocks until everything is swept; reorg of any suffix; optionally re-mined
            2 | 3 | 4 => {
                // which commitment closes the channel: ours, the counterparty's current one, or its previous unrevoked one
                let close_tx = match rng.below(4) { 0 | 1 => U, 2 => UP, _ => UC };
                let mut first = vec![F];
                if rng.chance(1, 3) { first.push(close_tx); }
                ops.push(line("add", delivery(rng), &first));
                plan.blocks.push(first.clone());
                if !first.contains(&close_tx) {
                    ops.push(line("add", delivery(rng), &[close_tx]));
                    plan.blocks.push(vec![close_tx]);
                }
                let mut n_sweep_blocks = 0u64;
                loop {
                    let av: Vec<u64> = available(&plan.confirmed(), 0);
                    if av.is_empty() { break; }
                    let mut blk = Vec::new();
                    let mut conf = plan.confirmed();
                    for _ in 0..rng.range(1, 2) {
                        let av = available(&conf, 0);
                        if av.is_empty() { break; }
                        let x = *rng.pick(&av);
                        blk.push(x);
                        conf.push(x);
                    }
                    if rng.chance(1, 4) { ops.push(line("add", delivery(rng), &[])); plan.blocks.push(vec![]); n_sweep_blocks += 1; }
                    ops.push(line("add", delivery(rng), &blk));
                    plan.blocks.push(blk);
                    n_sweep_blocks += 1;
                    if rng.chance(1, 8) { break; } // sometimes stop before everything is swept
                }
                let depth = rng.range(1, n_sweep_blocks.max(1).min(6));
                let mut removed = Vec::new();
                for _ in 0..depth {
                    let blk = plan.blocks.pop().unwrap();
                    ops.push(line("remove", rdelivery(rng), &blk));
                    removed.push(blk);
                }
                match rng.below(3) {
                    0 => {}
                    1 => {
                        // re-mine the same transactions in a different grouping
                        let mut all: Vec<u64> = removed.iter().rev().flatten().cloned().collect();
                        while !all.is_empty() {
                            let k = (rng.range(1, 3) as usize).min(all.len());
                            let blk: Vec<u64> = all.drain(..k).collect();
                            ops.push(line("add", delivery(rng), &blk));
                            plan.blocks.push(blk);
                        }
                    }
                    _ => {
                        for _ in 0..rng.range(1, 3) {
                            let blk = gen_block(rng, &plan, true);
                            ops.push(line("add", delivery(rng), &blk));
                            plan.blocks.push(blk);
                        }
                    }
                }
                return ops;
            }
            _ => {}
        }
        let steps = rng.range(3, if tier == Tier::Quick { 9 } else { 16 });
        let aggressive = rng.chance(2, 3);
        for _ in 0..steps {
            if rng.chance(1, 5) { ops.push("restart".to_string()); }
            if rng.chance(1, 6) {
                // a block of the competing branch arrives before the disconnections: refused as orphan
                let blk = if rng.chance(1, 2) { vec![X0 + 3] } else { vec![] };
                ops.push(line("orphan", if rng.chance(2, 3) { "s" } else { "c" }, &blk));
            }
            let do_reorg = !plan.blocks.is_empty() && rng.chance(1, 3);
            if do_reorg {
                let depth = rng.range(1, (plan.blocks.len() as u64).min(6));
                for _ in 0..depth {
                    let blk = plan.blocks.pop().unwrap();
                    // streamed removal only where the source can accept it (finding F17, see C13)
                    let del = if super::c13::REMOVE_EXPECTS_TIP_HASH && rng.chance(1, 3) { "s" } else { "c" };
                    ops.push(line("remove", del, &blk));
                }
                let readd = rng.range(0, depth + 1);
                for _ in 0..readd {
                    let blk = gen_block(rng, &plan, aggressive);
                    ops.push(line("add", if rng.chance(1, 3) { "s" } else { "c" }, &blk));
                    plan.blocks.push(blk);
                }
            } else {
                let blk = gen_block(rng, &plan, aggressive);
                ops.push(line("add", if rng.chance(1, 3) { "s" } else { "c" }, &blk));
                plan.blocks.push(blk);
            }
        }
        ops
    }
    fn exec_case(&self, ops: &[String]) -> CaseOut {
        let mut co = CaseOut::default();
        let mut w: Option<World> = None;
        let mut chain: Vec<Vec<u64>> = Vec::new(); // surviving chain (pool ids per block)
        let mut dead = false;
        let mut relevant_reorg = false;
        let mut ct = "s".to_string();
        let mut htlc_reorg_seen = false; // a block with an HTLC / second-level spend was disconnected earlier in this case
        for (i, op) in ops.iter().enumerate() {
            let t: Vec<&str> = op.split_whitespace().collect();
            if dead {
                co.out.push("dead".into());
                continue;
            }
            let l = match t.as_slice() {
                ["init", ..] => {
                    ct = op.split(" | ").nth(1).unwrap_or("s").trim().to_string();
                    let nw = World::new_typed(&ct);
                    let d = nw.digest();
                    w = Some(nw);
                    chain.clear();
                    format!("ok {}", d)
                }
                ["restart"] => {
                    let wd = w.as_mut().expect("init first");
                    match wd.restart() {
                        StepResult::Ok => {
                            co.tags.insert("restart".into());
                            let view = strip_sb(&wd.digest());
                            let reference = expected_view(wd, &chain);
                            if view != reference {
                                co.violations.push(Violation { kind: "view-differs-from-chain".into(),
                                    desc: format!("after the restart the monitor shows [{}] but the surviving chain implies [{}]", view, reference), at: i });
                            }
                            format!("ok {}", wd.digest())
                        }
                        StepResult::Err(e) | StepResult::Panic(e) => {
                            dead = true;
                            co.violations.push(Violation { kind: "restart-abort".into(), desc: format!("restore_node failed: {}", e), at: i });
                            "panic".to_string()
                        }
                    }
                }
                [dirn @ ("addn" | "removen"), k] => {
                    // k empty blocks connected / disconnected in a row (compact), monitors at the end
                    let wd = w.as_mut().expect("init first");
                    let k: usize = k.parse().unwrap();
                    let mut res = String::new();
                    for j in 0..k {
                        let r = if *dirn == "addn" { wd.add_block(&[], false) } else { wd.remove_block(&[]) };
                        match r {
                            StepResult::Ok => { if *dirn == "addn" { chain.push(vec![]); } else { chain.pop(); } }
                            StepResult::Err(e) => {
                                co.violations.push(Violation { kind: "valid-block-rejected".into(),
                                    desc: format!("{}: request {} of {} (a valid {} with a correct proof) was rejected: {}", op, j + 1, k, if *dirn == "addn" { "connection" } else { "disconnection" }, e), at: i });
                                res = format!("err {}", wd.digest());
                                break;
                            }
                            StepResult::Panic(msg) => {
                                dead = true;
                                co.violations.push(Violation { kind: if *dirn == "removen" { "reorg-abort".into() } else { "add-abort".into() }, desc: format!("{} panicked: {}", op, msg), at: i });
                                res = "panic".into();
                                break;
                            }
                        }
                    }
                    if res.is_empty() {
                        co.tags.insert(format!("{}:{}", dirn, k));
                        let view = strip_sb(&wd.digest());
                        let reference = expected_view(wd, &chain);
                        if view != reference {
                            co.violations.push(Violation { kind: "view-differs-from-chain".into(),
                                desc: format!("after {} the monitor shows [{}] but the surviving chain implies [{}]", op, view, reference), at: i });
                        }
                        res = format!("ok {}", wd.digest());
                    }
                    res
                }
                ["orphan", delivery, rest @ ..] => {
                    let wd = w.as_mut().expect("init first");
                    let ids: Vec<u64> = rest.iter().map(|tk| parse_token_id(tk)).collect();
                    let before = wd.digest();
                    match wd.add_orphan(&ids, *delivery == "s") {
                        StepResult::Panic(msg) => {
                            dead = true;
                            co.violations.push(Violation { kind: "add-abort".into(), desc: format!("an orphan block panicked inside the implementation: {}", msg), at: i });
                            "panic".to_string()
                        }
                        StepResult::Ok => {
                            co.violations.push(Violation { kind: "orphan-block-accepted".into(), desc: format!("{} was accepted", op), at: i });
                            format!("ok {}", wd.digest())
                        }
                        StepResult::Err(_) => {
                            co.tags.insert(format!("orphan-refused:{}", if *delivery == "s" { "streamed" } else { "compact" }));
                            let after = wd.digest();
                            // (the block chunks set the monitors' saw_block flag, which is outside the view)
                            if strip_sb(&after) != strip_sb(&before) {
                                co.violations.push(Violation { kind: "rejected-block-changed-view".into(), desc: format!("{} refused but the view changed: [{}] -> [{}]", op, before, after), at: i });
                            }
                            format!("rej {}", after)
                        }
                    }
                }
                [dir @ ("add" | "remove"), delivery, rest @ ..] => {
                    let wd = w.as_mut().expect("init first");
                    let ids: Vec<u64> = rest.iter().map(|tk| parse_token_id(tk)).collect();
                    let streamed = *delivery == "s";
                    let r = if *dir == "add" { wd.add_block(&ids, streamed) } else { wd.remove_block_with(&ids, streamed) };
                    match r {
                        StepResult::Panic(msg) => {
                            dead = true;
                            co.tags.insert(format!("{}:panic", dir));
                            let breach = *dir == "add" && ids.contains(&UR) && msg.contains("valid spendable HTLC indices");
                            co.violations.push(Violation {
                                kind: if breach { "revoked-commitment-close-abort".into() } else if *dir == "remove" { "reorg-abort".into() } else { "add-abort".into() },
                                desc: format!("{} of a consensus-valid block panicked inside the implementation: {}", dir, msg),
                                at: i,
                            });
                            "panic".to_string()
                        }
                        StepResult::Err(e) => {
                            co.tags.insert(format!("{}:err", dir));
                            co.violations.push(Violation {
                                kind: "valid-block-rejected".into(),
                                desc: format!("{} of a valid block with a correct proof was rejected: {}", dir, e),
                                at: i,
                            });
                            format!("err {}", wd.digest())
                        }
                        StepResult::Ok => {
                            if *dir == "add" {
                                // the decoder is an input of the model; check it against what the harness built: the output
                                // the closing transaction pays to us and its HTLC outputs must be the ones the monitor tracks
                                for cid in [U, UC, UR, UN, UP] {
                                    // (only meaningful if the funding transaction is on the chain: otherwise the block is not a close)
                                    if ids.contains(&cid) && (ids.contains(&F) || chain.iter().any(|b| b.contains(&F))) {
                                        let st = wd.state_json();
                                        let co_ = &st["closing_outpoints"];
                                        let (bo, bh) = wd.built[&cid].clone();
                                        let seen_our = co_["our_output"].get(0).and_then(|x| x.as_u64()).map(|x| x as u32);
                                        let mut seen_h: Vec<u32> = co_["htlc_outputs"].as_array().map(|a| a.iter().filter_map(|x| x.as_u64()).map(|x| x as u32).collect()).unwrap_or_default();
                                        seen_h.sort();
                                        co.tags.insert(format!("close:{}:{}", if cid == U { "holder-commitment" } else if cid == UC { "counterparty-commitment" } else if cid == UN { "counterparty-commitment-nothing-ours" } else if cid == UP { "counterparty-previous-unrevoked-commitment" } else { "revoked-counterparty-commitment" }, wd.ctype));
                                        if seen_our != bo || seen_h != bh {
                                            co.violations.push(Violation {
                                                kind: "our-output-not-recognised".into(),
                                                desc: format!("channel type {}: closing tx {} pays us output {:?} and HTLC outputs {:?}, the monitor tracks our={:?} htlcs={:?}", wd.ctype, cid, bo, bh, seen_our, seen_h),
                                                at: i,
                                            });
                                        }
                                    }
                                }
                                chain.push(ids.clone());
                                co.tags.insert(format!("add:{}", if streamed { "streamed" } else { "compact" }));
                                if ids.contains(&U) && ids.contains(&S) { co.tags.insert("close+sweep-one-block".into()); }
                                if ids.contains(&F) && (ids.contains(&U) || ids.contains(&M)) { co.tags.insert("funding+close-one-block".into()); }
                            } else {
                                chain.pop();
                                co.tags.insert(format!("remove:{}", if streamed { "streamed" } else { "compact" }));
                                if ids.iter().any(|x| *x < X0) {
                                    relevant_reorg = true;
                                    co.tags.insert("remove:relevant".into());
                                }
                                for (id, tag) in [(F, "funding"), (D, "doublespend"), (D2, "doublespend"), (M, "mutual"), (U, "unilateral"), (UC, "unilateral-cp"), (UN, "unilateral-cp"), (UP, "unilateral-cp"), (SP, "sweep"), (TP, "htlc"), (VP, "second-level"), (TC, "htlc"), (VC, "second-level"), (S, "sweep"), (SC, "sweep"),
                                                  (T1, "htlc"), (T2, "htlc"), (T12, "htlc"), (V1, "second-level"), (V2, "second-level"),
                                                  (V12A, "second-level"), (V12B, "second-level")] {
                                    if ids.contains(&id) { co.tags.insert(format!("reorg-of:{}", tag)); }
                                }
                            }
                            if *dir == "remove" && ids.iter().any(|x| [T1, T2, T12, V1, V2, V12A, V12B, TP, VP, TC, VC].contains(x)) {
                                htlc_reorg_seen = true;
                            }
                            // property monitor: view == fresh replay of the surviving chain
                            let view = strip_sb(&wd.digest());
                            // ... and == the reference view the harness derives from its own knowledge of the chain
                            // (catches deviations that a replay through the same implementation would repeat)
                            let reference = expected_view(wd, &chain);
                            if view != reference {
                                co.tags.insert("violation:view-differs-from-chain".into());
                                co.violations.push(Violation {
                                    kind: "view-differs-from-chain".into(),
                                    desc: format!("after {} the monitor shows [{}] but the surviving chain implies [{}]", op, view, reference),
                                    at: i,
                                });
                            }
                            let fresh = {
                                let mut f = World::new_typed(&ct);
                                let mut ok = true;
                                for b in &chain {
                                    if !matches!(f.add_block(b, false), StepResult::Ok) { ok = false; break; }
                                }
                                if ok { strip_sb(&f.digest()) } else { "replay-failed".into() }
                            };
                            if view != fresh {
                                let (sv, wv) = split_watches(&view);
                                let (sf, wf) = split_watches(&fresh);
                                let kind = if sv == sf && wv != wf && htlc_reorg_seen {
                                    "htlc-reorg-watches-not-restored"
                                } else if sv == sf {
                                    "watches-differ-from-replay"
                                } else {
                                    "view-differs-from-replay"
                                };
                                co.tags.insert(format!("violation:{}", kind));
                                co.violations.push(Violation {
                                    kind: kind.into(),
                                    desc: format!("after {} the monitor view is [{}] but a fresh replay of the surviving chain gives [{}]", op, view, fresh),
                                    at: i,
                                });
                            }
                            if *dir == "add" { format!("ok {} hyp=1", wd.digest()) } else { format!("ok {}", wd.digest()) }
                        }
                    }
                }
                _ => "bad-op".to_string(),
            };
            co.out.push(l);
        }
        if w.as_ref().map(|x| x.filter_false_positives > 0).unwrap_or(false) {
            co.tags.insert("filter-false-positive:delivered-streamed".into());
        }
        co.nontrivial = relevant_reorg;
        co
    }
}

fn strip_sb(d: &str) -> String {
    d.split(' ').filter(|t| !t.starts_with("sb=")).collect::<Vec<_>>().join(" ")
}

/// (state part, watches part)
fn split_watches(d: &str) -> (String, String) {
    let (mut a, mut b) = (Vec::new(), Vec::new());
    for t in d.split(' ') {
        if t.starts_with("w=") || t.starts_with("seen=") { b.push(t) } else { a.push(t) }
    }
    (a.join(" "), b.join(" "))
}

/// Implementation-only group with the breach witnesses (finding F20): a block confirming an OLD, revoked
/// counterparty commitment of the channel, its sweeps, and a reorg through them.  Runs on every tree; the main
/// group generates such closes only where the source survives them.
pub struct C14Breach;

impl Group for C14Breach {
    fn property(&self) -> &'static str { "C14" }
    fn model(&self) -> Option<&'static str> { None }
    fn rule(&self) -> &'static str {
        "breach: old revoked counterparty commitment confirmed (static-remotekey and anchors channels, compact and streamed), \
         swept, reorged; fixed witnesses only; non-trivial = the close was processed"
    }
    fn budget(&self, _tier: Tier) -> usize { 0 }
    fn corpus(&self) -> Vec<Vec<String>> {
        let mut v = Vec::new();
        for ct in ["s", "a"] {
            for del in ["c", "s"] {
                let mut ops = vec![typed_init(ct)];
                ops.push(line("add", "c", &[F]));
                ops.push(line("add", del, &[UR]));
                ops.push(line("add", "c", &[SR, JR]));
                ops.push(line("remove", "c", &[SR, JR]));
                ops.push(line("remove", "c", &[UR]));
                ops.push(line("add", "c", &[UR, SR]));
                v.push(ops);
            }
        }
        v
    }
    fn gen_case(&self, _rng: &mut Rng, _tier: Tier) -> Vec<String> { vec![] }
    fn exec_case(&self, ops: &[String]) -> CaseOut {
        let mut co = C14.exec_case(ops);
        co.nontrivial = co.tags.iter().any(|t| t.starts_with("close:revoked"));
        co
    }
}

pub fn groups() -> Vec<Box<dyn Group>> {
    vec![Box::new(C14), Box::new(C14Breach)]
}
