//! C17, glue level: the code that sits between the wire and the tag checks and acts on their verdicts.
//!
//! * `istate`: the real `vls_util::persist::ExternalPersistWithHelper::init_state` (the only place where vlsd acts on
//!   `check_hmac` for a read reply) with a mock `ExternalPersist`: an honest storage server that tags its reply under
//!   the nonce it received, behind a man in the middle.  vls-util and vls-frontend are compiled WITHOUT debug
//!   assertions (see `harness/Cargo.toml.in`), as the shipped release binaries are: a refusal must not hang on a
//!   `debug_assert!`.  Monitor: a reply that is not exactly the honest reply to this request must never reach `state`.
//! * `pget` / `pput`: `PrivClient::get` / `PrivClient::put` of the LSS client driver, copied verbatim by
//!   `translate/x_lss.py` behind a mock transport.  Monitors: the request nonce has 32 bytes and is fresh for every
//!   request; a recorded / tampered / badly tagged reply is refused; the client tag covers exactly the prepared list;
//!   a forged server acknowledgement or a forged conflict list is refused.
use super::*;
use async_trait::async_trait;
use std::collections::BTreeMap;
use std::sync::{Arc, Mutex};
use vls_frontend::external_persist::{Error as EpError, ExternalPersist, Info};
use vls_util::persist::ExternalPersistWithHelper;

type Wire = Vec<(String, (u64, Vec<u8>))>;

fn wire_of(rs: &[Rec]) -> Option<Wire> {
    let mut w = Vec::new();
    for (k, v, x) in rs {
        w.push((String::from_utf8(k.clone()).ok()?, (*v, x.clone())));
    }
    Some(w)
}

fn recs_of(w: &Wire) -> Vec<Rec> {
    w.iter().map(|(k, (v, x))| (k.as_bytes().to_vec(), *v, x.clone())).collect()
}

/// honest server + man in the middle for `ExternalPersist::get`
struct MitmStore {
    secret: Vec<u8>,
    stored: Wire,
    mode: String,
    /// what went over the wire: (nonce received, records sent, tag sent)
    log: Mutex<Vec<(Vec<u8>, Wire, Vec<u8>)>>,
}

fn tamper_records(mode: &str, stored: &Wire) -> Wire {
    let mut r = stored.clone();
    match mode {
        "flip" => { if let Some(e) = r.iter_mut().find(|e| !e.1 .1.is_empty()) { e.1 .1[0] ^= 1; } else if !r.is_empty() { r[0].1 .1.push(1); } }
        "bump" => { if !r.is_empty() { r[0].1 .0 = r[0].1 .0.wrapping_add(1); } }
        "swapkeys" => { if r.len() > 1 { let k0 = r[0].0.clone(); r[0].0 = r[1].0.clone(); r[1].0 = k0; } else if !r.is_empty() { r[0].0.push('x'); } }
        "drop" => { r.pop(); }
        "dup" => { if !r.is_empty() { let mut d = r[0].clone(); d.1 .0 = d.1 .0.wrapping_sub(1); d.1 .1.push(0x5a); r.insert(0, d); } }
        "reorder" => { r.reverse(); if r == *stored && !r.is_empty() { r[0].0.push('y'); } }
        "extra" => { r.push(("zz/extra".to_string(), (0, vec![1, 2, 3]))); }
        _ => {}
    }
    r
}

#[async_trait]
impl ExternalPersist for MitmStore {
    async fn put(&self, _mutations: Mutations, _client_hmac: &[u8]) -> Result<Vec<u8>, EpError> {
        Err(EpError::NotAvailable)
    }
    async fn get(&self, _key_prefix: String, nonce: &[u8]) -> Result<(Mutations, Vec<u8>), EpError> {
        // the honest server tags what it stores under the nonce of this request
        let mut tag = ref_shared_tag(&self.secret, nonce, &recs_of(&self.stored));
        let records = tamper_records(&self.mode, &self.stored);
        match self.mode.as_str() {
            "tag31" => tag.truncate(31),
            "tag0" => tag.clear(),
            "tag33" => tag.push(0),
            "tagzero" => tag = vec![0u8; 32],
            "tagflip" => tag[7] ^= 0x10,
            // a reply recorded for another request: right records, tag under another nonce
            "replay" => tag = ref_shared_tag(&self.secret, &[0x5au8; 32], &recs_of(&self.stored)),
            "replay0" => tag = ref_shared_tag(&self.secret, &[0u8; 32], &recs_of(&self.stored)),
            "noncefree" => tag = ref_shared_tag(&self.secret, &[], &recs_of(&self.stored)),
            "client" => tag = ref_shared_tag(&self.secret, &[1u8], &recs_of(&self.stored)),
            _ => {}
        }
        self.log.lock().unwrap().push((nonce.to_vec(), records.clone(), tag.clone()));
        Ok((Mutations::from_vec(records), tag))
    }
    async fn info(&self) -> Result<Info, EpError> {
        Err(EpError::NotAvailable)
    }
}

pub const ISTATE_MODES: [&str; 18] = [
    "honest", "flip", "bump", "swapkeys", "drop", "dup", "reorder", "extra", "tag31", "tag0", "tag33", "tagzero", "tagflip",
    "replay", "replay0", "noncefree", "client", "honest",
];

/// `istate S MODE (K V X)*`
pub fn exec_istate(t: &[&str], i: usize, co: &mut CaseOut) -> String {
    let (s, mode, rs) = (unhex(t[1]), t[2].to_string(), parse_recs(&t[3..]));
    let s32 = match arr32(&s) { Some(a) => a, None => return "bad-secret".into() };
    let stored = match wire_of(&rs) { Some(w) => w, None => return "bad-key".into() };
    let store = Arc::new(MitmStore { secret: s.clone(), stored: stored.clone(), mode: mode.clone(), log: Mutex::new(vec![]) });
    struct Fwd(Arc<MitmStore>);
    #[async_trait]
    impl ExternalPersist for Fwd {
        async fn put(&self, m: Mutations, h: &[u8]) -> Result<Vec<u8>, EpError> { self.0.put(m, h).await }
        async fn get(&self, p: String, n: &[u8]) -> Result<(Mutations, Vec<u8>), EpError> { self.0.get(p, n).await }
        async fn info(&self) -> Result<Info, EpError> { self.0.info().await }
    }
    let client: Box<dyn ExternalPersist> = Box::new(Fwd(store.clone()));
    let eph = ExternalPersistWithHelper {
        persist_client: Arc::new(tokio::sync::Mutex::new(client)),
        state: Arc::new(Mutex::new(BTreeMap::new())),
        helper: ExternalPersistHelper::new(s32),
    };
    let rt = tokio::runtime::Builder::new_current_thread().build().expect("runtime");
    let refused = std::panic::catch_unwind(std::panic::AssertUnwindSafe(|| rt.block_on(eph.init_state()))).is_err();
    let state: Wire = match eph.state.lock() { Ok(g) => g.iter().map(|(k, v)| (k.clone(), v.clone())).collect(), Err(p) => p.into_inner().iter().map(|(k, v)| (k.clone(), v.clone())).collect() };
    let log = store.log.lock().unwrap().clone();
    // reference verdict: the reply that went over the wire is genuine iff its tag is the tag of exactly the records sent
    // under exactly the nonce of this request
    let genuine = log.len() == 1 && log[0].2 == ref_shared_tag(&s, &log[0].0, &recs_of(&log[0].1)) && log[0].0.len() == 32;
    if let Some((nonce, _, _)) = log.first() {
        if nonce.len() != 32 {
            co.violations.push(Violation { kind: "c17-nonce-malformed".into(), at: i,
                desc: format!("init_state sent a read request with a {}-byte nonce ({})", nonce.len(), hexs(nonce)) });
        }
    }
    if !genuine && !state.is_empty() {
        co.violations.push(Violation {
            kind: "c17-forged-tag-accepted:restore-state".into(),
            desc: format!("init_state (vlsd's restore-time read) copied an unauthenticated reply into the state: mode {}, records sent [{}], tag sent {}, state now holds {} records (call {})",
                mode, log.first().map(|l| show_recs(&recs_of(&l.1))).unwrap_or_default(), log.first().map(|l| hexs(&l.2)).unwrap_or_default(), state.len(),
                if refused { "panicked afterwards" } else { "returned normally" }),
            at: i,
        });
    }
    if genuine {
        let mut want: Wire = stored.clone();
        want.sort();
        want.dedup_by(|a, b| a.0 == b.0);
        let as_map: BTreeMap<String, (u64, Vec<u8>)> = stored.iter().cloned().collect();
        let got: BTreeMap<String, (u64, Vec<u8>)> = state.iter().cloned().collect();
        if refused || got != as_map {
            co.violations.push(Violation { kind: "c17-genuine-reply-refused".into(), at: i,
                desc: format!("init_state did not take over the honest reply to its own request ({} records; {})", stored.len(), if refused { "refused" } else { "state differs" }) });
        }
    }
    co.tags.insert(format!("istate:{}:{}", mode, if refused { "refused" } else { "taken" }));
    format!("{} {}", if refused { "refused" } else { "taken" }, state.len())
}

pub const PGET_MODES: [&str; 12] = ["honest", "replay", "flip", "swapblobs", "drop", "tag31", "tag0", "tag33", "tagflip", "noncefree", "replay0", "honest"];

/// `pget S HS MODE N (K V X)*`: N consecutive `PrivClient::get` calls of one client against a server holding the records
pub fn exec_pget(t: &[&str], i: usize, co: &mut CaseOut) -> String {
    let (s, hs, mode) = (unhex(t[1]), unhex(t[2]), t[3].to_string());
    let n: usize = t[4].parse().unwrap_or(1);
    let rs = parse_recs(&t[5..]);
    if wire_of(&rs).is_none() { return "bad-key".into(); }
    // what the server holds: the values as the client stored them
    let stored: Vec<(String, Value)> = rs.iter().map(|(k, v, x)| {
        let ks = String::from_utf8(k.clone()).unwrap();
        let mut val = Value { version: *v as i64, value: x.clone() };
        lssu::prepare_value_for_put(&hs, &ks, &mut val);
        (ks, val)
    }).collect();
    let as_recs = |l: &Vec<(String, Value)>| -> Vec<Rec> { l.iter().map(|(k, v)| (k.as_bytes().to_vec(), v.version as u64, v.value.clone())).collect() };
    let mut nonces: Vec<Vec<u8>> = Vec::new();
    let mut first_reply: Option<(Vec<(String, Value)>, Vec<u8>)> = None;
    let mut outs = Vec::new();
    for r in 0..n {
        let mut sent: Option<(Vec<u8>, Vec<(String, Value)>, Vec<u8>)> = None;
        let res = {
            let mut transport = |_prefix: String, nonce: &[u8]| -> Result<(Vec<(String, Value)>, Vec<u8>), lss::driver::ClientError> {
                let mut tag = ref_shared_tag(&s, nonce, &as_recs(&stored));
                let mut recs = stored.clone();
                let active = r > 0 || mode != "replay";
                match mode.as_str() {
                    "replay" if r > 0 => { if let Some((r0, t0)) = &first_reply { recs = r0.clone(); tag = t0.clone(); } }
                    "flip" => { if let Some(e) = recs.iter_mut().find(|e| !e.1.value.is_empty()) { let l = e.1.value.len(); e.1.value[l / 2] ^= 4; } }
                    "swapblobs" => { if recs.len() > 1 { let b = recs[0].1.value.clone(); recs[0].1.value = recs[1].1.value.clone(); recs[1].1.value = b; tag = ref_shared_tag(&s, nonce, &as_recs(&recs)); } else { recs[0].1.version += 1; tag = ref_shared_tag(&s, nonce, &as_recs(&recs)); } }
                    "drop" => { recs.pop(); }
                    "tag31" => tag.truncate(31),
                    "tag0" => tag.clear(),
                    "tag33" => tag.push(0),
                    "tagflip" => tag[3] ^= 2,
                    "noncefree" => tag = ref_shared_tag(&s, &[], &as_recs(&stored)),
                    "replay0" => tag = ref_shared_tag(&s, &[0u8; 32], &as_recs(&stored)),
                    _ => {}
                }
                let _ = active;
                sent = Some((nonce.to_vec(), recs.clone(), tag.clone()));
                Ok((recs, tag))
            };
            std::panic::catch_unwind(std::panic::AssertUnwindSafe(|| lss::driver::privclient_get(&s, &mut transport, &hs, "".to_string())))
        };
        let (nonce, recs_sent, tag_sent) = match sent { Some(x) => x, None => { outs.push("no-request".to_string()); continue; } };
        if r == 0 { first_reply = Some((recs_sent.clone(), tag_sent.clone())); }
        if nonce.len() != 32 {
            co.violations.push(Violation { kind: "c17-nonce-malformed".into(), at: i,
                desc: format!("PrivClient::get sent request {} with a {}-byte nonce ({}); the nonce of a read must be 32 fresh bytes", r + 1, nonce.len(), hexs(&nonce)) });
        }
        if nonces.contains(&nonce) {
            co.violations.push(Violation { kind: "c17-nonce-reused".into(), at: i,
                desc: format!("PrivClient::get sent request {} under the nonce {} of an earlier request", r + 1, hexs(&nonce)) });
        }
        // reference verdict: tag over exactly the records sent under exactly this request's nonce, every blob genuine
        let tag_ok = tag_sent == ref_shared_tag(&s, &nonce, &as_recs(&recs_sent));
        let blobs_ok = recs_sent.iter().all(|(k, v)| {
            let mut plain = v.value.clone();
            lssu::crypt_value(&hs, k, v.version, &mut plain);
            plain.len() >= 32 && plain[plain.len() - 32..] == ref_value_tag(&hs, &(k.as_bytes().to_vec(), v.version as u64, plain[..plain.len() - 32].to_vec()))[..]
        });
        let replayed = r > 0 && mode == "replay" && nonces.first() != Some(&nonce);
        // (a server that holds the shared secret decides which records exist; what protects the contents against it are
        // the per-value tags: every blob must be a genuine blob of its own key and version)
        let genuine = tag_ok && blobs_ok && !replayed && nonce.len() == 32;
        match &res {
            Ok(Ok(list)) => {
                if !genuine {
                    let kind = if r > 0 && mode == "replay" { "c17-replayed-reply-accepted".to_string() } else { format!("c17-forged-tag-accepted:get-reply-{}", mode) };
                    co.violations.push(Violation { kind, at: i,
                        desc: format!("PrivClient::get accepted the reply to request {} (mode {}): records sent [{}], tag {}, request nonce {}", r + 1, mode, show_recs(&as_recs(&recs_sent)), hexs(&tag_sent), hexs(&nonce)) });
                } else if recs_sent == stored {
                    let want: Vec<Vec<u8>> = rs.iter().map(|r| r.2.clone()).collect();
                    if list.iter().map(|(_, v)| v.value.clone()).collect::<Vec<_>>() != want {
                        co.violations.push(Violation { kind: "c17-forged-tag-accepted:stored-value-not-as-written".into(), at: i,
                            desc: "PrivClient::get returned contents that differ from what was written".into() });
                    }
                }
                outs.push("ok".to_string());
            }
            Ok(Err(_)) => {
                if genuine {
                    co.violations.push(Violation { kind: "c17-genuine-reply-refused".into(), at: i,
                        desc: format!("PrivClient::get refused the honest reply to request {}", r + 1) });
                }
                outs.push("err".to_string());
            }
            Err(_) => {
                co.violations.push(Violation { kind: "c17-verifier-panicked".into(), at: i, desc: format!("PrivClient::get panicked on the reply to request {}", r + 1) });
                outs.push("panic".to_string());
            }
        }
        nonces.push(nonce);
    }
    co.tags.insert(format!("pget:{}", mode));
    outs.join(",")
}

pub const PPUT_MODES: [&str; 8] = ["honest", "ackflip", "ack31", "ackempty", "ackclient", "conflict", "conflictforged", "honest"];

/// `pput S HS MODE (K V X)*`: one `PrivClient::put`
pub fn exec_pput(t: &[&str], i: usize, co: &mut CaseOut) -> String {
    let (s, hs, mode) = (unhex(t[1]), unhex(t[2]), t[3].to_string());
    let rs = parse_recs(&t[4..]);
    if wire_of(&rs).is_none() { return "bad-key".into(); }
    let kvs: Vec<(String, Value)> = rs.iter().map(|(k, v, x)| (String::from_utf8(k.clone()).unwrap(), Value { version: *v as i64, value: x.clone() })).collect();
    let as_recs = |l: &Vec<(String, Value)>| -> Vec<Rec> { l.iter().map(|(k, v)| (k.as_bytes().to_vec(), v.version as u64, v.value.clone())).collect() };
    let mut sent: Option<(Vec<(String, Value)>, Vec<u8>)> = None;
    let mut forged_conflict = false;
    let res = {
        let mut transport = |list: Vec<(String, Value)>, client_hmac: &[u8]| -> Result<Vec<u8>, lss::driver::ClientError> {
            sent = Some((list.clone(), client_hmac.to_vec()));
            let mut ack = ref_shared_tag(&s, &[2u8], &as_recs(&list));
            match mode.as_str() {
                "ackflip" => ack[0] ^= 1,
                "ack31" => ack.truncate(31),
                "ackempty" => ack.clear(),
                "ackclient" => ack = client_hmac.to_vec(),
                "conflict" | "conflictforged" => {
                    // the server answers with the values it holds for the keys (one version below), as stored by the client
                    let mut conflicts: Vec<(String, Value)> = list.iter().map(|(k, v)| {
                        let mut val = Value { version: v.version.wrapping_sub(1), value: vec![0x63, 0x6f] };
                        lssu::prepare_value_for_put(&hs, k, &mut val);
                        (k.clone(), val)
                    }).collect();
                    if mode == "conflictforged" {
                        let l = conflicts[0].1.value.len();
                        conflicts[0].1.value[l / 2] ^= 8;
                        forged_conflict = true;
                    }
                    return Err(lss::driver::ClientError::PutConflict(conflicts));
                }
                _ => {}
            }
            Ok(ack)
        };
        std::panic::catch_unwind(std::panic::AssertUnwindSafe(|| lss::driver::privclient_put(&s, &mut transport, &hs, kvs.clone())))
    };
    let (list_sent, client_tag) = match sent { Some(x) => x, None => return "no-request".into() };
    // the client tag must cover exactly the list that goes out, under the client domain
    if client_tag != ref_shared_tag(&s, &[1u8], &as_recs(&list_sent)) {
        co.violations.push(Violation { kind: "c17-tag-not-over-exact-input".into(), at: i,
            desc: format!("PrivClient::put sent client tag {} which is not the tag of the list it sent [{}]", hexs(&client_tag), show_recs(&as_recs(&list_sent))) });
    }
    co.tags.insert(format!("pput:{}", mode));
    match res {
        Ok(Ok(())) => {
            if mode != "honest" {
                co.violations.push(Violation { kind: format!("c17-forged-tag-accepted:put-ack-{}", mode), at: i,
                    desc: format!("PrivClient::put accepted the acknowledgement of mode {}", mode) });
            }
            "ok".into()
        }
        Ok(Err(lss::driver::ClientError::PutConflict(_))) => {
            if forged_conflict {
                co.violations.push(Violation { kind: "c17-forged-tag-accepted:stored-list-entry".into(), at: i,
                    desc: "PrivClient::put returned a conflict list whose first entry does not carry a valid per-value tag".into() });
            }
            if mode == "honest" { co.violations.push(Violation { kind: "c17-genuine-reply-refused".into(), at: i, desc: "PrivClient::put reports a conflict for an honest acknowledgement".into() }); }
            "conflict".into()
        }
        Ok(Err(_)) => {
            if mode == "honest" {
                co.violations.push(Violation { kind: "c17-genuine-reply-refused".into(), at: i, desc: "PrivClient::put refused the honest acknowledgement".into() });
            }
            "err".into()
        }
        Err(_) => {
            co.violations.push(Violation { kind: "c17-verifier-panicked".into(), at: i, desc: "PrivClient::put panicked".into() });
            "panic".into()
        }
    }
}
