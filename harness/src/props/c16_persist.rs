//! C16, persister level: `KVVPersister` (vls-persist/src/kvv.rs) over the three store backends.
//!
//! Three real nodes built from the same seed run the same requests, each persisting through its own
//! `KVVPersister`: over a `MemoryKVVStore`, a real `RedbKVVStore` and a `CloudKVVStore<MemoryKVVStore>` (every
//! request bracketed by enter / prepare / commit, as the signer's handler does).  Implementation-only group (no Lean
//! model: the key/version discipline of the persister is judged by the monitors below, the stores themselves are
//! modelled in `kvv_pair` / `kvv_cloud`).
//!
//! Monitors: after every request the three stores hold the same keys, versions and bytes
//! (`c16-persister-backends-differ`); a request changes exactly the keys it is responsible for — named here
//! independently as `<prefix>/<hex node id>[/<hex channel id0>]` — and bumps each by exactly one version, a new key
//! starting at 0 (`c16-persister-wrong-keys`, `c16-persister-version-step`); no version ever goes down and no key
//! vanishes (`c16-version-decreased`); deletions write an empty tombstone one version up
//! (`c16-persister-delete`); `get_node_channels` / `get_channel` / `get_node_allowlist` / `get_nodes` return what
//! the last accepted writes put there (`c16-read-not-last-write`); `put_batch_unlogged` of a store's full
//! contents reproduces keys, versions and bytes in a fresh store (`c16-persister-unlogged-differs`);
//! `begin_replication` reports every record at version 0 with unchanged bytes (`c16-persister-replication`).
use crate::common::*;
use lightning_signer::bitcoin::bip32::DerivationPath;
use lightning_signer::bitcoin::hashes::Hash;
use lightning_signer::bitcoin::{Network, Txid};
use lightning_signer::channel::{ChannelId, ChannelSlot};
use lightning_signer::node::{Node, NodeConfig, NodeServices, SpendType};
use lightning_signer::persist::{Mutations, Persist};
use lightning_signer::policy::simple_validator::{make_default_simple_policy, SimpleValidatorFactory};
use lightning_signer::signer::derive::KeyDerivationStyle;
use lightning_signer::util::clock::ManualClock;
use lightning_signer::util::test_utils::*;
use std::collections::{BTreeMap, BTreeSet};
use std::sync::Arc;
use std::time::Duration;
use vls_persist::kvv::cloud::CloudKVVStore;
use vls_persist::kvv::memory::MemoryKVVStore;
use vls_persist::kvv::redb::RedbKVVStore;
use vls_persist::kvv::{JsonFormat, KVVPersister, KVVStore};

type Dump = BTreeMap<String, (u64, Vec<u8>)>;

fn services(persister: Arc<dyn Persist>) -> NodeServices {
    let mut policy = make_default_simple_policy(Network::Testnet);
    policy.max_channels = 100;
    NodeServices {
        validator_factory: Arc::new(SimpleValidatorFactory::new_with_policy(policy)),
        starting_time_factory: make_genesis_starting_time_factory(Network::Testnet),
        persister,
        clock: Arc::new(ManualClock::new(Duration::from_secs(1_600_000_000))),
        trusted_oracle_pubkeys: vec![],
    }
}

fn dump_of<S: KVVStore>(s: &S) -> Dump {
    s.get_prefix("").expect("get_prefix").map(|kvv| kvv.into_inner()).collect()
}

trait Backend {
    fn name(&self) -> &'static str;
    fn persist(&self) -> Arc<dyn Persist>;
    /// committed contents (cloud: the local store)
    fn dump(&self) -> Dump;
    fn begin(&self) {}
    fn end(&self) {}
}

struct MemB(Arc<KVVPersister<MemoryKVVStore, JsonFormat>>);
impl Backend for MemB {
    fn name(&self) -> &'static str { "memory" }
    fn persist(&self) -> Arc<dyn Persist> { self.0.clone() }
    fn dump(&self) -> Dump { dump_of(&self.0 .0) }
}
struct RedbB(Arc<KVVPersister<RedbKVVStore, JsonFormat>>, #[allow(dead_code)] tempfile::TempDir);
impl Backend for RedbB {
    fn name(&self) -> &'static str { "redb" }
    fn persist(&self) -> Arc<dyn Persist> { self.0.clone() }
    fn dump(&self) -> Dump { dump_of(&self.0 .0) }
}
struct CloudB(Arc<KVVPersister<CloudKVVStore<MemoryKVVStore>, JsonFormat>>);
impl Backend for CloudB {
    fn name(&self) -> &'static str { "cloud" }
    fn persist(&self) -> Arc<dyn Persist> { self.0.clone() }
    fn dump(&self) -> Dump {
        // get_prefix of the cloud store reads the local store only
        let mut d = dump_of(&self.0 .0);
        d.remove("_WRITER");
        d
    }
    fn begin(&self) { self.0.enter().expect("enter"); }
    fn end(&self) {
        let _ = self.0.prepare();
        self.0.commit().expect("commit");
    }
}

struct World {
    b: Box<dyn Backend>,
    node: Option<Arc<Node>>,
}

fn hexs(b: &[u8]) -> String { hex::encode(b) }

fn peer(i: u64) -> [u8; 33] {
    let mut p = [2u8; 33];
    p[32] = i as u8;
    p
}

pub struct C16Persist;

impl Group for C16Persist {
    fn property(&self) -> &'static str { "C16" }
    fn model(&self) -> Option<&'static str> { None }
    fn rule(&self) -> &'static str {
        "persister: three real nodes from one seed persist through KVVPersister over memory / redb / cloud(memory) stores; \
         requests: new node + tracker, allowlist changes, new channel stubs, channel setup (with and without a permanent \
         channel id), node-state and tracker updates, channel and node deletion, reads, put_batch_unlogged into a fresh store, \
         begin_replication; non-trivial = at least one channel was set up and one record deleted"
    }
    fn budget(&self, tier: Tier) -> usize { if tier == Tier::Quick { 120 } else { 2000 } }
    fn corpus(&self) -> Vec<Vec<String>> {
        let c = |s: &str| s.split('|').map(|x| x.to_string()).collect::<Vec<_>>();
        vec![
            c("pseed 07|pnew|pallow 2|pchan 1|psetup 1 0|pchan 2|psetup 2 1|gchans|gchan 1|gchan 2|pstate|ptracker|pdelchan 1|gchans|pallow 1|gallow|gnodes|punlogged|prepl|pstate|ptracker|pallow 2|gchans"),
            c("pseed 09|pnew|pchan 3|pdelchan 3|gchans|pstub 3|gchans|pchan 4|psetup 4 1|pdelnode|gnodes|punlogged"),
        ]
    }
    fn gen_case(&self, rng: &mut Rng, tier: Tier) -> Vec<String> {
        let mut ops = vec![format!("pseed {:02x}", rng.below(250) + 1), "pnew".to_string()];
        let n = rng.range(4, if tier == Tier::Quick { 14 } else { 30 });
        let mut next_chan = 1u64;
        let mut stubs: Vec<u64> = vec![];
        let mut ready: Vec<u64> = vec![];
        for _ in 0..n {
            match rng.below(12) {
                0 | 1 => { ops.push(format!("pchan {}", next_chan)); stubs.push(next_chan); next_chan += 1; }
                2 | 3 if !stubs.is_empty() => {
                    let i = stubs.remove(rng.below(stubs.len() as u64) as usize);
                    ops.push(format!("psetup {} {}", i, rng.below(2)));
                    ready.push(i);
                }
                4 => ops.push(format!("pallow {}", rng.below(4))),
                5 => ops.push("pstate".into()),
                6 => ops.push("ptracker".into()),
                7 if !ready.is_empty() || !stubs.is_empty() => {
                    let pool = if !ready.is_empty() && rng.chance(2, 3) { &mut ready } else if !stubs.is_empty() { &mut stubs } else { &mut ready };
                    let i = pool.remove(rng.below(pool.len() as u64) as usize);
                    ops.push(format!("pdelchan {}", i));
                }
                8 if !stubs.is_empty() && rng.chance(1, 2) => {
                    let i = *rng.pick(&stubs);
                    ops.push(format!("pdelchan {}", i));
                    ops.push(format!("pstub {}", i));
                    ops.push("gchans".into());
                }
                8 => ops.push("gchans".into()),
                9 if !ready.is_empty() => ops.push(format!("gchan {}", rng.pick(&ready))),
                10 => ops.push(rng.pick(&["gallow", "gnodes"]).to_string()),
                _ => ops.push("punlogged".into()),
            }
        }
        // sometimes replicate in the middle and keep writing: every record restarts at version 0 and goes on from there
        if rng.chance(1, 3) {
            ops.push("prepl".into());
            ops.push("pstate".into());
            ops.push("ptracker".into());
            if let Some(i) = ready.first() { ops.push(format!("pdelchan {}", i)); }
            ops.push("pallow 1".into());
        }
        if rng.chance(1, 6) { ops.push("pdelnode".into()); ops.push("gnodes".into()); }
        ops.push("gchans".into());
        ops.push("punlogged".into());
        ops.push("prepl".into());
        ops
    }
    fn exec_case(&self, ops: &[String]) -> CaseOut {
        let mut co = CaseOut::default();
        let dir = super::scratch_dir();
        let redb_store = RedbKVVStore::new(dir.path());
        let mut worlds: Vec<World> = vec![
            World { b: Box::new(MemB(Arc::new(KVVPersister(MemoryKVVStore::new([7u8; 16]), JsonFormat)))), node: None },
            World { b: Box::new(RedbB(Arc::new(KVVPersister(redb_store, JsonFormat)), dir)), node: None },
            World { b: Box::new(CloudB(Arc::new(KVVPersister(CloudKVVStore::new(MemoryKVVStore::new([7u8; 16])), JsonFormat)))), node: None },
        ];
        let config = NodeConfig {
            network: Network::Testnet,
            key_derivation_style: KeyDerivationStyle::Native,
            use_checkpoints: true,
            allow_deep_reorgs: true,
        };
        let mut seed = [9u8; 32];
        let mut prev: Vec<Dump> = worlds.iter().map(|w| w.b.dump()).collect();
        // ghost: channel id0 (hex) per index, which are live (not deleted), which are set up
        let mut chan_id0: BTreeMap<u64, ChannelId> = BTreeMap::new();
        let mut live: BTreeSet<u64> = BTreeSet::new();
        let mut allow_now: Vec<String> = vec![];
        let mut node_deleted = false;
        let (mut did_setup, mut did_delete) = (false, false);
        let mut replicated = false;
        for (i, line) in ops.iter().enumerate() {
            let t: Vec<&str> = line.split(' ').collect();
            let mut outs: Vec<String> = Vec::new();
            // keys a request must change / may change, named independently of kvv.rs
            let nid = worlds[0].node.as_ref().map(|n| hexs(&n.get_id().serialize())).unwrap_or_default();
            let k_entry = format!("node/entry/{}", nid);
            let k_state = format!("node/state/{}", nid);
            let k_tracker = format!("node/tracker/{}", nid);
            let k_allow = format!("node/allowlist/{}", nid);
            let k_chan = |c: &ChannelId| format!("channel/{}/{}", nid, hexs(c.as_slice()));
            let (mut must, mut may): (BTreeSet<String>, BTreeSet<String>) = (BTreeSet::new(), BTreeSet::new());
            let mut reads_ok = true;
            if !matches!(t[0], "pseed" | "pnew") && worlds[0].node.is_none() {
                co.out.push("no-node".into());
                continue;
            }
            for (wi, w) in worlds.iter_mut().enumerate() {
                let p = w.b.persist();
                let o: String = match t[0] {
                    "pseed" => { seed = [u8::from_str_radix(t[1], 16).unwrap(); 32]; "ok".into() }
                    "pnew" => {
                        let n = Arc::new(Node::new(config, &seed, vec![], services(p.clone())));
                        w.b.begin();
                        p.new_node(&n.get_id(), &config, &*n.get_state()).unwrap();
                        p.new_tracker(&n.get_id(), &n.get_tracker()).unwrap();
                        n.set_allowlist(&[]).unwrap(); // node creation always writes the (empty) allowlist
                        w.b.end();
                        w.node = Some(n);
                        "ok".into()
                    }
                    "pallow" => {
                        let n = w.node.as_ref().unwrap();
                        let cnt: u32 = t[1].parse().unwrap();
                        let list: Vec<String> = (0..cnt).map(|j| make_test_funding_wallet_addr(n, j, SpendType::P2wpkh).to_string()).collect();
                        w.b.begin();
                        let r = n.set_allowlist(&list);
                        w.b.end();
                        if wi == 0 { allow_now = list.clone(); }
                        format!("{}", if r.is_ok() { "ok" } else { "err" })
                    }
                    "pchan" => {
                        let n = w.node.as_ref().unwrap();
                        let idx: u64 = t[1].parse().unwrap();
                        w.b.begin();
                        let r = n.new_channel(idx, &peer(idx), n);
                        w.b.end();
                        match r {
                            Ok((id, _)) => { if wi == 0 { chan_id0.insert(idx, id.clone()); live.insert(idx); } "ok".into() }
                            Err(_) => "err".into(),
                        }
                    }
                    "pstub" => {
                        // the persister's new_channel called again for a stub (e.g. after its record was deleted):
                        // like every write it must move the key one version up
                        let n = w.node.as_ref().unwrap();
                        let idx: u64 = t[1].parse().unwrap();
                        let id0 = match chan_id0.get(&idx) { Some(c) => c.clone(), None => { outs.push("no-chan".into()); continue; } };
                        let slot = n.get_channel(&id0).unwrap();
                        let guard = slot.lock().unwrap();
                        match &*guard {
                            ChannelSlot::Stub(stub) => {
                                w.b.begin();
                                let r = p.new_channel(&n.get_id(), stub);
                                w.b.end();
                                if wi == 0 && r.is_ok() { live.insert(idx); }
                                format!("{}", if r.is_ok() { "ok" } else { "err" })
                            }
                            _ => "not-a-stub".into(),
                        }
                    }
                    "psetup" => {
                        let n = w.node.as_ref().unwrap();
                        let idx: u64 = t[1].parse().unwrap();
                        let id0 = match chan_id0.get(&idx) { Some(c) => c.clone(), None => { outs.push("no-chan".into()); continue; } };
                        let mut setup = make_test_channel_setup();
                        setup.funding_outpoint.txid = Txid::from_slice(&[idx as u8 + 10; 32]).unwrap();
                        // with flag 1 the channel gets a permanent id different from id0: the store key stays id0
                        let perm = if t[2] == "1" { Some(ChannelId::new(&[idx as u8 + 100; 32])) } else { None };
                        w.b.begin();
                        let r = n.setup_channel(id0, perm, setup, &DerivationPath::master());
                        w.b.end();
                        if wi == 0 && r.is_ok() { did_setup = true; }
                        format!("{}", if r.is_ok() { "ok" } else { "err" })
                    }
                    "pstate" => {
                        let n = w.node.as_ref().unwrap();
                        w.b.begin();
                        let r = p.update_node(&n.get_id(), &*n.get_state());
                        w.b.end();
                        format!("{}", if r.is_ok() { "ok" } else { "err" })
                    }
                    "ptracker" => {
                        let n = w.node.as_ref().unwrap();
                        w.b.begin();
                        let r = {
                            let mut tracker = n.get_tracker();
                            let (header, proof) = make_testnet_header(tracker.tip(), tracker.height());
                            tracker.add_block(header, proof).unwrap();
                            p.update_tracker(&n.get_id(), &tracker)
                        };
                        w.b.end();
                        format!("{}", if r.is_ok() { "ok" } else { "err" })
                    }
                    "pdelchan" => {
                        let n = w.node.as_ref().unwrap();
                        let idx: u64 = t[1].parse().unwrap();
                        let id0 = match chan_id0.get(&idx) { Some(c) => c.clone(), None => { outs.push("no-chan".into()); continue; } };
                        w.b.begin();
                        let r = p.delete_channel(&n.get_id(), &id0);
                        w.b.end();
                        if wi == 0 { live.remove(&idx); did_delete = true; }
                        format!("{}", if r.is_ok() { "ok" } else { "err" })
                    }
                    "pdelnode" => {
                        let n = w.node.as_ref().unwrap();
                        w.b.begin();
                        let r = p.delete_node(&n.get_id());
                        w.b.end();
                        if wi == 0 { node_deleted = true; did_delete = true; }
                        format!("{}", if r.is_ok() { "ok" } else { "err" })
                    }
                    "gchans" => {
                        let n = w.node.as_ref().unwrap();
                        w.b.begin();
                        let r = p.get_node_channels(&n.get_id());
                        w.b.end();
                        let r = match r {
                            Ok(r) => r,
                            Err(e) => {
                                co.violations.push(Violation { kind: "c16-read-not-last-write".into(), at: i,
                                    desc: format!("{}: get_node_channels fails ({:?}) on records the persister wrote itself", w.b.name(), e) });
                                outs.push("chans err".into());
                                continue;
                            }
                        };
                        let got: BTreeSet<String> = r.iter().map(|(c, _)| hexs(c.as_slice())).collect();
                        let want: BTreeSet<String> = live.iter().map(|j| hexs(chan_id0[j].as_slice())).collect();
                        if got != want {
                            reads_ok = false;
                            co.violations.push(Violation { kind: "c16-read-not-last-write".into(), at: i,
                                desc: format!("{}: get_node_channels lists {:?}, the accepted writes leave {:?}", w.b.name(), got, want) });
                        }
                        // every listed entry carries the enforcement state of the live channel
                        for (c, e) in r.iter() {
                            if let Ok(slot) = n.get_channel(c) {
                                if let ChannelSlot::Ready(ch) = &*slot.lock().unwrap() {
                                    if format!("{:?}", ch.enforcement_state) != format!("{:?}", e.enforcement_state)
                                        || e.channel_setup.as_ref().map(|s| s.funding_outpoint) != Some(ch.setup.funding_outpoint) {
                                        co.violations.push(Violation { kind: "c16-read-not-last-write".into(), at: i,
                                            desc: format!("{}: stored entry of channel {} differs from the channel last persisted", w.b.name(), hexs(c.as_slice())) });
                                    }
                                }
                            }
                        }
                        format!("chans {}", got.len())
                    }
                    "gchan" => {
                        let n = w.node.as_ref().unwrap();
                        let idx: u64 = t[1].parse().unwrap();
                        let id0 = match chan_id0.get(&idx) { Some(c) => c.clone(), None => { outs.push("no-chan".into()); continue; } };
                        w.b.begin();
                        let e = p.get_channel(&n.get_id(), &id0);
                        w.b.end();
                        match e {
                            Ok(e) => {
                                if let Ok(slot) = n.get_channel(&id0) {
                                    if let ChannelSlot::Ready(ch) = &*slot.lock().unwrap() {
                                        if e.id != ch.id || e.channel_setup.as_ref().map(|s| s.funding_outpoint) != Some(ch.setup.funding_outpoint)
                                            || format!("{:?}", ch.enforcement_state) != format!("{:?}", e.enforcement_state) {
                                            co.violations.push(Violation { kind: "c16-read-not-last-write".into(), at: i,
                                                desc: format!("{}: get_channel {} returns an entry that differs from the channel last persisted (id {:?} vs {:?})", w.b.name(), idx, e.id, ch.id) });
                                        }
                                    }
                                }
                                "chan ok".into()
                            }
                            Err(_) => "chan err".into(),
                        }
                    }
                    "gallow" => {
                        let n = w.node.as_ref().unwrap();
                        w.b.begin();
                        let r = p.get_node_allowlist(&n.get_id());
                        w.b.end();
                        match r {
                            Ok(l) => {
                                // stored in canonical form: `address:` prefix, sorted
                                let norm = |v: &Vec<String>| { let mut q: Vec<String> = v.iter().map(|x| x.trim_start_matches("address:").to_string()).collect(); q.sort(); q };
                                if norm(&l) != norm(&allow_now) {
                                    co.violations.push(Violation { kind: "c16-read-not-last-write".into(), at: i,
                                        desc: format!("{}: get_node_allowlist returns {:?}, last written {:?}", w.b.name(), l, allow_now) });
                                }
                                format!("allow {}", l.len())
                            }
                            Err(_) => "allow err".into(),
                        }
                    }
                    "gnodes" => {
                        w.b.begin();
                        let r = p.get_nodes();
                        w.b.end();
                        let r = match r {
                            Ok(r) => r,
                            Err(e) => {
                                co.violations.push(Violation { kind: "c16-read-not-last-write".into(), at: i,
                                    desc: format!("{}: get_nodes fails ({:?}) on records the persister wrote itself", w.b.name(), e) });
                                outs.push("nodes err".into());
                                continue;
                            }
                        };
                        let want = if node_deleted || w.node.is_none() { 0 } else { 1 };
                        if r.len() != want {
                            co.violations.push(Violation { kind: "c16-read-not-last-write".into(), at: i,
                                desc: format!("{}: get_nodes returns {} nodes, expected {}", w.b.name(), r.len(), want) });
                        }
                        format!("nodes {}", r.len())
                    }
                    "punlogged" => {
                        // replicate the full committed contents into a fresh persister of the same kind of store
                        let src = w.b.dump();
                        let muts = Mutations::from_vec(src.iter().map(|(k, v)| (k.clone(), v.clone())).collect());
                        let fresh = KVVPersister(CloudKVVStore::new(MemoryKVVStore::new([8u8; 16])), JsonFormat);
                        fresh.put_batch_unlogged(muts).unwrap();
                        let got = dump_of(&fresh.0);
                        if got != src {
                            co.violations.push(Violation { kind: "c16-persister-unlogged-differs".into(), at: i,
                                desc: format!("{}: put_batch_unlogged of {} records reproduces {:?} instead of the source versions {:?}",
                                    w.b.name(), src.len(), got.iter().map(|(k, v)| (k.clone(), v.0)).collect::<Vec<_>>(),
                                    src.iter().map(|(k, v)| (k.clone(), v.0)).collect::<Vec<_>>()) });
                        }
                        "ok".into()
                    }
                    "prepl" => {
                        // only on a store that is not linked to the cloud (the cloud store refuses by panicking)
                        if wi == 2 { "skip".into() } else {
                            let before = w.b.dump();
                            let muts = p.begin_replication().unwrap();
                            let after = w.b.dump();
                            let rep: Dump = muts.into_iter().collect();
                            let want: Dump = before.iter().map(|(k, v)| (k.clone(), (0u64, v.1.clone()))).collect();
                            if rep != want || after != want {
                                co.violations.push(Violation { kind: "c16-persister-replication".into(), at: i,
                                    desc: format!("{}: begin_replication must report and leave every record at version 0 with unchanged bytes", w.b.name()) });
                            }
                            "ok".into()
                        }
                    }
                    _ => "bad-op".into(),
                };
                outs.push(o);
            }
            let _ = reads_ok;
            // expected key effects
            match t[0] {
                "pnew" => {
                    let nid = hexs(&worlds[0].node.as_ref().unwrap().get_id().serialize());
                    must.insert(format!("node/entry/{}", nid));
                    must.insert(format!("node/state/{}", nid));
                    must.insert(format!("node/tracker/{}", nid));
                    must.insert(format!("node/allowlist/{}", nid));
                }
                "pallow" => { must.insert(k_allow.clone()); may.insert(k_state.clone()); }
                "pchan" => { if let Some(c) = chan_id0.get(&t[1].parse().unwrap()) { must.insert(k_chan(c)); } may.insert(k_state.clone()); }
                "psetup" => { if outs[0] == "ok" { if let Some(c) = chan_id0.get(&t[1].parse().unwrap()) { must.insert(k_chan(c)); } } may.insert(k_state.clone()); may.insert(k_tracker.clone()); }
                "pstate" => { must.insert(k_state.clone()); }
                "ptracker" => { must.insert(k_tracker.clone()); }
                "pdelchan" => { if let Some(c) = chan_id0.get(&t[1].parse().unwrap()) { must.insert(k_chan(c)); } }
                "pstub" => { if outs[0] == "ok" { if let Some(c) = chan_id0.get(&t[1].parse().unwrap()) { must.insert(k_chan(c)); } } }
                "pdelnode" => { must.insert(k_entry.clone()); must.insert(k_state.clone()); }
                _ => {}
            }
            if outs.iter().any(|o| o == "err") && matches!(t[0], "pallow" | "pchan" | "psetup" | "pstate" | "ptracker" | "pdelchan" | "pdelnode" | "pstub") {
                co.violations.push(Violation { kind: "c16-put-refused".into(), at: i,
                    desc: format!("`{}` was refused by a store: {}", line, outs.join(" | ")) });
            }
            let is_prepl = t[0] == "prepl";
            let cur: Vec<Dump> = worlds.iter().map(|w| w.b.dump()).collect();
            for (wi, w) in worlds.iter().enumerate() {
                if is_prepl { continue; }
                let (p0, c0) = (&prev[wi], &cur[wi]);
                let mut changed: BTreeSet<String> = BTreeSet::new();
                for (k, v) in c0 { if p0.get(k) != Some(v) { changed.insert(k.clone()); } }
                for (k, (v, _)) in p0 {
                    match c0.get(k) {
                        None => co.violations.push(Violation { kind: "c16-version-decreased".into(), at: i, desc: format!("{}: key {} vanished", w.b.name(), k) }),
                        Some((v2, _)) if v2 < v => co.violations.push(Violation { kind: "c16-version-decreased".into(), at: i,
                            desc: format!("{}: key {} went from version {} to {}", w.b.name(), k, v, v2) }),
                        _ => {}
                    }
                }
                let allowed: BTreeSet<String> = must.union(&may).cloned().collect();
                if !changed.is_subset(&allowed) || !must.is_subset(&changed) {
                    co.violations.push(Violation { kind: "c16-persister-wrong-keys".into(), at: i,
                        desc: format!("{}: `{}` changed keys {:?}; it must change {:?} and may change {:?}", w.b.name(), line, changed, must, may) });
                }
                for k in &changed {
                    let want = p0.get(k).map(|r| r.0 + 1).unwrap_or(0);
                    if c0[k].0 != want {
                        co.violations.push(Violation { kind: "c16-persister-version-step".into(), at: i,
                            desc: format!("{}: `{}` moved key {} from version {:?} to {}", w.b.name(), line, k, p0.get(k).map(|r| r.0), c0[k].0) });
                    }
                }
                if matches!(t[0], "pdelchan" | "pdelnode") {
                    for k in &must {
                        if c0.get(k).map(|r| !r.1.is_empty()).unwrap_or(true) {
                            co.violations.push(Violation { kind: "c16-persister-delete".into(), at: i,
                                desc: format!("{}: after `{}` key {} is not an empty tombstone", w.b.name(), line, k) });
                        }
                    }
                }
            }
            if is_prepl { replicated = true; }
            // (after a begin_replication the cloud-linked store, which refuses it, keeps its versions: compare
            // memory and redb only from then on)
            if !is_prepl && (cur[0] != cur[1] || (!replicated && cur[0] != cur[2])) {
                let show = |d: &Dump| d.iter().map(|(k, v)| format!("{}@{}#{}", k, v.0, v.1.len())).collect::<Vec<_>>().join(" ");
                co.violations.push(Violation { kind: "c16-persister-backends-differ".into(), at: i,
                    desc: format!("after `{}`: memory [{}] redb [{}] cloud [{}]", line, show(&cur[0]), show(&cur[1]), show(&cur[2])) });
            }
            co.tags.insert(format!("persist:{}:{}", t[0], outs.get(0).cloned().unwrap_or_default().split(' ').next().unwrap_or("")));
            co.out.push(outs.join(" | "));
            prev = cur;
        }
        co.nontrivial = did_setup && did_delete;
        co
    }
}
