//! C05/C07 observations over the wire protocol: the two panics recorded in notes/C05-C07.md
//! (zero-output closing transaction indexing `tx.output[0]`; `claimable_balance`'s `expect` before
//! validation) are reached through real, encoded-and-decoded wire messages handled by a real
//! `ChannelHandler`; after the panic the process state is discarded and the node restored from the real
//! persister (`KVVPersister<MemoryKVVStore>` + `Node::restore_node`).  Monitor: the restored channel state
//! equals the state before the panicking request (`panic-changed-durable-state`), and the restored node
//! still refuses/accepts as before.  Implementation-only group (no Lean model): the model side of these
//! requests is `Kind.panic`, already compared in the main groups.
use crate::common::*;
use lightning_signer::bitcoin::absolute::LockTime;
use lightning_signer::bitcoin::bip32::DerivationPath;
use lightning_signer::bitcoin::hashes::Hash;
use lightning_signer::bitcoin::psbt::Psbt;
use lightning_signer::bitcoin::secp256k1::Secp256k1;
use lightning_signer::bitcoin::transaction::Version;
use lightning_signer::bitcoin::{Network, ScriptBuf, Sequence, Transaction, TxIn, Witness};
use lightning_signer::channel::ChannelId;
use lightning_signer::node::{Node, NodeConfig, NodeServices};
use lightning_signer::persist::Persist;
use lightning_signer::policy::simple_validator::{make_default_simple_policy, SimpleValidatorFactory};
use lightning_signer::signer::derive::KeyDerivationStyle;
use lightning_signer::util::clock::StandardClock;
use lightning_signer::util::test_utils::key::{make_test_counterparty_points, make_test_pubkey};
use lightning_signer::util::test_utils::*;
use std::panic::{catch_unwind, AssertUnwindSafe};
use std::sync::Arc;
use vls_persist::kvv::memory::MemoryKVVStore;
use vls_persist::kvv::{JsonFormat, KVVPersister};
use vls_protocol::model::PubKey;
use vls_protocol::msgs::{self, Message};
use vls_protocol::serde_bolt::{Array, ArrayBE, Octets, WithSize};
use vls_protocol_signer::approver::PositiveApprover;
use vls_protocol_signer::handler::{ChannelHandler, Handler, InitHandler, RootHandler};

const PEER: [u8; 33] = [2u8; 33];
const DBID: u64 = 1;

pub struct C07Wire;

fn config() -> NodeConfig {
    NodeConfig { network: Network::Testnet, key_derivation_style: KeyDerivationStyle::Native, use_checkpoints: true, allow_deep_reorgs: true }
}

fn services(persister: Arc<dyn Persist>) -> NodeServices {
    NodeServices {
        validator_factory: Arc::new(SimpleValidatorFactory::new_with_policy(make_default_simple_policy(Network::Testnet))),
        starting_time_factory: make_genesis_starting_time_factory(Network::Testnet),
        persister,
        clock: Arc::new(StandardClock()),
        trusted_oracle_pubkeys: vec![],
    }
}

/// foreign scripts of the wire-setup cases: X = the upfront shutdown script the holder fixes, Y = another
/// allowlisted script, R = the counterparty's upfront script
fn foreign_script(tag: u8) -> ScriptBuf {
    ScriptBuf::new_p2wpkh(&lightning_signer::bitcoin::WPubkeyHash::from_byte_array([tag; 20]))
}
const X: u8 = 0x11;
const Y: u8 = 0x12;
const R: u8 = 0x13;

struct W {
    persister: Arc<dyn Persist>,
    seed: [u8; 32],
    node: Arc<Node>,
    channel_id: ChannelId,
    outbound: bool,
    value: u64,
}

fn state_view(node: &Node, cid: &ChannelId) -> String {
    node.with_channel(cid, |c| Ok(serde_json::to_string(&c.enforcement_state).unwrap_or_else(|_| format!("{:?}", c.enforcement_state))))
        .unwrap_or_else(|e| format!("no-channel {}", e.message()))
}

impl W {
    fn open(outbound: bool) -> W {
        let persister: Arc<dyn Persist> = Arc::new(KVVPersister(MemoryKVVStore::new([5u8; 16]), JsonFormat));
        let seed = [7u8; 32];
        let cfg = config();
        let node = Arc::new(Node::new(cfg, &seed, vec![], services(persister.clone())));
        persister.new_node(&node.get_id(), &cfg, &*node.get_state()).unwrap();
        persister.new_tracker(&node.get_id(), &node.get_tracker()).unwrap();
        node.add_allowlist(&[]).unwrap();
        let (channel_id, _) = node.new_channel(DBID, &PEER, &node).expect("new_channel");
        let mut setup = make_test_channel_setup();
        setup.is_outbound = outbound;
        let value = setup.channel_value_sat;
        node.setup_channel(channel_id.clone(), None, setup.clone(), &DerivationPath::master()).expect("setup");
        // commitment 0 on both sides by real requests
        let node_ctx = TestNodeContext { node: node.clone(), secp_ctx: Secp256k1::signing_only() };
        let cp_keys = make_test_counterparty_keys(&node_ctx, &channel_id, value);
        let chan_ctx = TestChannelContext { channel_id: channel_id.clone(), setup, counterparty_keys: cp_keys };
        let (th, tc) = if outbound { (value - 1000, 0) } else { (0, value - 1000) };
        node.with_channel(&channel_id, |c| c.sign_counterparty_commitment_tx_phase2(&make_test_pubkey(0x20), 0, 0, th, tc, vec![], vec![]))
            .expect("cp 0");
        let mut ctx = channel_commitment(&node_ctx, &chan_ctx, 0, 0, th, tc, vec![], vec![]);
        let (csig, hsigs) = counterparty_sign_holder_commitment(&node_ctx, &chan_ctx, &mut ctx);
        node.with_channel(&channel_id, |c| {
            c.validate_holder_commitment_tx_phase2(0, 0, th, tc, vec![], vec![], &csig, &hsigs)?;
            c.revoke_previous_holder_commitment(0)
        })
        .expect("hold 0");
        W { persister, seed, node, channel_id, outbound, value }
    }

    /// channel set up through the WIRE (`SetupChannel` encoded, decoded, handled by a real `ChannelHandler`),
    /// with or without an upfront shutdown script on either side; then commitment 0 on both sides
    fn open_wire(local: bool, remote: bool) -> Result<W, String> {
        let persister: Arc<dyn Persist> = Arc::new(KVVPersister(MemoryKVVStore::new([5u8; 16]), JsonFormat));
        let seed = [7u8; 32];
        let cfg = config();
        let node = Arc::new(Node::new(cfg, &seed, vec![], services(persister.clone())));
        persister.new_node(&node.get_id(), &cfg, &*node.get_state()).unwrap();
        persister.new_tracker(&node.get_id(), &node.get_tracker()).unwrap();
        let addr = |t: u8| lightning_signer::bitcoin::Address::from_script(&foreign_script(t), Network::Testnet).unwrap().to_string();
        node.add_allowlist(&[addr(X), addr(Y)]).unwrap();
        let (channel_id, _) = node.new_channel(DBID, &PEER, &node).expect("new_channel");
        let value = 3_000_000u64;
        let mut w = W { persister, seed, node: node.clone(), channel_id: channel_id.clone(), outbound: true, value };
        let cp = make_test_counterparty_points();
        let pk = |k: &lightning_signer::bitcoin::secp256k1::PublicKey| PubKey(k.serialize());
        let m = msgs::SetupChannel {
            is_outbound: true,
            channel_value: value,
            push_value: 0,
            funding_txid: lightning_signer::bitcoin::Txid::from_slice(&[2u8; 32]).unwrap(),
            funding_txout: 0,
            to_self_delay: 6,
            local_shutdown_script: Octets(if local { foreign_script(X).to_bytes() } else { vec![] }),
            local_shutdown_wallet_index: None,
            remote_basepoints: vls_protocol::model::Basepoints {
                revocation: pk(&cp.revocation_basepoint.0),
                payment: pk(&cp.payment_point),
                htlc: pk(&cp.htlc_basepoint.0),
                delayed_payment: pk(&cp.delayed_payment_basepoint.0),
            },
            remote_funding_pubkey: pk(&cp.funding_pubkey),
            remote_to_self_delay: 7,
            remote_shutdown_script: Octets(if remote { foreign_script(R).to_bytes() } else { vec![] }),
            channel_type: Octets(vls_protocol_signer::util::commitment_type_to_channel_type(lightning_signer::channel::CommitmentType::StaticRemoteKey)),
        };
        let r = w.send(&m);
        if r != "ok" {
            return Err(format!("SetupChannel over the wire answered {}", r));
        }
        // commitment 0 on both sides by direct requests, with the setup the signer stored
        let setup = node.with_channel(&channel_id, |c| Ok(c.setup.clone())).map_err(|e| e.message().to_string())?;
        let node_ctx = TestNodeContext { node: node.clone(), secp_ctx: Secp256k1::signing_only() };
        let cp_keys = make_test_counterparty_keys(&node_ctx, &channel_id, value);
        let chan_ctx = TestChannelContext { channel_id: channel_id.clone(), setup, counterparty_keys: cp_keys };
        let (th, tc) = (value - 1000, 0);
        node.with_channel(&channel_id, |c| c.sign_counterparty_commitment_tx_phase2(&make_test_pubkey(0x20), 0, 0, th, tc, vec![], vec![]))
            .map_err(|e| e.message().to_string())?;
        let mut ctx = channel_commitment(&node_ctx, &chan_ctx, 0, 0, th, tc, vec![], vec![]);
        let (csig, hsigs) = counterparty_sign_holder_commitment(&node_ctx, &chan_ctx, &mut ctx);
        node.with_channel(&channel_id, |c| {
            c.validate_holder_commitment_tx_phase2(0, 0, th, tc, vec![], vec![], &csig, &hsigs)?;
            c.revoke_previous_holder_commitment(0)
        })
        .map_err(|e| e.message().to_string())?;
        w.outbound = true;
        Ok(w)
    }

    fn handler(&self) -> ChannelHandler {
        let mut init = InitHandler::new(0, self.node.clone(), Arc::new(PositiveApprover()), 6);
        let m = msgs::HsmdInit {
            key_version: vls_protocol::model::Bip32KeyVersion { pubkey_version: 0, privkey_version: 0 },
            chain_params: {
                use lightning_signer::bitcoin::hashes::Hash;
                lightning_signer::bitcoin::BlockHash::all_zeros()
            },
            encryption_key: None,
            dev_privkey: None,
            dev_bip32_seed: None,
            dev_channel_secrets: None,
            dev_channel_secrets_shaseed: None,
            hsm_wire_min_version: 2,
            hsm_wire_max_version: 6,
        };
        let (done, _) = init.handle(Message::HsmdInit(m)).expect("hsmd init");
        assert!(done);
        let root: RootHandler = init.into();
        root.for_new_client(1, PubKey(PEER), DBID)
    }

    /// encode the message, decode it again (what arrives over the wire), handle it
    fn send(&self, m: &dyn msgs::SerBolt) -> String {
        let bytes = m.as_vec();
        let decoded = match msgs::from_vec(bytes) {
            Ok(d) => d,
            Err(e) => return format!("wire-decode-refused {:?}", e),
        };
        let h = self.handler();
        match catch_unwind(AssertUnwindSafe(|| h.handle(decoded))) {
            Err(e) => {
                let msg = e.downcast_ref::<String>().cloned().or_else(|| e.downcast_ref::<&str>().map(|s| s.to_string())).unwrap_or_default();
                let short: String = msg.chars().take(60).collect();
                format!("panic {}", short.replace('\n', " "))
            }
            Ok(Ok(_)) => "ok".into(),
            Ok(Err(_)) => "err".into(),
        }
    }

    fn restart(&mut self) -> Result<(), String> {
        let (node_id, entry) = self.persister.get_nodes().map_err(|e| format!("{:?}", e))?.into_iter().next().ok_or("no node")?;
        let n = Node::restore_node(&node_id, entry, &self.seed, services(self.persister.clone())).map_err(|e| e.message().to_string())?;
        self.node = n;
        Ok(())
    }
}

impl Group for C07Wire {
    fn property(&self) -> &'static str {
        "C07"
    }
    fn model(&self) -> Option<&'static str> {
        None
    }
    fn rule(&self) -> &'static str {
        "wire: the recorded panics reached through encoded+decoded wire messages on a real ChannelHandler, then restart from the real persister; non-trivial = a panic was reached, the node restarted, and the restored node answered a further request"
    }
    fn budget(&self, _tier: Tier) -> usize {
        0
    }
    fn corpus(&self) -> Vec<Vec<String>> {
        let v = |s: &[&str]| s.iter().map(|x| x.to_string()).collect::<Vec<_>>();
        vec![
            v(&["w_open 1", "w_close_empty", "w_probe", "w_restart", "w_close_ok", "w_restart_keep"]),
            v(&["w_open 0", "w_close_empty", "w_restart", "w_close_ok", "w_restart_keep"]),
            v(&["w_open 1", "w_cp_overvalue", "w_probe", "w_restart", "w_cp_ok", "w_close_ok"]),
            // SetupChannel over the wire, all four combinations of (holder, counterparty) upfront shutdown script;
            // the oracle is the script sent on the wire: with a holder upfront script X every close paying the
            // holder elsewhere (wallet W, allowlisted Y) must be refused through both entry points, X is signed
            v(&["w_setup_wire 1 0", "w_close2_to w", "w_close2_to y", "w_close1_to y", "w_close1_to x", "w_close2_to x"]),
            v(&["w_setup_wire 1 1", "w_close2_to y", "w_close1_to y", "w_close2_to w", "w_close2_to x"]),
            v(&["w_setup_wire 0 1", "w_close2_to w", "w_close1_to y", "w_close2_to x"]),
            v(&["w_setup_wire 0 0", "w_close1_to x", "w_close2_to y", "w_close2_to w"]),
        ]
    }
    fn gen_case(&self, _rng: &mut Rng, _tier: Tier) -> Vec<String> {
        vec![]
    }
    fn exec_case(&self, ops: &[String]) -> CaseOut {
        let mut co = CaseOut::default();
        let mut w: Option<W> = None;
        let mut before = String::new();
        let (mut panicked, mut restarted, mut answered) = (false, false, false);
        let mut upfront_sent = false;
        for (i, op) in ops.iter().enumerate() {
            let t: Vec<&str> = op.split_whitespace().collect();
            let line = match t[0] {
                "w_open" => {
                    w = Some(W::open(t.get(1) == Some(&"1")));
                    "ok".to_string()
                }
                "w_setup_wire" => {
                    let (l, r) = (t.get(1) == Some(&"1"), t.get(2) == Some(&"1"));
                    match catch_unwind(AssertUnwindSafe(|| W::open_wire(l, r))) {
                        Ok(Ok(wd)) => {
                            // what the signer stored must be what was sent
                            let (hs, cs) = wd.node.with_channel(&wd.channel_id, |c| Ok((c.setup.holder_shutdown_script.clone(), c.setup.counterparty_shutdown_script.clone()))).unwrap();
                            let want_h = if l { Some(foreign_script(X)) } else { None };
                            let want_c = if r { Some(foreign_script(R)) } else { None };
                            if hs != want_h || cs != want_c {
                                co.violations.push(Violation {
                                    kind: "wire-setup-upfront-script-lost".into(),
                                    desc: format!("SetupChannel sent holder upfront script {:?} / counterparty {:?}, the channel stores {:?} / {:?}", want_h.map(|s| s.to_hex_string()), want_c.map(|s| s.to_hex_string()), hs.map(|s| s.to_hex_string()), cs.map(|s| s.to_hex_string())),
                                    at: i,
                                });
                            }
                            upfront_sent = l;
                            w = Some(wd);
                            panicked = true; restarted = true; // (non-triviality of these cases is decided by the closes below)
                            "ok".to_string()
                        }
                        Ok(Err(e)) => format!("setup-failed {}", e),
                        Err(_) => "setup-panic".to_string(),
                    }
                }
                _ if w.is_none() => "bad-op".to_string(),
                "w_close2_to" | "w_close1_to" => {
                    let wd = w.as_ref().unwrap();
                    let which = t.get(1).copied().unwrap_or("w");
                    let script = match which {
                        "x" => foreign_script(X),
                        "y" => foreign_script(Y),
                        _ => make_test_funding_wallet_addr(&wd.node, 3, lightning_signer::node::SpendType::P2wpkh).script_pubkey(),
                    };
                    let hv = wd.value - 2000;
                    let r = if t[0] == "w_close2_to" {
                        let m = msgs::SignMutualCloseTx2 {
                            to_local_value_sat: hv,
                            to_remote_value_sat: 0,
                            local_script: Octets(script.to_bytes()),
                            remote_script: Octets(vec![]),
                            local_wallet_path_hint: ArrayBE(if which == "w" { vec![3] } else { vec![] }),
                        };
                        wd.send(&m)
                    } else {
                        let funding = wd.node.with_channel(&wd.channel_id, |c| Ok(c.setup.funding_outpoint)).unwrap();
                        let tx = Transaction {
                            version: Version::TWO,
                            lock_time: LockTime::ZERO,
                            input: vec![TxIn { previous_output: funding, script_sig: ScriptBuf::new(), sequence: Sequence::MAX, witness: Witness::new() }],
                            output: vec![lightning_signer::bitcoin::TxOut { value: lightning_signer::bitcoin::Amount::from_sat(hv), script_pubkey: script.clone() }],
                        };
                        match Psbt::from_unsigned_tx(tx.clone()) {
                            Ok(psbt) => wd.send(&msgs::SignMutualCloseTx { tx: WithSize(tx), psbt: WithSize(psbt.into()), remote_funding_key: PubKey(make_test_pubkey(104).serialize()) }),
                            Err(e) => format!("psbt-refused {:?}", e),
                        }
                    };
                    // oracle: the upfront script that went over the wire
                    let expect_ok = !upfront_sent || which == "x";
                    answered = true;
                    if r == "ok" && !expect_ok {
                        co.violations.push(Violation {
                            kind: "close-ignores-upfront-script".into(),
                            desc: format!("the holder fixed upfront shutdown script X in SetupChannel; {} paying the holder to {} was signed", t[0], which),
                            at: i,
                        });
                    } else if r != "ok" && expect_ok {
                        co.violations.push(Violation {
                            kind: "wire-unexpected-answer".into(),
                            desc: format!("{} paying the holder to {} answered {} (expected ok; upfront script sent: {})", t[0], which, r, upfront_sent),
                            at: i,
                        });
                    }
                    co.tags.insert(format!("wire:close-to-{}:{}:upfront={}", which, r, upfront_sent as u8));
                    r
                }
                "w_close_empty" => {
                    let wd = w.as_ref().unwrap();
                    before = state_view(&wd.node, &wd.channel_id);
                    // a closing transaction with one input and NO outputs, with a matching PSBT
                    let funding = wd.node.with_channel(&wd.channel_id, |c| Ok(c.setup.funding_outpoint)).unwrap();
                    let tx = Transaction {
                        version: Version::TWO,
                        lock_time: LockTime::ZERO,
                        input: vec![TxIn { previous_output: funding, script_sig: ScriptBuf::new(), sequence: Sequence::MAX, witness: Witness::new() }],
                        output: vec![],
                    };
                    let r = match Psbt::from_unsigned_tx(tx.clone()) {
                        Ok(psbt) => {
                            let m = msgs::SignMutualCloseTx { tx: WithSize(tx), psbt: WithSize(psbt.into()), remote_funding_key: PubKey(make_test_pubkey(104).serialize()) };
                            wd.send(&m)
                        }
                        Err(e) => format!("psbt-refused {:?}", e),
                    };
                    if r.starts_with("panic") {
                        panicked = true;
                        co.tags.insert("wire:close-empty:panic".into());
                    } else {
                        co.tags.insert(format!("wire:close-empty:{}", r.split(' ').next().unwrap_or("")));
                    }
                    r
                }
                "w_cp_overvalue" => {
                    let wd = w.as_ref().unwrap();
                    before = state_view(&wd.node, &wd.channel_id);
                    // funder side: outputs of counterparty commitment 1 exceed the channel value by one satoshi
                    let m = msgs::SignRemoteCommitmentTx2 {
                        remote_per_commitment_point: PubKey(make_test_pubkey(0x21).serialize()),
                        commitment_number: 1,
                        feerate: 0,
                        to_local_value_sat: wd.value,
                        to_remote_value_sat: 1,
                        htlcs: Array(vec![]),
                    };
                    let r = wd.send(&m);
                    if r.starts_with("panic") {
                        panicked = true;
                        co.tags.insert("wire:cp-overvalue:panic".into());
                    } else {
                        co.tags.insert(format!("wire:cp-overvalue:{}", r.split(' ').next().unwrap_or("")));
                    }
                    r
                }
                "w_probe" => {
                    // same process after the panic: are the locks usable?
                    let wd = w.as_ref().unwrap();
                    let r = catch_unwind(AssertUnwindSafe(|| wd.node.with_channel(&wd.channel_id, |_| Ok(())).is_ok()));
                    let r2 = catch_unwind(AssertUnwindSafe(|| {
                        drop(wd.node.get_state());
                    }));
                    let s = format!("channel-lock={} node-state-lock={}", if r.is_ok() { "usable" } else { "poisoned" }, if r2.is_ok() { "usable" } else { "poisoned" });
                    co.tags.insert(format!("wire:probe:{}", s));
                    s
                }
                "w_restart" => {
                    let wd = w.as_mut().unwrap();
                    match wd.restart() {
                        Err(e) => {
                            co.violations.push(Violation { kind: "panic-prevents-restart".into(), desc: e.clone(), at: i });
                            format!("restart-failed {}", e)
                        }
                        Ok(()) => {
                            restarted = true;
                            let after = state_view(&wd.node, &wd.channel_id);
                            if after != before {
                                co.violations.push(Violation {
                                    kind: "panic-changed-durable-state".into(),
                                    desc: format!("channel state after the panic and restart differs from the state before the request: {} vs {}", after, before),
                                    at: i,
                                });
                                "restarted state=changed".to_string()
                            } else {
                                "restarted state=same".to_string()
                            }
                        }
                    }
                }
                "w_restart_keep" => {
                    // an ordinary restart after an accepted request: the channel state (in particular
                    // channel_closed) must come back exactly
                    let wd = w.as_mut().unwrap();
                    let pre = state_view(&wd.node, &wd.channel_id);
                    let pre_closed = wd.node.with_channel(&wd.channel_id, |c| Ok(c.enforcement_state.channel_closed)).unwrap_or(false);
                    match wd.restart() {
                        Err(e) => format!("restart-failed {}", e),
                        Ok(()) => {
                            let post = state_view(&wd.node, &wd.channel_id);
                            let post_closed = wd.node.with_channel(&wd.channel_id, |c| Ok(c.enforcement_state.channel_closed)).unwrap_or(false);
                            if pre_closed && !post_closed {
                                co.violations.push(Violation {
                                    kind: "close-forgotten-after-restart".into(),
                                    desc: "a closing signature was returned and channel_closed set, but after a restart from the persister the channel is open again".into(),
                                    at: i,
                                });
                            } else if pre != post {
                                co.violations.push(Violation { kind: "restart-changed-state".into(), desc: format!("{} vs {}", pre, post), at: i });
                            }
                            format!("restarted closed={}", post_closed as u8)
                        }
                    }
                }
                "w_cp_ok" => {
                    let wd = w.as_ref().unwrap();
                    let m = msgs::SignRemoteCommitmentTx2 {
                        remote_per_commitment_point: PubKey(make_test_pubkey(0x21).serialize()),
                        commitment_number: 1,
                        feerate: 0,
                        to_local_value_sat: wd.value - 1_001_000,
                        to_remote_value_sat: 1_000_000,
                        htlcs: Array(vec![]),
                    };
                    let r = wd.send(&m);
                    answered |= r == "ok";
                    r
                }
                "w_close_ok" => {
                    let wd = w.as_ref().unwrap();
                    // a proper close of the state both commitments agree on (commitment 0), to the wallet
                    let addr = make_test_funding_wallet_addr(&wd.node, 3, lightning_signer::node::SpendType::P2wpkh);
                    let (hv, cv) = if wd.outbound { (wd.value - 2000, 0) } else { (0, wd.value - 2000) };
                    let m = msgs::SignMutualCloseTx2 {
                        to_local_value_sat: hv,
                        to_remote_value_sat: cv,
                        local_script: Octets(if hv > 0 { addr.script_pubkey().to_bytes() } else { vec![] }),
                        remote_script: Octets(if cv > 0 { ScriptBuf::new_p2wpkh(&lightning_signer::bitcoin::WPubkeyHash::from_byte_array([9u8; 20])).to_bytes() } else { vec![] }),
                        local_wallet_path_hint: ArrayBE(vec![3]),
                    };
                    let r = wd.send(&m);
                    answered |= r == "ok" || r == "err";
                    let closed = wd.node.with_channel(&wd.channel_id, |c| Ok(c.enforcement_state.channel_closed)).unwrap_or(false);
                    // expected through the wire exactly what the direct call gives: signed iff both current
                    // commitments are still commitment 0 (no counterparty commitment 1 signed in this case)
                    let expect_ok = !ops.iter().any(|o| o == "w_cp_ok");
                    if (r == "ok") != expect_ok || closed != expect_ok {
                        co.violations.push(Violation {
                            kind: "wire-unexpected-answer".into(),
                            desc: format!("SignMutualCloseTx2 over the wire answered {} closed={} (expected {})", r, closed as u8, if expect_ok { "ok closed=1" } else { "err closed=0" }),
                            at: i,
                        });
                    }
                    format!("{} closed={}", r, closed as u8)
                }
                _ => "bad-op".to_string(),
            };
            co.out.push(line);
        }
        co.nontrivial = panicked && restarted && answered;
        co
    }
}
