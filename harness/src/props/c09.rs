//! C09 — sweep and second-level HTLC signatures only move funds back to the node.
//!
//! One group (`C09Sweep`, Lean model `sweep`, stateless): a real `Node` + Ready `Channel`
//! (StaticRemoteKey / AnchorsZeroFeeHtlc, and deprecated Anchors under a permissive filter) with a
//! configurable allowlist (scripts, xpubs), key-derivation style, policy filter and feerate range; the chain
//! height seen by the channel is set per request.  Requests go through the real
//! `sign_delayed_sweep`, `sign_counterparty_htlc_sweep`, `sign_justice_sweep`, `sign_holder_htlc_tx` and
//! `sign_counterparty_htlc_tx`.  Sweeps have 0-4 outputs (wallet / allowlisted / xpub / foreign), several
//! inputs, locktimes around `height + MAX_CHAIN_LAG` and in the time domain (≥ 500_000_000), sequences from
//! and next to the permitted sets; HTLC transactions are built from a structured description (version,
//! locktime, inputs, outputs whose script is `revokeable(revKeyId, delay, delayedKeyId)` or foreign), both
//! redeemscript kinds in both script forms.  The model gets the structured facts; the monitors re-derive
//! the expected transaction / destination facts independently on every ACCEPTED request and verify the
//! returned signature.
//!
//! Op lines:
//!   env <cfg> <ct s|z|a>                                  (not fed to the model)
//!   allow add|remove|set <items>   restart                (not fed to the model; items = descriptors and x<j> xpub entries;
//!                                                          `set` replaces everything, xpub entries included)
//!   delayed <cfg> <ct> <height> <ver> <locktime> <seqs a,b,..|-> <input> <commit_num> <nhc> <wpath> <outs d,d|->
//!   cphtlc  <cfg> <ct> <height> <ver> <locktime> <seqs> <input> <script r<cltv>|o|x> <form 0|1> <wpath> <outs>
//!   justice <cfg> <ct> <height> <ver> <locktime> <seqs> <input> <wpath> <outs>
//!   htlc    <cfg> <ct> <who h|c> <ver> <locktime> <ins id:vout:seq,..|-> <outs value:script,..|-> <redeem o|r|x> <form 0|1> <amount>
//!   cfg = minFeerate;maxFeerate;filter;style;allow-scripts(,);allow-xpubs(,)
use super::c08::{allow_script, ext_xpub, foreign_key, key_script, parse_path, path_str, to_dp, Desc, HARD, NET};
use crate::common::*;
use lightning_signer::bitcoin::absolute::LockTime;
use lightning_signer::bitcoin::hashes::Hash;
use lightning_signer::bitcoin::secp256k1::{Message, PublicKey, Secp256k1, SecretKey};
use lightning_signer::bitcoin::sighash::{EcdsaSighashType, SighashCache};
use lightning_signer::bitcoin::transaction::Version;
use lightning_signer::bitcoin::{Amount, OutPoint, ScriptBuf, Sequence, Transaction, TxIn, TxOut, Txid, Witness};
use lightning_signer::channel::{ChannelBase, ChannelId, CommitmentType};
use lightning_signer::lightning::ln::chan_utils::{
    get_htlc_redeemscript, get_revokeable_redeemscript, HTLCOutputInCommitment, TxCreationKeys,
};
use lightning_signer::lightning::ln::channel_keys::{DelayedPaymentKey, RevocationKey};
use lightning_signer::lightning::types::features::ChannelTypeFeatures;
use lightning_signer::lightning::types::payment::PaymentHash;
use lightning_signer::lightning::sign::ChannelSigner;
use lightning_signer::monitor::ChainMonitorBase;
use lightning_signer::node::{Allowable, Node, NodeConfig, NodeServices};
use lightning_signer::persist::Persist;
use vls_persist::kvv::memory::MemoryKVVStore;
use vls_persist::kvv::{JsonFormat, KVVPersister};
use lightning_signer::policy::filter::{FilterResult, FilterRule, PolicyFilter};
use lightning_signer::policy::simple_validator::{make_default_simple_policy, SimpleValidatorFactory};
use lightning_signer::signer::derive::KeyDerivationStyle;
use lightning_signer::util::clock::ManualClock;
use lightning_signer::util::status::{Code, Status};
use lightning_signer::util::test_utils::*;
use std::sync::Arc;
use std::time::Duration;

const T_DEST: &str = "policy-sweep-destination-allowlisted";
const T_LOCK: &str = "policy-htlc-locktime";
const T_FEE: &str = "policy-htlc-fee-range";
const HOLDER_DELAY: u16 = 6; // test_chan_ctx: holder_selected_contest_delay
const CP_DELAY: u16 = 7; // counterparty_selected_contest_delay

#[derive(Clone, Debug)]
struct Cfg {
    minf: u32,
    maxf: u32,
    filter: String,
    style: char,
    onchain: bool,
    allow: Vec<String>,
    xpubs: Vec<u32>,
}
impl Cfg {
    fn parse(s: &str) -> Option<Cfg> {
        let p: Vec<&str> = s.split(';').collect();
        if p.len() != 6 {
            return None;
        }
        let list = |x: &str| -> Vec<String> {
            if x == "-" || x.is_empty() { vec![] } else { x.split(',').map(|s| s.to_string()).collect() }
        };
        Some(Cfg {
            minf: p[0].parse().ok()?,
            maxf: p[1].parse().ok()?,
            filter: p[2].to_string(),
            style: p[3].chars().next()?.to_ascii_lowercase(),
            onchain: p[3].chars().next()?.is_ascii_uppercase(),
            allow: list(p[4]),
            xpubs: list(p[5]).iter().map(|s| s.parse().ok()).collect::<Option<Vec<u32>>>()?,
        })
    }
    fn to_string(&self) -> String {
        let l = |v: &Vec<String>| if v.is_empty() { "-".to_string() } else { v.join(",") };
        format!("{};{};{};{};{};{}", self.minf, self.maxf, self.filter, if self.onchain { self.style.to_ascii_uppercase() } else { self.style }, l(&self.allow), l(&self.xpubs.iter().map(|x| x.to_string()).collect()))
    }
    /// d = default, p = permissive, wd / wl / wf / ws = warn exactly on the destination / htlc-locktime / htlc-fee /
    /// channel-safe-type tag
    fn policy_filter(&self) -> PolicyFilter {
        let one = |t: &str| PolicyFilter { rules: vec![FilterRule { tag: t.into(), is_prefix: false, action: FilterResult::Warn }] };
        match self.filter.as_str() {
            "p" => PolicyFilter::new_permissive(),
            "wd" => one(T_DEST),
            "wl" => one(T_LOCK),
            "wf" => one(T_FEE),
            // only the channel-type safety tag demoted: admits the deprecated CommitmentType::Anchors, everything else strict
            "ws" => one("policy-channel-safe-type"),
            _ => PolicyFilter::default(),
        }
    }
    fn is_err(&self, tag: &str) -> bool {
        self.policy_filter().filter(tag) == FilterResult::Error
    }
}

fn list(s: &str) -> Vec<&str> {
    if s == "-" || s.is_empty() { vec![] } else { s.split(',').collect() }
}
fn ct_of(s: &str) -> CommitmentType {
    match s {
        "z" => CommitmentType::AnchorsZeroFeeHtlc,
        "a" => CommitmentType::Anchors,
        _ => CommitmentType::StaticRemoteKey,
    }
}
fn ct_anchors(s: &str) -> bool {
    s == "z" || s == "a"
}

// ---------------------------------------------------------------------------------------------
// ground truth for a sweep destination under the request's wallet path

/// (can_spend: t|f|e, allow: y|n|p)
fn dest_truth(cfg: &Cfg, d: &Desc, wpath: &[u32]) -> (char, char) {
    let cs = if wpath.is_empty() {
        'f'
    } else if cfg.style == 'n' && wpath.len() != 1 {
        'e'
    } else if matches!(d, Desc::W(p, t) if p.as_slice() == wpath && "wst".contains(*t)) {
        't'
    } else {
        'f'
    };
    let allow = if cfg.allow.iter().any(|a| *a == d.to_string()) {
        'y'
    } else if wpath.is_empty() || cfg.xpubs.is_empty() {
        'n'
    } else if wpath.iter().any(|c| c & HARD != 0) {
        'p'
    } else if matches!(d, Desc::X(j, p, t) if cfg.xpubs.contains(j) && p.as_slice() == wpath && "wkt".contains(*t)) {
        'y'
    } else {
        'n'
    };
    (cs, allow)
}
fn dest_ok(t: (char, char)) -> bool {
    t.0 == 't' || (t.0 == 'f' && t.1 == 'y')
}

struct Env {
    node_ctx: TestNodeContext,
    chan_ctx: TestChannelContext,
    /// `cfg.allow` is the harness' own book of what is currently allowlisted (updated by `allow` ops)
    cfg: Cfg,
    ct: String,
    persister: Arc<dyn Persist>,
    seed: [u8; 32],
}

fn services_for(cfg: &Cfg, persister: Arc<dyn Persist>) -> NodeServices {
    let mut policy = make_default_simple_policy(NET);
    policy.min_feerate_per_kw = cfg.minf;
    policy.max_feerate_per_kw = cfg.maxf;
    policy.filter = cfg.policy_filter();
    NodeServices {
        validator_factory: super::c08::validator_factory(policy, cfg.onchain),
        starting_time_factory: make_genesis_starting_time_factory(NET),
        persister,
        clock: Arc::new(ManualClock::new(Duration::from_secs(1_600_000_000))),
        trusted_oracle_pubkeys: vec![],
    }
}

/// allowlist entries as the strings the node API takes (addresses; xpubs with the `xpub:` prefix)
fn allow_strings(node: &Node, descs: &[String]) -> Vec<String> {
    descs
        .iter()
        .filter_map(|d| allow_script(node, d))
        .filter_map(|sc| lightning_signer::bitcoin::Address::from_script(&sc, NET).ok())
        .map(|a| a.to_string())
        .collect()
}

fn make_env(cfg: &Cfg, ct: &str) -> Result<Env, String> {
    // a real persister: allowlist changes and restarts go through the store
    let persister: Arc<dyn Persist> = Arc::new(KVVPersister(MemoryKVVStore::new([9u8; 16]), JsonFormat));
    let services = services_for(cfg, persister.clone());
    let config = NodeConfig {
        network: NET,
        key_derivation_style: if cfg.style == 'l' { KeyDerivationStyle::Ldk } else { KeyDerivationStyle::Native },
        use_checkpoints: false,
        allow_deep_reorgs: false,
    };
    let mut seed = [0u8; 32];
    seed.copy_from_slice(&hex::decode(TEST_SEED[1]).unwrap());
    let node0 = Node::new(config, &seed, vec![], services.clone());
    let mut allow: Vec<Allowable> = cfg.allow.iter().filter_map(|s| allow_script(&node0, s)).map(Allowable::Script).collect();
    for j in &cfg.xpubs {
        allow.push(Allowable::XPub(ext_xpub(*j)));
    }
    let node = Arc::new(Node::new(config, &seed, allow, services));
    persister.new_node(&node.get_id(), &config, &*node.get_state()).map_err(|_| "new_node".to_string())?;
    persister.new_tracker(&node.get_id(), &node.get_tracker()).map_err(|_| "new_tracker".to_string())?;
    node.add_allowlist(&[]).map_err(|e| format!("persist allowlist: {}", e.message()))?;
    let node_ctx = TestNodeContext { node, secp_ctx: Secp256k1::signing_only() };
    let mut chan_ctx = test_chan_ctx_with_push_val(&node_ctx, 1, 3_000_000, 0);
    chan_ctx.setup.commitment_type = ct_of(ct);
    let ftx = Transaction {
        version: Version::TWO,
        lock_time: LockTime::ZERO,
        input: vec![],
        output: vec![TxOut { value: Amount::from_sat(3_000_000), script_pubkey: ScriptBuf::new() }],
    };
    if let Some(st) = funding_tx_setup_channel(&node_ctx, &mut chan_ctx, &ftx, 0) {
        return Err(format!("setup_channel: {}", st.message()));
    }
    Ok(Env { node_ctx, chan_ctx, cfg: cfg.clone(), ct: ct.to_string(), persister, seed })
}

fn status_class(st: &Status) -> String {
    match st.code() {
        Code::InvalidArgument => "err:invalid".into(),
        Code::FailedPrecondition => {
            if st.message().starts_with("transaction format") {
                "err:format".into()
            } else if st.message().starts_with("policy failure") {
                "err:policy".into()
            } else {
                format!("err:precondition-other {}", st.message())
            }
        }
        c => format!("err:other {:?} {}", c, st.message()),
    }
}

fn txid_of(id: u32) -> Txid {
    let mut h = [0x44u8; 32];
    h[..4].copy_from_slice(&id.to_be_bytes());
    Txid::from_slice(&h).unwrap()
}

/// Non-address output scripts of the other standard kinds (round 10).  `R/<n>` below 1000 is c08's raw script
/// (`n` bytes, OP_RETURN first: 0 = the empty script, 1 = a bare OP_RETURN, 3 / 40 = OP_RETURN + small-number opcodes);
/// the codes below name further scripts that no wallet path derives and no allowlist entry (address, xpub child) can
/// name.  The Lean wallet model reads every `R/<n>` as `Script.other n` (not spendable, not allowlistable), the
/// monitors' `dest_truth` classifies them ('f','n'): a signed sweep with such an output is `sweep-to-unknown-destination`.
const R_P2PK: usize = 1001;          // <33-byte key> OP_CHECKSIG
const R_MULTISIG: usize = 1002;      // bare 1-of-2: OP_1 <key> <key> OP_2 OP_CHECKMULTISIG
const R_TRUE: usize = 1003;          // anyone-can-spend: OP_1
const R_WITNESS_V2: usize = 1004;    // unknown witness version: OP_2 <32 bytes>
const R_OPRET_PUSH: usize = 1005;    // OP_RETURN <push of 20 bytes> (a data carrier)
const R_OPRET_P2WPKH: usize = 1006;  // OP_RETURN followed by the bytes of a wallet-looking p2wpkh program
const R_SPECIAL: [usize; 6] = [R_P2PK, R_MULTISIG, R_TRUE, R_WITNESS_V2, R_OPRET_PUSH, R_OPRET_P2WPKH];

fn special_script(n: usize) -> Option<ScriptBuf> {
    let k1 = foreign_key(901).serialize();
    let k2 = foreign_key(902).serialize();
    let mut v: Vec<u8> = vec![];
    match n {
        R_P2PK => { v.push(0x21); v.extend_from_slice(&k1); v.push(0xac); }
        R_MULTISIG => { v.push(0x51); v.push(0x21); v.extend_from_slice(&k1); v.push(0x21); v.extend_from_slice(&k2); v.push(0x52); v.push(0xae); }
        R_TRUE => v.push(0x51),
        R_WITNESS_V2 => { v.push(0x52); v.push(0x20); v.extend_from_slice(&k1[1..33]); }
        R_OPRET_PUSH => { v.push(0x6a); v.push(0x14); v.extend_from_slice(&k1[1..21]); }
        R_OPRET_P2WPKH => { v.push(0x6a); v.push(0x00); v.push(0x14); v.extend_from_slice(&k2[1..21]); }
        _ => return None,
    }
    Some(ScriptBuf::from_bytes(v))
}

fn desc_script(node: &Node, d: &Desc) -> ScriptBuf {
    if let Desc::R(n) = d {
        if let Some(s) = special_script(*n) {
            return s;
        }
    }
    allow_script(node, &d.to_string()).unwrap_or_else(ScriptBuf::new)
}

fn features(form_anchors: bool) -> ChannelTypeFeatures {
    let mut f = ChannelTypeFeatures::empty();
    f.set_static_remote_key_required();
    if form_anchors {
        f.set_anchors_zero_fee_htlc_tx_optional();
    }
    f
}

fn garbage_script() -> ScriptBuf {
    ScriptBuf::from_bytes(vec![0x76, 0xa9, 0x14, 1, 2, 3, 4, 5, 6, 7, 8, 9, 10, 11, 12, 13, 14, 15, 16, 17, 18, 19, 20, 0x88, 0xac])
}

struct SweepReq {
    height: u32,
    ver: i32,
    locktime: u32,
    seqs: Vec<u32>,
    input: usize,
    wpath: Vec<u32>,
    outs: Vec<Desc>,
}
fn parse_sweep(height: &str, ver: &str, lt: &str, seqs: &str, input: &str, wpath: &str, outs: &str) -> Option<SweepReq> {
    Some(SweepReq {
        height: height.parse().ok()?,
        ver: ver.parse().ok()?,
        locktime: lt.parse().ok()?,
        seqs: list(seqs).iter().map(|s| s.parse().ok()).collect::<Option<Vec<u32>>>()?,
        input: input.parse().ok()?,
        wpath: parse_path(wpath)?,
        outs: list(outs).iter().map(|s| Desc::parse(s)).collect::<Option<Vec<Desc>>>()?,
    })
}
impl SweepReq {
    fn tx(&self, node: &Node) -> Transaction {
        Transaction {
            version: Version(self.ver),
            lock_time: LockTime::from_consensus(self.locktime),
            input: self.seqs.iter().enumerate().map(|(i, s)| TxIn {
                previous_output: OutPoint { txid: txid_of(i as u32), vout: i as u32 },
                script_sig: ScriptBuf::new(),
                sequence: Sequence(*s),
                witness: Witness::default(),
            }).collect(),
            output: self.outs.iter().enumerate().map(|(i, d)| TxOut { value: Amount::from_sat(10_000 + i as u64), script_pubkey: desc_script(node, d) }).collect(),
        }
    }
    fn model_front(&self, cfg: &Cfg) -> String {
        // the outputs go to the model as script descriptors together with style, wallet path and allowlist: the facts
        // can_spend / allowlist_contains are computed by the Lean wallet model (Model/Wallet.lean), not by the harness
        // (`dest_truth` below stays the independent ground truth of the monitors)
        let mut al: Vec<String> = cfg.allow.clone();
        al.extend(cfg.xpubs.iter().map(|j| format!("x{}", j)));
        let outs = format!("@{};{};{};{}", cfg.style, path_str(&self.wpath), if al.is_empty() { "-".to_string() } else { al.join(",") },
            if self.outs.is_empty() { "-".to_string() } else { self.outs.iter().map(|d| d.to_string()).collect::<Vec<_>>().join(",") });
        format!("{} {} {} {} {} {} {}",
            if cfg.is_err(T_DEST) { 1 } else { 0 }, self.ver as u32, self.locktime, self.seqs.len(),
            self.seqs.first().copied().unwrap_or(0), outs, self.input)
    }
}

/// property-level checks common to the three sweeps, on an ACCEPTED request
fn sweep_monitor(kind: &str, env: &Env, r: &SweepReq, locktime_bound: Option<u32>, seq_ok: bool, at: usize, co: &mut CaseOut) {
    if env.cfg.is_err(T_DEST) {
        for (i, d) in r.outs.iter().enumerate() {
            if !dest_ok(dest_truth(&env.cfg, d, &r.wpath)) {
                co.violations.push(Violation { kind: "sweep-to-unknown-destination".into(), desc: format!("{}: signed although output {} ({}) is neither wallet-derivable at path {} nor allowlisted", kind, i, d.to_string(), path_str(&r.wpath)), at });
            }
        }
    }
    if r.ver != 2 {
        co.violations.push(Violation { kind: "sweep-version".into(), desc: format!("{}: signed version {}", kind, r.ver), at });
    }
    // height-domain locktimes must not exceed the bound; a time-domain locktime is only acceptable if it is
    // already in the past for every block (500_000_000 = 1985)
    let lock_ok = match locktime_bound {
        Some(b) => if r.locktime < 500_000_000 { r.locktime <= b } else { r.locktime == 500_000_000 },
        None => true,
    };
    if !lock_ok {
        co.violations.push(Violation { kind: "sweep-locktime-out-of-bounds".into(), desc: format!("{}: signed locktime {} with bound {:?} (height {})", kind, r.locktime, locktime_bound, r.height), at });
    }
    if !seq_ok {
        co.violations.push(Violation { kind: "sweep-sequence-out-of-bounds".into(), desc: format!("{}: signed sequences {:?}", kind, r.seqs), at });
    }
}


/// the returned sweep signature must be a valid SIGHASH_ALL signature of the expected key on the submitted tx
fn sweep_sig_monitor(kind: &str, tx: &Transaction, input: usize, redeem: &ScriptBuf, sig: &Option<lightning_signer::bitcoin::secp256k1::ecdsa::Signature>, pk: &PublicKey, at: usize, co: &mut CaseOut) {
    let secp = Secp256k1::new();
    let ok = match (sig, SighashCache::new(tx).p2wsh_signature_hash(input, redeem, Amount::from_sat(20_000), EcdsaSighashType::All)) {
        (Some(s), Ok(h)) => secp.verify_ecdsa(&Message::from_digest(h.to_byte_array()), s, pk).is_ok(),
        _ => false,
    };
    if !ok {
        co.violations.push(Violation { kind: "sweep-signature-invalid".into(), desc: format!("{}: the returned signature does not verify for the channel's sweep key on input {} of the submitted transaction", kind, input), at });
    }
}

pub struct C09Sweep;

impl C09Sweep {
    fn set_height(env: &Env, height: u32, nhc: Option<u64>) {
        env.node_ctx.node.with_channel(&env.chan_ctx.channel_id, |chan| {
            chan.monitor = ChainMonitorBase::new(chan.setup.funding_outpoint, height, &chan.id0);
            if let Some(n) = nhc {
                chan.enforcement_state.set_next_holder_commit_num_for_testing(n);
            }
            Ok(())
        }).unwrap();
    }

    fn exec_op(&self, env: &Env, t: &[&str], at: usize, co: &mut CaseOut) -> String {
        let node = env.node_ctx.node.clone();
        let cid = env.chan_ctx.channel_id.clone();
        let secp = Secp256k1::new();
        let guard = |f: &mut dyn FnMut() -> Result<(), Status>| -> String {
            match std::panic::catch_unwind(std::panic::AssertUnwindSafe(|| f())) {
                Err(_) => "panic".into(),
                Ok(Ok(())) => "ok".into(),
                Ok(Err(st)) => status_class(&st),
            }
        };
        match t {
            ["delayed", _, _, height, ver, lt, seqs, input, cnum, nhc, wpath, outs] => {
                let r = match parse_sweep(height, ver, lt, seqs, input, wpath, outs) { Some(r) => r, None => return "bad-op".into() };
                let (cnum, nhc): (u64, u64) = (cnum.parse().unwrap_or(0), nhc.parse().unwrap_or(0));
                Self::set_height(env, r.height, Some(nhc));
                let tx = r.tx(&node);
                let redeem = garbage_script();
                let wp = to_dp(&r.wpath);
                let mut sig_out = None;
                let res = guard(&mut || node.with_channel(&cid, |chan| chan.sign_delayed_sweep(&tx, r.input, cnum, &redeem, 20_000, &wp).map(|s| { sig_out = Some(s); })));
                if res == "ok" {
                    let point = node.with_channel(&cid, |chan| chan.get_per_commitment_point(cnum)).unwrap();
                    let pk = get_channel_delayed_payment_pubkey(&node, &cid, &point);
                    sweep_sig_monitor("delayed", &tx, r.input, &redeem, &sig_out, &pk, at, co);
                    let seq_ok = r.seqs.first() == Some(&(CP_DELAY as u32));
                    sweep_monitor("delayed", env, &r, Some(r.height.saturating_add(2)), seq_ok, at, co);
                }
                res
            }
            ["cphtlc", _, _, height, ver, lt, seqs, input, script, form, wpath, outs] => {
                let r = match parse_sweep(height, ver, lt, seqs, input, wpath, outs) { Some(r) => r, None => return "bad-op".into() };
                Self::set_height(env, r.height, None);
                let tx = r.tx(&node);
                let form_anchors = *form == "1";
                let point = foreign_key(500);
                let keys = node.with_channel(&cid, |chan| Ok(chan.make_counterparty_tx_keys(&point))).unwrap();
                let mut negative_cltv = false;
                let (redeem, cltv): (ScriptBuf, Option<u32>) = if *script == "x" {
                    (garbage_script(), None)
                } else {
                    // counterparty perspective: "received" by the counterparty = offered == false in its commitment
                    let offered = *script == "o";
                    let cltv_signed: i64 = if offered { 0 } else { script[1..].parse().unwrap_or(0) };
                    let cltv: u32 = cltv_signed.unsigned_abs().min(u32::MAX as u64) as u32;
                    let htlc = HTLCOutputInCommitment { offered, amount_msat: 20_000_000, cltv_expiry: cltv, payment_hash: PaymentHash([3; 32]), transaction_output_index: Some(0) };
                    let mut sc = get_htlc_redeemscript(&htlc, &features(form_anchors), &keys);
                    if cltv_signed < 0 {
                        // a negative script number: set the sign bit of the last byte of the cltv push (… <cltv> OP_CLTV)
                        let mut b = sc.to_bytes();
                        let le: Vec<u8> = { let mut v = cltv.to_le_bytes().to_vec(); while v.last() == Some(&0) { v.pop(); } v };
                        let mut pat = vec![le.len() as u8];
                        pat.extend_from_slice(&le);
                        pat.push(0xb1);
                        if let Some(pos) = b.windows(pat.len()).position(|w| w == &pat[..]) {
                            b[pos + le.len()] |= 0x80;
                            negative_cltv = true;
                        }
                        sc = ScriptBuf::from_bytes(b);
                    }
                    (sc, if offered { None } else { Some(cltv) })
                };
                let wp = to_dp(&r.wpath);
                let mut sig_out = None;
                let res = guard(&mut || node.with_channel(&cid, |chan| chan.sign_counterparty_htlc_sweep(&tx, r.input, &point, &redeem, 20_000, &wp).map(|s| { sig_out = Some(s); })));
                if res == "ok" {
                    let pk = get_channel_htlc_pubkey(&node, &cid, &point);
                    sweep_sig_monitor("cphtlc", &tx, r.input, &redeem, &sig_out, &pk, at, co);
                    let valid: &[u32] = if ct_anchors(&env.ct) { &[1] } else { &[0, 0xffff_fffd, 0xffff_ffff] };
                    let seq_ok = r.seqs.first().map(|s| valid.contains(s)).unwrap_or(false);
                    if negative_cltv {
                        co.violations.push(Violation { kind: "sweep-locktime-out-of-bounds".into(), desc: format!("counterparty HTLC sweep signed for a received-HTLC script with a negative cltv_expiry ({}): no locktime bound at all", script), at });
                    }
                    if *script == "x" || form_anchors != ct_anchors(&env.ct) {
                        co.violations.push(Violation { kind: "sweep-bad-redeemscript-signed".into(), desc: "counterparty HTLC sweep signed for a redeemscript that is not an HTLC script of this channel type".into(), at });
                    }
                    match cltv {
                        Some(c) => {
                            sweep_monitor("cphtlc-received", env, &r, None, seq_ok, at, co);
                            if r.locktime > c {
                                co.violations.push(Violation { kind: "sweep-locktime-out-of-bounds".into(), desc: format!("cphtlc-received: locktime {} > cltv_expiry {}", r.locktime, c), at });
                            }
                        }
                        None => sweep_monitor("cphtlc-offered", env, &r, Some(r.height.saturating_add(2)), seq_ok, at, co),
                    }
                }
                res
            }
            ["justice", _, _, height, ver, lt, seqs, input, wpath, outs] => {
                let r = match parse_sweep(height, ver, lt, seqs, input, wpath, outs) { Some(r) => r, None => return "bad-op".into() };
                Self::set_height(env, r.height, None);
                let tx = r.tx(&node);
                let redeem = garbage_script();
                let secret = SecretKey::from_slice(&[9u8; 32]).unwrap();
                let wp = to_dp(&r.wpath);
                let mut sig_out = None;
                let res = guard(&mut || node.with_channel(&cid, |chan| chan.sign_justice_sweep(&tx, r.input, &secret, &redeem, 20_000, &wp).map(|s| { sig_out = Some(s); })));
                if res == "ok" {
                    let pk = get_channel_revocation_pubkey(&node, &cid, &PublicKey::from_secret_key(&secp, &secret));
                    sweep_sig_monitor("justice", &tx, r.input, &redeem, &sig_out, &pk, at, co);
                    let seq_ok = r.seqs.first().map(|s| [0u32, 0xffff_fffd, 0xffff_ffff].contains(s)).unwrap_or(false);
                    sweep_monitor("justice", env, &r, Some(r.height.saturating_add(2)), seq_ok, at, co);
                }
                res
            }
            ["htlc", _, _, who, ver, lt, ins, outs, redeem, form, amount] => {
                let is_cp = *who == "c";
                let (ver, lt, amount): (i32, u32, u64) = match (ver.parse(), lt.parse(), amount.parse()) { (Ok(a), Ok(b), Ok(c)) => (a, b, c), _ => return "bad-op".into() };
                let form_anchors = *form == "1";
                // keys
                let (point, txkeys): (PublicKey, TxCreationKeys) = node.with_channel(&cid, |chan| {
                    if is_cp {
                        let p = foreign_key(600);
                        Ok((p, chan.make_counterparty_tx_keys(&p)))
                    } else {
                        chan.enforcement_state.set_next_holder_commit_num_for_testing(1);
                        let p = chan.get_per_commitment_point(1)?;
                        let h = chan.keys.pubkeys().clone();
                        let c = chan.counterparty_pubkeys().clone();
                        Ok((p, TxCreationKeys::derive_new(&secp, &p, &h.delayed_payment_basepoint, &h.htlc_basepoint, &c.revocation_basepoint, &c.htlc_basepoint)))
                    }
                }).unwrap();
                let rev = |id: u32| if id == 0 { txkeys.revocation_key.clone() } else { RevocationKey(foreign_key(700 + id)) };
                let dk = |id: u32| if id == 0 { txkeys.broadcaster_delayed_payment_key.clone() } else { DelayedPaymentKey(foreign_key(800 + id)) };
                let mk_script = |s: &str| -> Option<ScriptBuf> {
                    if let Some(r) = s.strip_prefix('r') {
                        let p: Vec<&str> = r.split('/').collect();
                        if p.len() != 3 { return None; }
                        let d: u32 = p[1].parse().ok()?;
                        if d > u16::MAX as u32 { return None; }
                        Some(get_revokeable_redeemscript(&rev(p[0].parse().ok()?), d as u16, &dk(p[2].parse().ok()?)).to_p2wsh())
                    } else if let Some(o) = s.strip_prefix('o') {
                        Some(key_script(&foreign_key(900 + o.parse::<u32>().ok()?), 'w'))
                    } else { None }
                };
                let mut inputs = vec![];
                for s in list(ins) {
                    let p: Vec<&str> = s.split(':').collect();
                    if p.len() != 3 { return "bad-op".into(); }
                    inputs.push(TxIn { previous_output: OutPoint { txid: txid_of(p[0].parse().unwrap_or(0)), vout: p[1].parse().unwrap_or(0) }, script_sig: ScriptBuf::new(), sequence: Sequence(p[2].parse().unwrap_or(0)), witness: Witness::default() });
                }
                let mut outputs = vec![];
                for s in list(outs) {
                    let (v, sc) = match s.split_once(':') { Some(x) => x, None => return "bad-op".into() };
                    let sc = match mk_script(sc) { Some(x) => x, None => return "bad-op".into() };
                    outputs.push(TxOut { value: Amount::from_sat(v.parse().unwrap_or(0)), script_pubkey: sc });
                }
                let tx = Transaction { version: Version(ver), lock_time: LockTime::from_consensus(lt), input: inputs, output: outputs };
                let offered = *redeem == "o";
                let redeemscript = if *redeem == "x" { garbage_script() } else {
                    let htlc = HTLCOutputInCommitment { offered, amount_msat: amount.saturating_mul(1000), cltv_expiry: if offered { lt } else { 77 }, payment_hash: PaymentHash([5; 32]), transaction_output_index: Some(0) };
                    get_htlc_redeemscript(&htlc, &features(form_anchors), &txkeys)
                };
                let to_self_delay = if is_cp { HOLDER_DELAY } else { CP_DELAY };
                let witscript = get_revokeable_redeemscript(&txkeys.revocation_key, to_self_delay, &txkeys.broadcaster_delayed_payment_key);
                let mut sig_out = None;
                let res = guard(&mut || node.with_channel(&cid, |chan| {
                    let s = if is_cp { chan.sign_counterparty_htlc_tx(&tx, &point, &redeemscript, amount, &witscript)? } else { chan.sign_holder_htlc_tx(&tx, 1, None, &redeemscript, amount, &witscript)? };
                    sig_out = Some(s);
                    Ok(())
                }));
                if res == "ok" {
                    // ---- monitor: the signed transaction must be the BOLT-3 HTLC transaction
                    let anchors = ct_anchors(&env.ct);
                    let zero_fee = env.ct == "z";
                    let mut bad: Vec<String> = vec![];
                    if *redeem == "x" || form_anchors != anchors { bad.push("redeemscript is not an HTLC script of this channel type".into()); }
                    if tx.version != Version::TWO { bad.push(format!("version {}", ver)); }
                    if offered && lt == 0 && env.cfg.is_err(T_LOCK) { bad.push("offered HTLC with locktime 0".into()); }
                    if !offered && lt != 0 { bad.push(format!("HTLC-success with locktime {}", lt)); }
                    if !anchors && (tx.input.len() != 1 || tx.output.len() != 1) { bad.push(format!("{} inputs / {} outputs under SIGHASH_ALL", tx.input.len(), tx.output.len())); }
                    match (tx.input.first(), tx.output.first()) {
                        (Some(i0), Some(o0)) => {
                            if i0.sequence.0 != if zero_fee { 1 } else { 0 } { bad.push(format!("input sequence {}", i0.sequence.0)); }
                            let want = get_revokeable_redeemscript(&txkeys.revocation_key, to_self_delay, &txkeys.broadcaster_delayed_payment_key).to_p2wsh();
                            if o0.script_pubkey != want { bad.push("output script is not the revokeable script for the negotiated delay / revocation / delayed keys".into()); }
                            let v = o0.value.to_sat();
                            if v > amount { bad.push("output exceeds the HTLC amount".into()); }
                            else if zero_fee { if v != amount { bad.push(format!("zero-fee HTLC tx pays a fee of {}", amount - v)); } }
                            else {
                                let fee = (amount - v) as u128;
                                let w: u128 = if offered { 663 } else { 703 };
                                // feerates f with f*w/1000 == fee:  ceil(fee*1000/w) ..= (fee*1000+999)/w
                                let lo = (fee * 1000 + w - 1) / w;
                                let hi = (fee * 1000 + 999) / w;
                                if lo > hi { bad.push(format!("fee {} is not feerate*weight/1000 for any feerate", fee)); }
                                else if env.cfg.is_err(T_FEE) && (hi < env.cfg.minf as u128 || lo > env.cfg.maxf as u128) {
                                    co.violations.push(Violation { kind: "htlc-feerate-out-of-range".into(), desc: format!("signed HTLC tx with fee {} (feerate {}..{}) outside [{}, {}]", fee, lo, hi, env.cfg.minf, env.cfg.maxf), at });
                                }
                            }
                            // the signature must verify for the HTLC key on the sighash of the submitted tx
                            if let Some(ts) = &sig_out {
                                let ty = if anchors { EcdsaSighashType::SinglePlusAnyoneCanPay } else { EcdsaSighashType::All };
                                if ts.typ != ty { bad.push(format!("sighash type {:?}", ts.typ)); }
                                if let Ok(h) = SighashCache::new(&tx).p2wsh_signature_hash(0, &redeemscript, Amount::from_sat(amount), ts.typ) {
                                    let htlc_pk = if is_cp { txkeys.countersignatory_htlc_key.to_public_key() } else { txkeys.broadcaster_htlc_key.to_public_key() };
                                    if secp.verify_ecdsa(&Message::from_digest(h.to_byte_array()), &ts.sig, &htlc_pk).is_err() {
                                        bad.push("signature does not verify on the submitted transaction".into());
                                    }
                                }
                            }
                        }
                        _ => bad.push("no input or no output".into()),
                    }
                    if !bad.is_empty() {
                        co.violations.push(Violation { kind: "htlc-tx-not-canonical".into(), desc: format!("signed second-level HTLC tx deviates from BOLT-3: {}", bad.join("; ")), at });
                    }
                }
                res
            }
            _ => "bad-op".into(),
        }
    }
}

fn gen_cfg(rng: &mut Rng) -> Cfg {
    let (minf, maxf) = match rng.below(8) { 0 => (0, 333_333), 1 => (253, 25_000), 2 => (1000, 1000), 3 => (253, u32::MAX), _ => (253, 333_333) };
    let filter = match rng.below(16) { 0 => "p", 1 => "wd", 2 => "wl", 3 => "wf", 4 | 5 | 6 => "ws", _ => "d" }.to_string();
    let style = if rng.chance(1, 4) { 'l' } else { 'n' };
    let mut allow = vec![];
    for _ in 0..rng.below(4) {
        allow.push(match rng.below(5) {
            0 => Desc::W(vec![rng.below(4) as u32], *rng.pick(&['w', 's', 't'])),
            _ => Desc::F(rng.below(4) as u32, *rng.pick(&['w', 's', 't', 'k', 'h'])),
        }.to_string());
    }
    allow.sort();
    allow.dedup();
    let mut xpubs = vec![];
    for _ in 0..(if rng.chance(1, 2) { rng.below(3) } else { 0 }) { xpubs.push(rng.below(3) as u32); }
    xpubs.sort();
    xpubs.dedup();
    Cfg { minf, maxf, filter, style, onchain: rng.chance(1, 3), allow, xpubs }
}

fn gen_dests(rng: &mut Rng, cfg: &Cfg, removed: &[String], removed_x: &[u32]) -> (Vec<u32>, Vec<Desc>) {
    let p: Vec<u32> = if cfg.style == 'l' && rng.chance(1, 3) { vec![rng.below(3) as u32, rng.below(3) as u32] } else { vec![rng.below(5) as u32] };
    let wpath = match rng.below(14) { 0 => vec![], 1 => vec![p[0] | HARD], 2 => { let mut q = p.clone(); q.push(1); q } _ => p.clone() };
    let n = match rng.below(10) { 0 => 0, 1..=5 => 1, 6 | 7 => 2, 8 => 3, _ => 4 };
    let mut outs = vec![];
    for i in 0..n {
        // mostly good destinations; the bad one (if any) is more often NOT the first output
        let bad = rng.chance(1, if i == 0 { 12 } else { 5 });
        let d = if !removed_x.is_empty() && rng.chance(1, 3) {
            // a child (at the request's path) of an xpub that WAS allowlisted and has been dropped since
            Desc::X(*rng.pick(removed_x), p.clone(), *rng.pick(&['w', 'k', 't']))
        } else if !removed.is_empty() && rng.chance(1, 4) {
            // a destination that WAS allowlisted and has been removed since
            Desc::parse(rng.pick(removed).as_str()).unwrap()
        } else if bad {
            match rng.below(7) {
                0 => Desc::W(vec![(p[0] + 1) & !HARD], 'w'),
                1 => Desc::W(p.clone(), 'k'),
                2 => Desc::X(3, p.clone(), 'w'),
                // scripts of the other standard kinds, with a value like every other output: OP_RETURN carriers, the
                // empty script, p2pk, bare multisig, anyone-can-spend, an unknown witness version, foreign p2pkh / p2wsh
                3 => Desc::R(*rng.pick(&[0usize, 1, 3, 40])),
                4 => Desc::R(*rng.pick(&R_SPECIAL)),
                5 => Desc::F(rng.below(5) as u32 + 10, *rng.pick(&['k', 'h'])),
                _ => Desc::F(rng.below(5) as u32 + 10, *rng.pick(&['w', 's', 't'])),
            }
        } else {
            match rng.below(6) {
                0 | 1 | 2 => Desc::W(p.clone(), *rng.pick(&['w', 's', 't'])),
                3 if !cfg.allow.is_empty() => Desc::parse(rng.pick(&cfg.allow[..]).as_str()).unwrap(),
                4 if !cfg.xpubs.is_empty() => Desc::X(*rng.pick(&cfg.xpubs[..]), p.clone(), *rng.pick(&['w', 'k', 't', 's'])),
                _ => Desc::W(p.clone(), 'w'),
            }
        };
        outs.push(d);
    }
    (wpath, outs)
}


/// a sequence value for input 0: mostly one of the permitted values `good`, otherwise a neighbour, a classic
/// constant, or a permitted value with BIP68 high bits set (disable flag, time-units flag, bit 16, all of the
/// high half) - the full 32-bit value must match, not only the low 16 bits
fn gen_seq(rng: &mut Rng, good: &[u32]) -> u32 {
    let g = *rng.pick(good);
    match rng.below(16) {
        0 => g.wrapping_add(1),
        1 => g.wrapping_sub(1),
        // the classic constants and the values permitted for the OTHER sweep kinds (contest delays, anchor sequence)
        2 | 7 => *rng.pick(&[0u32, 0xffff_ffff, 0xffff_fffe, 0xffff_fffd, 1, 2, CP_DELAY as u32, HOLDER_DELAY as u32]),
        3 | 4 | 5 => g | *rng.pick(&[0x8000_0000u32, 0x0040_0000, 0x0001_0000, 0xffff_0000]),
        6 => (g & 0xffff) | ((rng.next() as u32) & 0xffff_0000),
        _ => g,
    }
}

fn gen_height(rng: &mut Rng) -> u32 {
    match rng.below(10) { 0 => 0, 1 => 499_999_997, 2 => 499_999_998, 3 => 499_999_996, 4 => u32::MAX - 1, 5 => u32::MAX - 2, _ => rng.range(1, 900_000) as u32 }
}
fn gen_locktime(rng: &mut Rng, height: u32) -> u32 {
    let h = height as u64;
    (match rng.below(12) {
        0 => 0,
        1 => h + 2,
        2 => h + 3,
        3 => h + 1,
        4 => 500_000_000,
        5 => 500_000_001,
        6 => 499_999_999,
        7 => 1_700_000_000,
        8 => u32::MAX as u64,
        _ => rng.below(h + 3),
    }).min(u32::MAX as u64) as u32
}
fn join<T: ToString>(v: &[T]) -> String {
    if v.is_empty() { "-".into() } else { v.iter().map(|x| x.to_string()).collect::<Vec<_>>().join(",") }
}

impl Group for C09Sweep {
    fn property(&self) -> &'static str { "C09" }
    fn model(&self) -> Option<&'static str> { Some("sweep") }
    fn rule(&self) -> &'static str {
        "real Node + Ready Channel (StaticRemoteKey / AnchorsZeroFeeHtlc / Anchors-under-permissive-filter; Native/Ldk derivation; \
         allowlisted scripts and xpubs; default / single-tag-warn / permissive filter; feerate ranges): delayed, counterparty-HTLC and \
         justice sweeps with 0-4 outputs (the bad destination mostly not first), 0-3 inputs, signed input index in and out of range, \
         heights 0..u32::MAX incl. the 500_000_000 boundary, locktimes at height+MAX_CHAIN_LAG±1 and in the time domain, sequences in, next to and with BIP68 high bits (0x80000000, 0x00400000, 0x00010000, 0xffff0000) or-ed onto the permitted values, commitment numbers around next_holder_commit_num+1; second-level HTLC txs (holder and counterparty, \
         offered/received, both script forms) with mutated version/locktime/sequence/delay/revocation key/delayed key/value/extra inputs \
         and outputs and fees at the min/max feerate edges; allowlist add/remove/set requests and restarts from a real KVVPersister<MemoryKVVStore> (Node::restore_node) between requests, with sweeps paying destinations that were allowlisted earlier and removed since; non-trivial = at least one signature and one refusal"
    }
    fn budget(&self, tier: Tier) -> usize { if tier == Tier::Quick { 2500 } else { 40000 } }
    fn corpus(&self) -> Vec<Vec<String>> {
        let c = |s: &str| s.split('|').map(|x| x.to_string()).collect::<Vec<String>>();
        vec![
            // the repository's scenarios: wallet destination, bad locktime (height 3: 1000000 > 5), bad sequence
            c("env 253;333333;d;n;-;- s|delayed 253;333333;d;n;-;- s 3 2 0 7 0 0 1 19 W/19/w|delayed 253;333333;d;n;-;- s 3 2 1000000 7 0 0 1 19 W/19/w|delayed 253;333333;d;n;-;- s 3 2 0 42 0 0 1 19 W/19/w"),
            // second output to a foreign script; time-domain locktime 500000000; locktime = height + 2 / + 3
            c("env 253;333333;d;n;-;- s|delayed 253;333333;d;n;-;- s 100 2 0 7 0 0 1 1 W/1/w,F/3/w|justice 253;333333;d;n;-;- s 100 2 500000000 0 0 1 W/1/w|justice 253;333333;d;n;-;- s 100 2 102 0 0 1 W/1/w|justice 253;333333;d;n;-;- s 100 2 103 0 0 1 W/1/w"),
            // nSequence must equal the contest delay on all 32 bits: disable flag / time-units flag / high half set
            c("env 253;333333;d;n;-;- s|delayed 253;333333;d;n;-;- s 100 2 0 2147483655 0 0 1 1 W/1/w|delayed 253;333333;d;n;-;- s 100 2 0 4194311 0 0 1 1 W/1/w|delayed 253;333333;d;n;-;- s 100 2 0 4294901767 0 0 1 1 W/1/w|delayed 253;333333;d;n;-;- s 100 2 0 65543 0 0 1 1 W/1/w"),
            // allowlist A, sweep to A signed; remove A: refused; restart from the store: still refused; add again + restart: signed
            c("env 253;333333;d;n;F/3/w;- s|justice 253;333333;d;n;F/3/w;- s 100 2 0 0 0 - F/3/w|allow remove F/3/w|justice 253;333333;d;n;-;- s 100 2 0 0 0 - F/3/w|restart|justice 253;333333;d;n;-;- s 100 2 0 0 0 - F/3/w|delayed 253;333333;d;n;-;- s 100 2 0 7 0 0 1 - F/3/w|allow add F/3/w|restart|justice 253;333333;d;n;F/3/w;- s 100 2 0 0 0 - F/3/w"),
            // deprecated option_anchors channel (safe-type tag demoted): the fee floor applies (only zero-fee-HTLC channels have no
            // fee): feerate 1000 signed, feerate 0 refused, the smallest fee that still implies 253 sat/kw signed
            c("env 253;333333;ws;n;-;- a|htlc 253;333333;ws;n;-;- a h 2 131072 5:0:0 9337:r0/7/0 o 1 10000|htlc 253;333333;ws;n;-;- a h 2 131072 5:0:0 10000:r0/7/0 o 1 10000|htlc 253;333333;ws;n;-;- a c 2 0 5:0:0 9823:r0/6/0 r 1 10000"),
            // vlsd's default OnchainValidatorFactory (upper-case style letter): justice sweep sequences 0 / 0xfffffffd / 0xffffffff signed,
            // the contest delay refused; delayed sweep the other way round
            c("env 253;333333;d;N;-;- s|justice 253;333333;d;N;-;- s 100 2 0 0 0 1 W/1/w|justice 253;333333;d;N;-;- s 100 2 0 4294967293 0 1 W/1/w|justice 253;333333;d;N;-;- s 100 2 0 7 0 1 W/1/w|delayed 253;333333;d;N;-;- s 100 2 0 7 0 0 1 1 W/1/w|delayed 253;333333;d;N;-;- s 100 2 0 0 0 0 1 1 W/1/w"),
            // an xpub entry: its child at the request's path is a destination; the list is replaced without it: refused, also after a restart
            c("env 253;333333;d;n;-;1 s|justice 253;333333;d;n;-;1 s 100 2 0 0 0 2 X1/2/w|allow set F/3/w|justice 253;333333;d;n;F/3/w;- s 100 2 0 0 0 2 X1/2/w|restart|justice 253;333333;d;n;F/3/w;- s 100 2 0 0 0 2 X1/2/w|allow set F/3/w,x1|justice 253;333333;d;n;F/3/w;1 s 100 2 0 0 0 2 X1/2/w"),
            // canonical HTLC-timeout (non-anchors, feerate 1000 → fee 663) and a wrong delay
            c("env 253;333333;d;n;-;- s|htlc 253;333333;d;n;-;- s h 2 131072 5:0:0 9337:r0/7/0 o 0 10000|htlc 253;333333;d;n;-;- s h 2 131072 5:0:0 9337:r0/6/0 o 0 10000"),
        ]
    }
    fn model_line(&self, op: &str) -> Option<String> {
        let t: Vec<&str> = op.split_whitespace().collect();
        let cfg = t.get(1).and_then(|c| Cfg::parse(c));
        match (t.as_slice(), cfg) {
            (["env", ..], _) | (["allow", ..], _) | (["restart"], _) => None,
            (["delayed", _, _ct, height, ver, lt, seqs, input, cnum, nhc, wpath, outs], Some(cfg)) => {
                let r = parse_sweep(height, ver, lt, seqs, input, wpath, outs)?;
                let (cnum, nhc): (u64, u64) = (cnum.parse().ok()?, nhc.parse().ok()?);
                Some(format!("delayed {} {} {} {}", r.model_front(&cfg), if cnum <= nhc.saturating_add(1) { 1 } else { 0 }, r.height, CP_DELAY))
            }
            (["cphtlc", _, ct, height, ver, lt, seqs, input, script, form, wpath, outs], Some(cfg)) => {
                let r = parse_sweep(height, ver, lt, seqs, input, wpath, outs)?;
                // read_scriptint accepts at most 4 bytes: a cltv_expiry ≥ 2^31 does not parse as an HTLC script
                let cltv_fits = script.strip_prefix('r').map(|c| c.parse::<i64>().map(|c| c.unsigned_abs() <= 0x7fff_ffff).unwrap_or(false)).unwrap_or(true);
                let parses = (*form == "1") == ct_anchors(ct) && *script != "x" && cltv_fits;
                Some(format!("cphtlc {} {} {} {}", r.model_front(&cfg), if parses { script.to_string() } else { "x".to_string() }, if ct_anchors(ct) { 1 } else { 0 }, r.height))
            }
            (["justice", _, _ct, height, ver, lt, seqs, input, wpath, outs], Some(cfg)) => {
                let r = parse_sweep(height, ver, lt, seqs, input, wpath, outs)?;
                Some(format!("justice {} {}", r.model_front(&cfg), r.height))
            }
            (["htlc", _, ct, who, ver, lt, ins, outs, redeem, form, amount], Some(cfg)) => {
                let parses = (*form == "1") == ct_anchors(ct) && *redeem != "x";
                let ver: i32 = ver.parse().ok()?;
                Some(format!("htlc {} {} {} {} {} {} {} {} {} {} {} {}", cfg.minf, cfg.maxf,
                    if cfg.is_err(T_LOCK) { 1 } else { 0 }, if cfg.is_err(T_FEE) { 1 } else { 0 }, ct,
                    if *who == "c" { HOLDER_DELAY } else { CP_DELAY }, ver as u32, lt, ins, outs,
                    if parses { redeem.to_string() } else { "x".to_string() }, amount))
            }
            _ => Some("bad-op".into()),
        }
    }
    fn gen_case(&self, rng: &mut Rng, tier: Tier) -> Vec<String> {
        let mut cfg = gen_cfg(rng);
        // the deprecated plain option_anchors type is only admitted with policy-channel-safe-type demoted (ws, or permissive)
        let ct = if (cfg.filter == "p" && rng.chance(1, 2)) || (cfg.filter == "ws" && rng.chance(3, 4)) { "a" } else if rng.chance(1, 2) { "z" } else { "s" };
        let mut ops = vec![format!("env {} {}", cfg.to_string(), ct)];
        let n = rng.range(2, if tier == Tier::Quick { 6 } else { 12 });
        // destinations that were allowlisted earlier in this case and are not any more
        let mut removed: Vec<String> = vec![];
        let mut removed_x: Vec<u32> = vec![];
        for _ in 0..n {
            // allowlist changes (the generator keeps the same book as the executor) and restarts from the store
            if rng.chance(1, 3) {
                let fresh = |rng: &mut Rng| match rng.below(4) {
                    0 => Desc::W(vec![rng.below(4) as u32], *rng.pick(&['w', 's', 't'])),
                    _ => Desc::F(rng.below(6) as u32, *rng.pick(&['w', 's', 't', 'k', 'h'])),
                }.to_string();
                match rng.below(8) {
                    6 => {
                        // an xpub entry comes ...
                        let j = rng.below(3) as u32;
                        removed_x.retain(|x| *x != j);
                        cfg.xpubs.push(j);
                        ops.push(format!("allow add x{}", j));
                    }
                    7 if !cfg.xpubs.is_empty() => {
                        // ... and goes
                        let j = *rng.pick(&cfg.xpubs[..]);
                        cfg.xpubs.retain(|x| *x != j);
                        removed_x.push(j);
                        ops.push(format!("allow remove x{}", j));
                    }
                    0 | 1 => {
                        let d = if !removed.is_empty() && rng.chance(1, 3) { rng.pick(&removed[..]).clone() } else { fresh(rng) };
                        removed.retain(|x| *x != d);
                        cfg.allow.push(d.clone());
                        ops.push(format!("allow add {}", d));
                    }
                    2 | 3 | 4 if !cfg.allow.is_empty() => {
                        let d = rng.pick(&cfg.allow[..]).clone();
                        cfg.allow.retain(|x| *x != d);
                        removed.push(d.clone());
                        ops.push(format!("allow remove {}", d));
                    }
                    _ => {
                        let mut keep: Vec<String> = cfg.allow.iter().filter(|_| rng.chance(1, 2)).cloned().collect();
                        if rng.chance(1, 2) { keep.push(fresh(rng)); }
                        keep.sort();
                        keep.dedup();
                        for d in &cfg.allow { if !keep.contains(d) { removed.push(d.clone()); } }
                        removed.retain(|x| !keep.contains(x));
                        cfg.allow = keep;
                        // the replacement list names the xpub entries it keeps; the others are dropped with everything else
                        let keep_x: Vec<u32> = cfg.xpubs.iter().filter(|_| rng.chance(1, 2)).cloned().collect();
                        for j in &cfg.xpubs { if !keep_x.contains(j) { removed_x.push(*j); } }
                        cfg.xpubs = keep_x;
                        let mut items: Vec<String> = cfg.allow.clone();
                        items.extend(cfg.xpubs.iter().map(|j| format!("x{}", j)));
                        ops.push(format!("allow set {}", join(&items)));
                    }
                }
                cfg.allow.sort();
                cfg.allow.dedup();
                cfg.xpubs.sort();
                cfg.xpubs.dedup();
                removed_x.retain(|j| !cfg.xpubs.contains(j));
            }
            if rng.chance(1, if removed.is_empty() && removed_x.is_empty() { 8 } else { 2 }) {
                ops.push("restart".into());
            }
            let cs = cfg.to_string();
            let kind = rng.below(10);
            if kind < 6 {
                let height = gen_height(rng);
                let lt = gen_locktime(rng, height);
                let (wpath, outs) = gen_dests(rng, &cfg, &removed, &removed_x);
                let n_in = match rng.below(10) { 0 => 0, 1 | 2 => 2, 3 => 3, _ => 1 };
                let input = if rng.chance(1, 12) { n_in } else if n_in > 0 { rng.below(n_in as u64) as usize } else { 0 };
                let ver = match rng.below(12) { 0 => 1, 1 => 3, _ => 2 };
                let outs_s = join(&outs.iter().map(|d| d.to_string()).collect::<Vec<_>>());
                match kind {
                    0 | 1 => {
                        let seqs: Vec<u32> = (0..n_in).map(|_| gen_seq(rng, &[CP_DELAY as u32])).collect();
                        let nhc = rng.below(4);
                        let cnum = match rng.below(8) { 0 => nhc + 2, 1 => nhc + 1, 2 => nhc + 3, _ => rng.below(nhc + 1) };
                        ops.push(format!("delayed {} {} {} {} {} {} {} {} {} {} {}", cs, ct, height, ver, lt, join(&seqs), input, cnum, nhc, path_str(&wpath), outs_s));
                    }
                    2 | 3 => {
                        let good: &[u32] = if ct_anchors(ct) { &[1] } else { &[0, 0xffff_fffd, 0xffff_ffff] };
                        let seqs: Vec<u32> = (0..n_in).map(|_| gen_seq(rng, good)).collect();
                        let (script, lt) = match rng.below(10) {
                            0 => ("x".to_string(), lt),
                            1..=4 => ("o".to_string(), lt),
                            _ => {
                                if rng.chance(1, 12) {
                                    // negative script number in the received-HTLC script (the sign bit set on a 3-byte cltv)
                                    let l = *rng.pick(&[0u32, 100, lt, 1_193_046, u32::MAX]);
                                    let form = if rng.chance(1, 10) { !ct_anchors(ct) } else { ct_anchors(ct) };
                                    ops.push(format!("cphtlc {} {} {} {} {} {} {} r-1193046 {} {} {}", cs, ct, height, ver, l, join(&seqs), input, if form { 1 } else { 0 }, path_str(&wpath), outs_s));
                                    continue;
                                }
                                let cltv = match rng.below(5) { 0 => 0, 1 => u32::MAX, 2 => 499_999_999, _ => rng.range(1, 800_000) as u32 };
                                let l = match rng.below(6) { 0 => cltv.saturating_add(1), 1 => cltv, 2 => cltv.saturating_sub(1), 3 => 0, 4 => lt, _ => rng.below(cltv as u64 + 1) as u32 };
                                (format!("r{}", cltv), l)
                            }
                        };
                        let form = if rng.chance(1, 10) { !ct_anchors(ct) } else { ct_anchors(ct) };
                        ops.push(format!("cphtlc {} {} {} {} {} {} {} {} {} {} {}", cs, ct, height, ver, lt, join(&seqs), input, script, if form { 1 } else { 0 }, path_str(&wpath), outs_s));
                    }
                    _ => {
                        let seqs: Vec<u32> = (0..n_in).map(|_| gen_seq(rng, &[0u32, 0xffff_fffd, 0xffff_ffff])).collect();
                        ops.push(format!("justice {} {} {} {} {} {} {} {} {}", cs, ct, height, ver, lt, join(&seqs), input, path_str(&wpath), outs_s));
                    }
                }
            } else {
                // second-level HTLC tx: start from the canonical one, then mutate
                let is_cp = rng.chance(1, 2);
                let offered = rng.chance(1, 2);
                let zero_fee = ct == "z";
                let delay = if is_cp { HOLDER_DELAY } else { CP_DELAY } as u32;
                let amount: u64 = match rng.below(10) { 0 => 0, 1 => 546, 2 => u64::MAX / 1000, 3 => u64::MAX / 1000 + 1, 4 => 21_000_000 * 100_000_000, _ => rng.range(1_000, 20_000_000) };
                let w: u64 = if offered { if zero_fee { 666 } else { 663 } } else if zero_fee { 706 } else { 703 };
                let fr: u64 = match rng.below(10) { 0 => cfg.minf as u64, 1 => (cfg.minf as u64).saturating_sub(1), 2 => cfg.maxf as u64, 3 => cfg.maxf as u64 + 1, 4 => 0, 5 => 4_294_967_296 + rng.below(1000), _ => rng.range(cfg.minf as u64, (cfg.maxf as u64).min(50_000).max(cfg.minf as u64)) };
                let fee = if zero_fee { 0 } else { ((fr as u128 * w as u128) / 1000).min(u64::MAX as u128) as u64 };
                let mut value = amount.saturating_sub(fee);
                let mut ver = 2;
                let mut lt: u32 = if offered { match rng.below(8) { 0 => 0, 1 => 500_000_001, _ => rng.range(1, 800_000) as u32 } } else { 0 };
                let mut ins = vec![format!("{}:{}:{}", rng.below(3), rng.below(4), if zero_fee { 1 } else { 0 })];
                let (mut r, mut d, mut k) = (0u32, delay, 0u32);
                let mut other = false;
                let mut outs_extra: Vec<String> = vec![];
                let mut redeem = if offered { "o" } else { "r" }.to_string();
                let mut form = ct_anchors(ct);
                if rng.chance(1, 2) {
                    match rng.below(16) {
                        0 => ver = *rng.pick(&[1, 3]),
                        1 => lt = if offered { 0 } else { rng.range(1, 1000) as u32 },
                        2 => ins[0] = format!("0:0:{}", if zero_fee { 0 } else { 1 }),
                        3 => d = delay + 1,
                        4 => d = if is_cp { CP_DELAY } else { HOLDER_DELAY } as u32,
                        5 => r = 1,
                        6 => k = 1,
                        7 => other = true,
                        8 => value = value.saturating_add(1),
                        9 => value = value.saturating_sub(1),
                        10 => ins.push("9:0:0".to_string()),
                        11 => outs_extra.push(format!("{}:o4", rng.below(100_000))),
                        12 => redeem = "x".into(),
                        13 => form = !form,
                        14 => { ins.clear(); }
                        _ => value = amount.saturating_add(rng.below(3)),
                    }
                }
                let mut outs = vec![format!("{}:{}", value, if other { "o1".to_string() } else { format!("r{}/{}/{}", r, d, k) })];
                outs.extend(outs_extra);
                if rng.chance(1, 40) { outs.clear(); }
                ops.push(format!("htlc {} {} {} {} {} {} {} {} {} {}", cs, ct, if is_cp { "c" } else { "h" }, ver, lt, join(&ins), join(&outs), redeem, if form { 1 } else { 0 }, amount));
            }
        }
        ops
    }
    fn exec_case(&self, ops: &[String]) -> CaseOut {
        let mut co = CaseOut::default();
        let mut env: Option<Env> = None;
        let (mut acc, mut rej) = (false, false);
        for (i, op) in ops.iter().enumerate() {
            let t: Vec<&str> = op.split_whitespace().collect();
            let line = match t.as_slice() {
                ["env", cfg, ct] => match Cfg::parse(cfg).map(|c| make_env(&c, ct)) {
                    Some(Ok(e)) => { env = Some(e); "ok".to_string() }
                    Some(Err(m)) => format!("harness-setup-failed {}", m),
                    None => "bad-op".into(),
                },
                ["allow", what, descs] => {
                    let e = env.as_mut().expect("allow before env (malformed shrunk case)");
                    // items: script descriptors, or `x<j>` for the xpub entry j
                    let is_x = |s: &&str| s.starts_with('x') && s[1..].parse::<u32>().is_ok();
                    let ds: Vec<String> = list(descs).iter().filter(|s| !is_x(s)).map(|s| s.to_string()).collect();
                    let xs: Vec<u32> = list(descs).iter().filter(|s| is_x(s)).map(|s| s[1..].parse().unwrap()).collect();
                    let node = e.node_ctx.node.clone();
                    let mut strs = allow_strings(&node, &ds);
                    for j in &xs { strs.push(format!("xpub:{}", ext_xpub(*j))); }
                    let r = match *what {
                        "add" => {
                            for d in &ds { if !e.cfg.allow.contains(d) { e.cfg.allow.push(d.clone()); } }
                            for j in &xs { if !e.cfg.xpubs.contains(j) { e.cfg.xpubs.push(*j); } }
                            node.add_allowlist(&strs)
                        }
                        "remove" => {
                            e.cfg.allow.retain(|d| !ds.contains(d));
                            e.cfg.xpubs.retain(|j| !xs.contains(j));
                            node.remove_allowlist(&strs)
                        }
                        _ => {
                            // set_allowlist replaces EVERYTHING, xpub entries included: the book is exactly the new list
                            e.cfg.allow = ds.clone();
                            e.cfg.xpubs = xs.clone();
                            node.set_allowlist(&strs)
                        }
                    };
                    e.cfg.allow.sort();
                    e.cfg.allow.dedup();
                    e.cfg.xpubs.sort();
                    e.cfg.xpubs.dedup();
                    co.tags.insert(format!("allow:{}", what));
                    match r { Ok(()) => "ok".to_string(), Err(st) => format!("allow-failed {}", st.message()) }
                }
                ["restart"] => {
                    let e = env.as_mut().expect("restart before env (malformed shrunk case)");
                    let (node_id, entry) = e.persister.get_nodes().unwrap().into_iter().next().unwrap();
                    match Node::restore_node(&node_id, entry, &e.seed, services_for(&e.cfg, e.persister.clone())) {
                        Ok(n) => {
                            e.node_ctx = TestNodeContext { node: n, secp_ctx: Secp256k1::signing_only() };
                            co.tags.insert("restart".into());
                            "ok".to_string()
                        }
                        Err(st) => format!("restore-failed {}", st.message()),
                    }
                }
                [kind, cfg, ct, ..] => match env.as_ref() {
                    None => panic!("request before env (malformed shrunk case)"),
                    Some(e) if e.cfg.to_string() == *cfg && e.ct == *ct => {
                        let l = self.exec_op(e, &t, i, &mut co);
                        co.tags.insert(format!("{}:{}", kind, l.split(' ').next().unwrap_or("")));
                        if t.iter().any(|x| x.contains("R/")) {
                            // an output with a script of one of the other standard kinds (OP_RETURN, empty, p2pk, bare multisig …)
                            co.tags.insert(format!("{}:other-script:{}", kind, l.split(' ').next().unwrap_or("")));
                        }
                        if l == "ok" { acc = true } else { rej = true }
                        if l == "panic" {
                            // a panic inside with_channel poisons the slot mutex: rebuild the environment (with the
                            // allowlist as the book has it now)
                            env = make_env(&e.cfg.clone(), &e.ct.clone()).ok();
                        }
                        l
                    }
                    // the request's cfg (incl. the allowlist book) does not match the environment: a shrunk case that
                    // lost an `allow` op
                    _ => panic!("request cfg does not match the environment (malformed shrunk case)"),
                },
                _ => "bad-op".into(),
            };
            co.out.push(line);
        }
        co.nontrivial = acc && rej;
        co
    }
}

#[path = "c09_wire.rs"]
mod wire;

pub fn groups() -> Vec<Box<dyn Group>> {
    vec![Box::new(C09Sweep), Box::new(wire::C09Wire)]
}
