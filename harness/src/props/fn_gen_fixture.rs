// Translator fixtures (area `Fixture` of translate/fn_targets/Fixture.json): one small function per construct of the
// rs2lean subset that no function of /repo exercises (yet).  This file is BOTH compiled into the harness (module
// `fixture` of fn_gen.rs: the real Rust semantics, by rustc) AND translated by translate/rs2lean.py into
// lean/VlsModel/Gen/FnFixture.lean on every run; fn_gen.rs compares the two on boundary inputs.  So every construct
// of notes/rs2lean.md §1 has a differential test that does not depend on what /repo happens to contain.
// Keep every function inside the subset: a function that stops translating makes every `bin/check` fail.
#![allow(dead_code, unused_variables, unused_mut, clippy::all)]

use std::cmp::{max, min};
use std::collections::{BTreeMap, BTreeSet, HashMap, VecDeque};
use std::sync::atomic::Ordering;

#[derive(Clone, Debug, PartialEq)]
pub enum Change {
    Add(u32),
    Move(u32, u64),
    Close { height: u32, swept: bool },
    Reset,
}

#[derive(Clone, Debug, PartialEq)]
pub struct Acc {
    pub height: u32,
    pub total: u64,
    pub log: Vec<u32>,
    pub closed: Option<u32>,
}

impl Acc {
    /// data-carrying enum (tuple and struct-like variants), `&mut Vec` parameter next to `&mut self`
    pub fn apply(&mut self, adds: &mut Vec<u32>, c: Change) {
        match c {
            Change::Add(v) => {
                self.total += v as u64;
                adds.push(v);
            }
            Change::Move(v, amt) => {
                self.total = self.total.saturating_sub(amt);
                self.log.push(v);
            }
            Change::Close { height, swept } => {
                if swept {
                    self.closed = Some(height);
                }
                self.height = height;
            }
            Change::Reset => {
                self.total = 0;
                self.log.clear();
            }
        }
    }

    /// call of a function with `&mut` parameters; `for` over a vector of enum values
    pub fn apply_all(&mut self, cs: Vec<Change>) -> Vec<u32> {
        let mut adds: Vec<u32> = Vec::new();
        for c in cs.into_iter() {
            self.apply(&mut adds, c);
        }
        adds
    }

    /// constructing enum values
    pub fn summary(&self) -> Change {
        if self.total == 0 {
            Change::Reset
        } else if let Some(h) = self.closed {
            Change::Close { height: h, swept: self.log.is_empty() }
        } else {
            Change::Move(self.height, self.total)
        }
    }
}

/// struct pattern in `let`, or-pattern, match guards (a failed guard falls through to the later arms)
pub fn classify(a: &Acc, x: u32) -> u32 {
    let Acc { height, total, .. } = a;
    match x {
        0 | 1 => 0,
        n if n < *height => 1,
        n if (n as u64) < *total => 2,
        _ => 3,
    }
}

/// guards on refutable patterns
pub fn guard_opt(o: Option<u32>, lim: u32) -> u32 {
    match o {
        Some(v) if v > lim => v - lim,
        Some(0) => 1000,
        Some(v) => v,
        None => lim,
    }
}

/// `let … else`, `return` / `continue` / `break` / `?` inside `for`
pub fn first_big(v: &[u64], lim: u64) -> Result<u64, ()> {
    let Some(first) = v.first() else {
        return Err(());
    };
    let mut sum: u64 = 0;
    for x in v.iter() {
        if *x > lim {
            return Ok(*x);
        }
        if *x == 7 {
            continue;
        }
        if *x == 9 {
            break;
        }
        sum = sum.checked_add(*x).ok_or(())?;
    }
    Ok(sum + *first)
}

/// `return` out of a nested loop, `enumerate`
pub fn find_pair(a: &[u32], b: &[u32], target: u32) -> Option<(usize, usize)> {
    for (i, x) in a.iter().enumerate() {
        for (j, y) in b.iter().enumerate() {
            if x.wrapping_add(*y) == target {
                return Some((i, j));
            }
        }
    }
    None
}

/// byte-vector building: `push`, `extend_from_slice`, `to_be_bytes`, narrowing casts
pub fn encode_bigsize(x: u64) -> Vec<u8> {
    let mut out: Vec<u8> = Vec::new();
    if x < 0xfd {
        out.push(x as u8);
    } else if x <= 0xffff {
        out.push(0xfd);
        out.extend_from_slice(&(x as u16).to_be_bytes());
    } else if x <= 0xffff_ffff {
        out.push(0xfe);
        out.extend_from_slice(&(x as u32).to_be_bytes());
    } else {
        out.push(0xff);
        out.extend_from_slice(&x.to_be_bytes());
    }
    out
}

/// counted `while`, shifts and `|` on unsigned integers, indexing with a computed index
pub fn decode_bigsize(b: &[u8]) -> Result<(u64, usize), ()> {
    if b.is_empty() {
        return Err(());
    }
    let tag = b[0];
    if tag < 0xfd {
        return Ok((tag as u64, 1));
    }
    let n: usize = if tag == 0xfd {
        2
    } else if tag == 0xfe {
        4
    } else {
        8
    };
    if b.len() < 1 + n {
        return Err(());
    }
    let mut v: u64 = 0;
    let mut i: usize = 0;
    while i < n {
        v = (v << 8) | (b[1 + i] as u64);
        i += 1;
    }
    Ok((v, 1 + n))
}

/// slices `v[a..b]`, `v[a..]`, `v[..b]`, `from_be_bytes` / `from_le_bytes` of a slice converted to an array
pub fn slices(b: &[u8], a: usize, e: usize) -> (u32, u32, usize, usize, Vec<u8>) {
    let x = u32::from_be_bytes(b[0..4].try_into().unwrap());
    let y = u32::from_le_bytes(b[..4].try_into().unwrap());
    let tail = &b[a..];
    let head = &b[..e];
    let mid = b[a..e].to_vec();
    (x, y, tail.len(), head.len(), mid)
}

/// `& | ^ !` and shifts (shift amounts at and beyond the width)
pub fn bits(a: u32, b: u32, s: u32) -> (u32, u32, u32, u32, u32, u32) {
    (a & b, a | b, a ^ b, !a, a >> s, a << s)
}

/// bytes of the other widths and both byte orders
pub fn bytes16(x: u16, y: u64) -> (Vec<u8>, Vec<u8>, u8) {
    let mut m: u8 = 0x0f;
    m |= (x >> 12) as u8;
    m ^= 0x81;
    m &= 0xf7;
    (x.to_le_bytes().to_vec(), y.to_le_bytes().to_vec(), m)
}

/// `VecDeque`: push_back / pop_front / front / back / len on a `&mut` parameter
pub fn window(q: &mut VecDeque<u32>, x: u32, cap: usize) -> (Option<u32>, Option<u32>, Option<u32>, usize) {
    q.push_back(x);
    let mut dropped: Option<u32> = None;
    if q.len() > cap {
        dropped = q.pop_front();
    }
    (dropped, q.front().copied(), q.back().copied(), q.len())
}

/// `VecDeque`: push_front / pop_back
pub fn window_rev(q: &mut VecDeque<u32>, x: u32) -> Option<u32> {
    q.push_front(x);
    q.pop_back()
}

/// `BTreeMap<u32, _>` and `BTreeSet<u32>`: insert / remove / get / contains, with the returned old values
pub fn tally(m: &mut BTreeMap<u32, u64>, seen: &mut BTreeSet<u32>, k: u32, v: u64) -> (bool, Option<u64>, usize, bool) {
    let fresh = seen.insert(k);
    let cur = m.get(&k).copied().unwrap_or(0);
    let old = m.insert(k, cur.saturating_add(v));
    if v == 0 {
        m.remove(&k);
        seen.remove(&k);
    }
    (fresh, old, m.len(), seen.contains(&k))
}

/// iteration over a `BTreeMap` with integer keys happens in key order
pub fn sum_map(m: &BTreeMap<u32, u64>) -> (u64, Vec<u32>) {
    let mut s = 0u64;
    let mut ks: Vec<u32> = Vec::new();
    for (k, v) in m.iter() {
        s = s.saturating_add(*v);
        ks.push(*k);
    }
    (s, ks)
}

/// `HashMap` with integer keys (no iteration)
pub fn bump(m: &mut HashMap<u64, u32>, k: u64) -> u32 {
    let c = m.get(&k).copied().unwrap_or(0) + 1;
    m.insert(k, c);
    c
}

/// `while let Some(x) = v.pop()` (draining a vector from the back)
pub fn drain_sum(stack: &mut Vec<u32>) -> u64 {
    let mut s: u64 = 0;
    while let Some(x) = stack.pop() {
        if x == 0 {
            continue;
        }
        s += x as u64;
    }
    s
}

pub struct Outs {
    pub ours: Option<(u32, bool)>,
    pub spent: Vec<bool>,
}

impl Outs {
    /// `vec![x; n]`, closure in `Option::map`
    pub fn new(ours: Option<u32>, n: usize) -> Self {
        Outs { ours: ours.map(|v| (v, false)), spent: vec![false; n] }
    }
    /// `X.as_mut().unwrap()` as a write-through alias; assignment to a tuple component
    pub fn set_ours(&mut self, vout: u32, s: bool) {
        let p = self.ours.as_mut().unwrap();
        assert_eq!(p.0, vout);
        p.1 = s;
    }
    pub fn set_spent(&mut self, i: usize, s: bool) {
        self.spent[i] = s;
    }
    pub fn all_spent(&self) -> bool {
        self.ours.as_ref().map(|p| p.1).unwrap_or(true) && self.spent.iter().all(|b| *b)
    }
}

pub struct Holder {
    pub outs: Option<Outs>,
    pub h: u32,
}

impl Holder {
    /// `&mut self` method of another struct called through an alias of an `Option` field
    pub fn mark(&mut self, i: usize, adds: &mut Vec<usize>) {
        let o = self.outs.as_mut().unwrap();
        o.set_spent(i, true);
        adds.push(i);
        self.h += 1;
    }
}

pub struct Pay {
    pub hash: u32,
    pub value: u64,
}

/// entry API (`and_modify` with a checked `+=`, `or_insert`), a collection typed by being the function's result
pub fn summarize(hs: &[Pay]) -> BTreeMap<u32, u64> {
    let mut s = BTreeMap::new();
    for h in hs {
        s.entry(h.hash).and_modify(|e| *e += h.value).or_insert(h.value);
    }
    s
}

/// iteration over a `HashMap` is admitted only as one entry-update at the loop key per iteration (the updates commute);
/// `retain` on a map; `and_modify` alone
pub fn merge_max(a: &mut HashMap<u64, u64>, b: HashMap<u64, u64>, c: HashMap<u64, u64>, probe: u64) -> (usize, Option<u64>) {
    for (k, v) in b {
        a.entry(k).and_modify(|e| *e = max(*e, v)).or_insert(v);
    }
    for (k, v) in c {
        a.entry(k).and_modify(|e| *e = min(*e, v));
    }
    a.retain(|_, v| *v != 7);
    (a.len(), a.get(&probe).copied())
}

/// newtype (tuple struct with one component, listed under `tuple_structs`), `copy_from_slice` into a range and into
/// the tail, array length by literal arithmetic, by-value `self`
pub struct ChanId(pub Vec<u8>);

impl ChanId {
    pub fn from_parts(peer: &[u8], oid: u64) -> Self {
        let mut nonce = [0u8; 4 + 8];
        nonce[0..4].copy_from_slice(peer);
        nonce[4..].copy_from_slice(&oid.to_le_bytes());
        Self(nonce.to_vec())
    }
    pub fn oid(&self) -> u64 {
        let n = self.0.len();
        u64::from_le_bytes(self.0[n - 8..].try_into().unwrap())
    }
    pub fn into_len(self) -> usize {
        self.0.len() << 2 * 1
    }
}

/// `lock()` inside an expression and through a helper that returns the guard (read-only use)
pub struct Guarded {
    pub st: std::sync::Mutex<Acc>,
}

impl Guarded {
    fn get(&self) -> std::sync::MutexGuard<'_, Acc> {
        self.st.lock().expect("lock")
    }
    pub fn height_plus(&self, d: u32) -> u32 {
        let s = self.get();
        s.height + d
    }
    pub fn total(&self) -> u64 {
        self.st.lock().unwrap().total
    }
}

/// default method of a trait: the required methods are explicit parameters of the generated definition
pub trait Pricing {
    fn base(&self) -> u64;
    fn rate(&self, n: u32) -> Result<u64, ()>;
    fn price(&self, n: u32) -> Result<u64, ()> {
        let r = self.rate(n)?;
        Ok(self.base() + r * (n as u64))
    }
}

// ---- (b1012, round 9) `for x in v.iter_mut() { *x = e; }`, `.unwrap()` on the `Result` of a translated call (`Err` = panic),
// `x.into()` through the one `impl From<_> for T` of the file
pub struct Wide {
    pub a: u64,
    pub v: Vec<u64>,
}
pub struct Narrow {
    pub a: u64,
    pub n: u64,
}
impl From<Wide> for Narrow {
    fn from(w: Wide) -> Self {
        Narrow { a: w.a, n: w.v.len() as u64 }
    }
}
pub fn checked_double(x: u64) -> Result<u64, ()> {
    if x > 100 {
        return Err(());
    }
    Ok(x * 2)
}
pub fn scale_all(v: &mut Vec<u64>, k: u64) -> Result<u64, ()> {
    for x in v.iter_mut() {
        *x = *x / 2 + 1;
    }
    let d = checked_double(k).unwrap();
    if d == 14 {
        return Err(());
    }
    let w = Wide { a: d, v: v.clone() };
    let n: Narrow = w.into();
    Ok(n.a + n.n)
}

// ---- round 9 (b1819): atomic counters, byte-string literals, `&str` locals bound to a literal, `let x = slice.try_into().unwrap()`
pub struct Ctr {
    pub n: std::sync::atomic::AtomicU32,
    pub k: std::sync::atomic::AtomicUsize,
}

impl Ctr {
    /// `fetch_add` wraps and returns the previous value; a `&self` method that advances a counter returns the new self
    pub fn next(&self, d: u32) -> u32 {
        let old = self.n.fetch_add(d, Ordering::AcqRel);
        self.k.fetch_add(1, Ordering::AcqRel);
        old
    }

    /// `load` / `store` / `swap` / `fetch_sub`
    pub fn shuffle(&self, v: usize) -> (usize, u32) {
        let a = self.k.swap(v, Ordering::SeqCst);
        self.n.store(7, Ordering::SeqCst);
        let b = self.n.fetch_sub(9, Ordering::SeqCst);
        (a + 0 * self.k.load(Ordering::Relaxed), b)
    }
}

/// byte-string literal where bytes are expected, a `&str` local bound once to a literal and read by `as_bytes()`,
/// an array taken out of a slice by a `let` whose type comes from the result tuple
pub fn tagged(b: &[u8], a: usize) -> (Vec<u8>, [u8; 3]) {
    let info = "c-l";
    let mut out: Vec<u8> = Vec::new();
    out.extend_from_slice(info.as_bytes());
    out.extend_from_slice(b"-x");
    let mut ndx = 0;
    ndx += a;
    let cut = b[ndx..ndx + 3].try_into().unwrap();
    (out, cut)
}

// ---- round 9 (bfn): `Weak<T>` = `Option T`, `for x in v.iter_mut() { *x = e }`, a user method named like a collection
// mutator, a write through `lock().unwrap()`, a method named like a field, `impl Into<String>`, an associated constant of
// another structure, `return Err(e)?`, `Box::new`
pub struct Meter {
    pub cells: Vec<u64>,
    pub cap: u64,
}

impl Meter {
    pub const WIDE: u64 = 1000;
    pub fn clear(&mut self) {
        for c in self.cells.iter_mut() {
            *c = 0;
        }
    }
    pub fn add(&mut self, i: usize, x: u64) -> bool {
        if self.cells[i].saturating_add(x) > self.cap {
            false
        } else {
            self.cells[i] += x;
            true
        }
    }
}

pub struct Parent {
    pub base: u64,
}

pub struct Gauge {
    pub parent: std::sync::Weak<Parent>,
    pub meter: std::sync::Mutex<Meter>,
}

impl Gauge {
    fn parent(&self) -> std::sync::Arc<Parent> {
        self.parent.upgrade().unwrap()
    }
    pub fn base_plus(&self, d: u64) -> u64 {
        self.parent().base + d
    }
    pub fn feed(&self, i: usize, x: u64, manual: bool) -> bool {
        let mut m = self.meter.lock().unwrap();
        let ok = m.add(i, x);
        if ok {
            true
        } else {
            if manual {
                m.clear();
            }
            manual
        }
    }
    pub fn replace(&self, cells: Vec<u64>) -> u64 {
        *self.meter.lock().unwrap() = Meter { cells, cap: Meter::WIDE };
        Meter::WIDE
    }
}

pub fn tag_into(prefix: impl Into<String>, n: u64) -> String {
    format!("{}/{}", prefix.into(), n)
}

pub fn boxed_inc(x: u64) -> Result<Box<u64>, ()> {
    if x == 0 {
        return Err(())?;
    }
    Ok(Box::new(x + 1))
}
