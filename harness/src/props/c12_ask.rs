//! C12 — the approver-level velocity control with a delegate that answers: `VelocityApprover<SwitchApprover>`
//! (vls-protocol-signer/src/approver.rs) against the Lean model `VC.approve` (driver op `approve`).
//!
//! A request is approved automatically while the approver's own control accepts it; what the control refuses goes
//! to the delegate, whose answer the op line fixes (`d` = 0/1); a manual approval clears the control.
//! Monitor (independent of the model): the amounts approved AUTOMATICALLY since the last manual approval stay
//! within the limit in every window of the tracked interval minus one bucket.
use super::{digest, gen_times_amounts, itype, services, window_violation};
use crate::common::*;
use lightning_signer::bitcoin::{Transaction, TxOut};
use lightning_signer::invoice::Invoice;
use lightning_signer::lightning::types::payment::PaymentHash;
use lightning_signer::node::{Node, NodeConfig};
use lightning_signer::persist::Persist;
use lightning_signer::signer::derive::KeyDerivationStyle;
use lightning_signer::util::clock::ManualClock;
use lightning_signer::util::test_utils::key::make_test_pubkey;
use lightning_signer::util::velocity::{VelocityControl, VelocityControlIntervalType, VelocityControlSpec};
use lightning_signer::SendSync;
use std::sync::atomic::{AtomicBool, Ordering};
use std::sync::Arc;
use std::time::Duration;
use vls_persist::kvv::memory::MemoryKVVStore;
use vls_persist::kvv::{JsonFormat, KVVPersister};
use vls_protocol_signer::approver::{Approve, VelocityApprover};

/// a delegate whose answer the harness sets before each request and that records whether it was asked
struct SwitchApprover {
    answer: Arc<AtomicBool>,
    asked: Arc<AtomicBool>,
}
impl SendSync for SwitchApprover {}
impl Approve for SwitchApprover {
    fn approve_invoice(&self, _invoice: &Invoice) -> bool { self.asked.store(true, Ordering::Relaxed); self.answer.load(Ordering::Relaxed) }
    fn approve_keysend(&self, _h: PaymentHash, _a: u64) -> bool { self.asked.store(true, Ordering::Relaxed); self.answer.load(Ordering::Relaxed) }
    fn approve_onchain(&self, _tx: &Transaction, _p: &[TxOut], _u: &[usize]) -> bool { self.asked.store(true, Ordering::Relaxed); self.answer.load(Ordering::Relaxed) }
}

pub struct C12ApproverAsk;

impl Group for C12ApproverAsk {
    fn property(&self) -> &'static str { "C12" }
    fn model(&self) -> Option<&'static str> { Some("velocity") }
    fn rule(&self) -> &'static str {
        "approver with a delegate: VelocityApprover over a switchable delegate in front of a real Node with an unlimited policy \
         velocity; keysend proposals through handle_proposed_keysend at non-decreasing times, the delegate's answer fixed per \
         request; control, approval and who decided are compared with the model (VC.approve) after every proposal; monitor: the \
         automatically approved amounts since the last manual approval against the sliding-window oracle; non-trivial = one \
         automatic approval, one manual approval and one refusal"
    }
    fn budget(&self, tier: Tier) -> usize { if tier == Tier::Quick { 200 } else { 3000 } }
    fn corpus(&self) -> Vec<Vec<String>> {
        vec!["vq_new 1000 h|vq_keysend 1600000000 900 0|vq_keysend 1600000001 200 0|vq_keysend 1600000002 200 1|vq_keysend 1600000003 1000 0|vq_keysend 1600000004 1 0|vq_keysend 1600003304 1000 1"
            .split('|').map(|s| s.to_string()).collect()]
    }
    fn model_line(&self, op: &str) -> Option<String> {
        let t: Vec<&str> = op.split_whitespace().collect();
        Some(match t.as_slice() {
            ["vq_new", l, ty] => format!("spec {} {}", l, ty),
            ["vq_keysend", now, amt, d] => format!("approve {} {} {}", now, amt, d),
            _ => op.to_string(),
        })
    }
    fn gen_case(&self, rng: &mut Rng, tier: Tier) -> Vec<String> {
        let limit = *rng.pick(&[1000u64, 5000, 1_000_000, 1]);
        let ty = *rng.pick(&["h", "d"]);
        let (bi, n) = if ty == "d" { (3600u64, 24u64) } else { (300, 12) };
        let mut ops = vec![format!("vq_new {} {}", limit, ty)];
        let len = rng.range(3, if tier == Tier::Quick { 10 } else { 25 }) as usize;
        let mut ta = gen_times_amounts(rng, bi, n, limit, len, tier);
        for x in ta.iter_mut() { x.0 = x.0.saturating_add(1_600_000_000).min(4_000_000_000); }
        ta.sort();
        for (t, a) in ta {
            ops.push(format!("vq_keysend {} {} {}", t, a, if rng.chance(1, 3) { 1 } else { 0 }));
        }
        ops
    }
    fn exec_case(&self, ops: &[String]) -> CaseOut {
        let mut co = CaseOut::default();
        let persister: Arc<dyn Persist> = Arc::new(KVVPersister(MemoryKVVStore::new([7u8; 16]), JsonFormat));
        let clock = Arc::new(ManualClock::new(Duration::from_secs(1_600_000_000)));
        let config = NodeConfig { network: lightning_signer::bitcoin::Network::Testnet, key_derivation_style: KeyDerivationStyle::Native, use_checkpoints: true, allow_deep_reorgs: true };
        let (answer, asked) = (Arc::new(AtomicBool::new(false)), Arc::new(AtomicBool::new(false)));
        let mut st: Option<(Arc<Node>, VelocityApprover<SwitchApprover>, u64, u64)> = None;
        let mut log: Vec<(u64, u64)> = Vec::new();
        let mut hash_ctr: u32 = 0;
        let (mut s_auto, mut s_manual, mut s_refused) = (false, false, false);
        for (i, op) in ops.iter().enumerate() {
            let t: Vec<&str> = op.split_whitespace().collect();
            let line = match t.as_slice() {
                ["vq_new", l, ty] => {
                    let limit: u64 = l.parse().unwrap();
                    let n = Arc::new(Node::new(config, &[9u8; 32], vec![], services(persister.clone(), clock.clone(), 0, VelocityControlIntervalType::Unlimited)));
                    let control = VelocityControl::new(VelocityControlSpec { limit_msat: limit, interval_type: itype(ty).unwrap() });
                    let d = digest(&control);
                    let a = VelocityApprover::new(clock.clone(), control, SwitchApprover { answer: answer.clone(), asked: asked.clone() });
                    st = Some((n, a, limit, if *ty == "d" { 23 * 3600 } else { 11 * 300 }));
                    log.clear();
                    format!("ok {}", d)
                }
                ["vq_keysend", now, amt, d] => {
                    let (n, a, limit, wlen) = st.as_ref().expect("vq_new first");
                    let now: u64 = now.parse().unwrap();
                    let amt: u64 = amt.parse().unwrap();
                    clock.set(Duration::from_secs(now));
                    answer.store(*d == "1", Ordering::Relaxed);
                    asked.store(false, Ordering::Relaxed);
                    hash_ctr += 1;
                    let mut h = [0u8; 32];
                    h[..4].copy_from_slice(&hash_ctr.to_be_bytes());
                    let r = std::panic::catch_unwind(std::panic::AssertUnwindSafe(|| a.handle_proposed_keysend(n, make_test_pubkey(1), PaymentHash(h), amt)));
                    match r {
                        Err(_) => { co.tags.insert("vq:panic".into()); "panic".to_string() }
                        Ok(Err(e)) => { co.tags.insert("vq:err".into()); format!("err {:?}", e.code()) }
                        Ok(Ok(ok)) => {
                            let was_asked = asked.load(Ordering::Relaxed);
                            if ok && !was_asked {
                                s_auto = true;
                                co.tags.insert("vq:auto".into());
                                log.push((now, amt));
                                if let Some((t0, sum)) = window_violation(&log, *wlen, *limit) {
                                    co.violations.push(Violation {
                                        kind: "approver-auto-window-exceeds-limit".into(),
                                        desc: format!("the velocity approver approved by itself {} msat within window [{}, {}] with limit {} since the last manual approval", sum, t0, t0 + wlen, limit),
                                        at: i,
                                    });
                                }
                            } else if ok {
                                s_manual = true;
                                co.tags.insert("vq:manual".into());
                                log.clear();
                            } else {
                                s_refused = true;
                                co.tags.insert("vq:refused".into());
                            }
                            format!("{} {} {}", ok, if was_asked { "asked" } else { "auto" }, digest(&a.control()))
                        }
                    }
                }
                _ => "bad-op".to_string(),
            };
            co.out.push(line);
        }
        co.nontrivial = s_auto && s_manual && s_refused;
        co
    }
}
