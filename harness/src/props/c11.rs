//! C11 — every acknowledged state change is already durable.
//!
//! After every request of the node-level simulator (ok or refused) a second `Node` is restored from a
//! copy of the committed store alone and compared field by field with the running node on exactly
//! the fields the property lists (per channel: enforcement state incl. counters, commitment contents,
//! counterparty points and secrets, closed flag; chain tip/headers/monitors; allowlist; approved
//! invoices; channel-id high-water mark).  Explicit `restart` ops additionally continue the history
//! on the restored node.
use super::c10::{node_digest, node_digest_for, node_model_line};
use super::sim::*;
use crate::common::*;

#[path = "c11_backup.rs"]
mod backup;

pub struct C11Sim;

impl Group for C11Sim {
    fn property(&self) -> &'static str { "C11" }
    fn model(&self) -> Option<&'static str> { Some("nodereq") }
    fn rule(&self) -> &'static str {
        "same request alphabet as C10 with more restarts; after EVERY request a shadow node is restored from a copy of the committed \
         store and its durable view compared with the running node; non-trivial = at least three accepted state-changing requests \
         of at least two different kinds"
    }
    fn budget(&self, tier: Tier) -> usize { if tier == Tier::Quick { 450 } else { 4000 } }
    fn model_line(&self, op: &str) -> Option<String> { node_model_line(op) }
    fn corpus(&self) -> Vec<Vec<String>> {
        let c = |s: &str| s.split('|').map(|x| x.to_string()).collect::<Vec<_>>();
        vec![
            // F12: forget flag must be durable
            c("forget 0|restart|hb"),
            c("vh 0 g 0|rv 0|scp 0 0|cpr 0 g|scp 0 1|restart|vh 0 g 1|rv 0|sh 0|restart|rv 0"),
            c("al add g|ks 1000|newch 4|forget 1|blk+ g|blk+ g|blk- g|restart|newch 4|al set gg"),
            // a channel whose permanent id differs from its initial id (LDK-style flow)
            c("world perm|vh 0 g 0|rv 0|scp 0 0|restart|scp 0 1|cpr 0 g|restart|sh 0"),
            // multi-entry allowlist removals
            c("al add gg|al rm gx|restart|al add x|al rm ggd|restart|al rm g2g"),
            // every channel entry point that changes state: phase-1 variants, recovery / legacy signing, activation
            c("vh1 0 g 0|restart|rv 0|scp1 0 0|restart|scp1 0 1|cpr 0 g|shr|restart|vh 0 g 1"),
            c("vh 0 g 0|rv 0|shx 0 g|restart|vh1 0 g 1"),
            c("world fresh|act|vh1 0 g 0|restart|act|restart|vh 0 g 1|rv 0"),
            c("world fresh|vh 0 g 0|act|restart|scp 0 0"),
            // a signer whose tracker is still below the compiled-in checkpoint
            c("world nocp|restart|blk+ g|blk+ g|restart|vh 0 g 0|rv 0|blk- g|restart|hb"),
            // composite persister: both sides restore the same signer; the main store is lost and recovered
            c("world backup|al add g|vh 0 g 0|rv 0|restart|scp 0 0|forget 0|blk+ g|restart|ks 1000"),
            c("world backup|al add gx|ks 1000|vh 0 g 1|mainloss|rv 0|al rm g|restart|scp 0 0|mainloss|blk+ g"),
            // acknowledged only if written: requests during which the store refuses writes
            c("vh 0 g 0|failw s rv 0"),
            c("scp 0 0|failw s scp 0 0"),
            c("world backup|vh 0 g 0|rv 0|failw m scp 0 0"),
            c("world backup|scp 0 0|scp 0 0|failw m cpr 0 g"),
            c("world backup|vh 0 g 0|failw m sh 0"),
            // the real protocol handler (world h)
            c("world h|HVH 0 g 0|restart|HVH 0 g 1|restart|HRV 0|HVHO 0 g 2|restart|HVH -1 g 2"),
            c("world h|HVH 0 g 0|HSCP 0 0|restart|HSCP 0 1|HCPR 0 g|restart|HSCP 0 2|HSH 0|restart|HVH 0 g 1"),
            // handler composites
            c("hvh 0 g 0|restart|rv 0|hvho 0 g 1|restart|hvh1o 0 g 2|ks 1000|restart|hvh1 0 g 0"),
            // a stub pruned by the heartbeat after more than six blocks, then created again under the same id
            c("newch 2|blkn 6|hb|newch 3|blk+ g|hb|restart|newch 2|restart|blkn 7|hb|newch 3|restart|forget 1"),
            // the on-disk store: what a crash image of the database file holds after each request
            c("world redb|al add g|blk+ g|vh 0 g 0|rv 0|forget 0|blk+ g|blkn 3|newch 2|ks 1000|restart|scp 0 0|blk- g"),
            // blocks through the protocol handler's AddBlock arm, with and without a ready channel
            c("HBLK+ g|restart|HBLK+ b|HBLK+ g|blk- g|restart|HBLK+ g"),
            // channel creation / forgetting / heartbeat through the protocol handler
            c("HNEW 2|restart|HFORGET 1|restart|HNEW 3|blkn 7|HHB|restart|HNEW 2"),
            // a full channel map
            c("newch 1|newch 2|newch 3|newch 4|restart|newch 4|forget 2|newch 4|restart|newch 5"),
            // closing through either entry point must be durable
            c("vh 0 g 0|rv 0|scp 0 0|scp 0 0|cpr 0 g|mc1 b|mc1 g|restart|vh 0 g 3"),
            c("vh 0 g 0|rv 0|scp 0 0|scp 0 0|cpr 0 g|mc g|restart|vh 0 g 3"),
        ]
    }
    fn gen_case(&self, rng: &mut Rng, tier: Tier) -> Vec<String> {
        let len = rng.range(5, if tier == Tier::Quick { 12 } else { 30 }) as usize;
        let mut ops = gen_ops(rng, len);
        // `osign g` rewrites the node entry, which the node-request model does not follow; issued invoices (`sinv`) are
        // the one thing that entry makes durable late: keep the two apart in model-compared cases
        if ops.iter().any(|o| o.starts_with("sinv")) {
            for o in ops.iter_mut() { if o.starts_with("osign") { *o = "hb".to_string(); } }
        }
        for i in 0..ops.len() {
            if rng.chance(1, 6) { ops[i] = "restart".to_string(); }
        }
        if rng.chance(1, 3) { ops.insert(0, "world perm".to_string()); }
        else if rng.chance(1, 6) { ops.insert(0, "world nocp".to_string()); }
        else if rng.chance(1, 10) {
            // one channel-level policy tag demoted to a warning: whatever is still refused must change nothing
            ops.insert(0, format!("world filter {}", rng.pick(super::sim::FILTER_TAGS)));
        }
        else if rng.chance(1, 8) {
            // the on-disk redb store as the main side: a crash image after every request
            ops.insert(0, "world redb".to_string());
        }
        else if rng.chance(1, 5) {
            // composite persister (main + backup): sometimes the main store is lost and recovered
            ops.insert(0, "world backup".to_string());
            for i in 1..ops.len() {
                if rng.chance(1, 8) { ops[i] = "mainloss".to_string(); }
            }
        }
        else if rng.chance(1, 5) {
            // a channel whose initial commitment is not yet validated: validate (either entry point), activate
            let mut pre = vec!["world fresh".to_string()];
            if rng.chance(4, 5) { pre.push(format!("vh{} 0 g 0", if rng.chance(1, 2) { "1" } else { "" })); }
            if rng.chance(1, 3) { pre.push("restart".to_string()); }
            if rng.chance(4, 5) { pre.push("act".to_string()); }
            for (i, o) in pre.into_iter().enumerate() { ops.insert(i, o); }
        }
        // blocks and the node-level requests arrive through the protocol handler's arms in a third of the cases
        for i in 0..ops.len() {
            if rng.chance(1, 3) {
                if ops[i].starts_with("blk+ ") { ops[i] = ops[i].replacen("blk+", "HBLK+", 1); }
                else if let Some(r) = ops[i].strip_prefix("newch ") { ops[i] = format!("HNEW {}", r); }
                else if let Some(r) = ops[i].strip_prefix("forget ") { ops[i] = format!("HFORGET {}", r); }
                else if ops[i] == "hb" { ops[i] = "HHB".to_string(); }
            }
        }
        // sometimes the last request runs while the store refuses writes (in `world backup`: either side)
        if rng.chance(1, 4) {
            let inner = rng.pick(&["vh 0 g 0", "rv 0", "scp 0 0", "scp1 0 0", "cpr 0 g", "sh 0", "shr", "shx 0 g", "mc g", "mc1 g", "act", "al add g", "newch 5", "forget 0", "forget 1"]).to_string();
            let side = if ops.first().map(|o| o == "world backup" || o == "world redb").unwrap_or(false) && rng.chance(1, 2) { "m" } else { "s" };
            // bring the channel into a state where the request is likely to be accepted
            if inner == "rv 0" { ops.push("vh 0 g 0".into()); }
            if inner == "cpr 0 g" { ops.push("scp 0 0".into()); ops.push("scp 0 0".into()); }
            ops.push(format!("failw {} {}", side, inner));
        }
        ops
    }
    fn exec_case(&self, ops: &[String]) -> CaseOut {
        exec_c11(ops)
    }
}

/// run one case with the durability monitors (shared by the model-compared group and the monitor-only one)
fn exec_c11(ops: &[String]) -> CaseOut {
    {
        let mut co = CaseOut::default();
        let mut sim = Sim::new_world(ops.first().map(|o| o.as_str()).unwrap_or(""));
        let mut kinds_changed = std::collections::BTreeSet::new();
        let mut n_changed = 0;
        for (i, op) in ops.iter().enumerate() {
            if op.starts_with("world ") { co.out.push("ok".into()); continue; }
            let before_view = view(&sim.node(), true);
            let (out, _pending) = exec_op(&mut sim, op);
            let kind = op.split(' ').next().unwrap_or("");
            co.tags.insert(format!("{}:{}", kind, out.class().split(':').next().unwrap()));
            if kind == "failw" {
                // a request during which the store refused every write: if it is nevertheless acknowledged
                // (Ok), everything below applies — the state it acknowledged must be durable; if it is
                // refused or the signer aborts, the signer stops here (storage failures are outside C10)
                co.tags.insert(format!("failw-inner:{}:{}", op.split(' ').nth(2).unwrap_or(""), out.class().split(':').next().unwrap()));
                if out != Outcome::Ok {
                    assert!(i + 1 == ops.len(), "failw must be the last op of a case");
                    co.out.push(out.class());
                    break;
                }
            }
            let mem = view(&sim.node(), true);
            if out == Outcome::Ok && mem != before_view { kinds_changed.insert(kind.to_string()); n_changed += 1; }
            if !matches!(out, Outcome::Panic(_)) {
                if op != "restart" && op != "mainloss" && kind != "failw" {
                    // crash point between prepare() and commit()
                    match sim.restore_shadow_crash() {
                        Err(e) => co.violations.push(Violation { kind: "restore-failed:prepare-commit".into(), desc: format!("after {}: {}", op, e), at: i }),
                        Ok(shadow) => {
                            let d = diff_views(&mem, &view(&shadow, true));
                            if !d.is_empty() {
                                co.violations.push(Violation { kind: format!("not-durable-at-prepare:{}", kind), desc: format!("after {} ({}) a signer restarted from the local store plus the mutations reported by prepare() differs in {:?}", op, out.class(), d), at: i });
                            }
                        }
                    }
                }
                match sim.restore_shadow() {
                    Err(e) => co.violations.push(Violation { kind: "restore-failed".into(), desc: format!("after {}: {}", op, e), at: i }),
                    Ok(shadow) => {
                        let dur = view(&shadow, true);
                        let d = diff_views(&mem, &dur);
                        if !d.is_empty() {
                            let which = d[0].split('.').take(2).collect::<Vec<_>>().join(".");
                            let which = if which.starts_with("chan.") { if d[0].ends_with(".monitor") { "chan.monitor".to_string() } else { "chan.enforcement".to_string() } } else { which };
                            co.violations.push(Violation { kind: format!("not-durable:{}:{}", kind, which), desc: format!("after {} ({}) a signer restarted from the store differs in {:?}", op, out.class(), d), at: i });
                        }
                    }
                }
            }
            // `world backup`: the main store alone must restore the same signer as well
            if !matches!(out, Outcome::Panic(_)) {
                if let Some(r) = sim.restore_shadow_main() {
                    match r {
                        Err(e) => co.violations.push(Violation { kind: "restore-failed:main-store".into(), desc: format!("after {}: {}", op, e), at: i }),
                        Ok(shadow) => {
                            let d = diff_views(&mem, &view(&shadow, true));
                            if !d.is_empty() {
                                let what = if d.iter().all(|x| x.starts_with("chan.")) && d.iter().any(|x| x.ends_with(" missing") || x.ends_with(" extra")) { "channel-set" } else { "content" };
                                co.violations.push(Violation { kind: format!("not-durable-in-main-store:{}:{}", kind, what), desc: format!("after {} ({}) a signer restarted from the main store of the BackupPersister differs in {:?}", op, out.class(), d), at: i });
                            }
                        }
                    }
                }
            }
            let line = if node_model_line(op).is_some() {
                format!("{} {}", out.class().split(':').next().unwrap(), node_digest_for(&sim, op))
            } else {
                out.class()
            };
            co.out.push(line);
        }
        co.nontrivial = n_changed >= 3 && kinds_changed.len() >= 2;
        co
    }
}

/// A node WITHOUT a ready channel (`world stub`: the channel is never set up, the tracker has no listener):
/// monitor-only, because the node-request model assumes the one ready channel of the other worlds.
pub struct C11Stub;

impl Group for C11Stub {
    fn property(&self) -> &'static str { "C11" }
    fn model(&self) -> Option<&'static str> { None }
    fn rule(&self) -> &'static str {
        "a node whose only channel is a stub (no ready channel, no tracker listener): blocks through the protocol handler's \
         AddBlock arm and directly, allowlist, keysends, issued invoices, a moving clock (expiry and pruning at the heartbeat), \
         new/forget channel, heartbeat, restarts; after every request the \
         durable view of a second node restored from the store (and from the crash point between prepare and commit) is \
         compared with the running node; monitor-only (no model); non-trivial as for the main group"
    }
    fn budget(&self, tier: Tier) -> usize { if tier == Tier::Quick { 150 } else { 1000 } }
    fn corpus(&self) -> Vec<Vec<String>> {
        let c = |s: &str| s.split('|').map(|x| x.to_string()).collect::<Vec<_>>();
        vec![
            c("world stub|HBLK+ g|HBLK+ g|restart|HBLK+ g|newch 2|HBLK+ g|restart|blk- g"),
            c("world stub|blk+ g|al add g|HBLK+ g|ks 1000|restart|blkn 7|hb|restart|newch 3"),
            // keysends and issued invoices expire: the heartbeat prunes them and must write the pruned node state
            c("world stub|ks 1000|ks 2000|tick 61|hb|restart|ks 3000|sinv 0 100000|tick 30|hb|tick 31|hb|restart|tick 200000|hb|restart"),
        ]
    }
    fn gen_case(&self, rng: &mut Rng, _tier: Tier) -> Vec<String> {
        let mut ops = vec!["world stub".to_string()];
        for _ in 0..rng.range(4, 12) {
            ops.push(match rng.below(15) {
                12 => format!("tick {}", *rng.pick(&[30u64, 59, 60, 61, 3600, 90_000, 200_000])),
                13 => format!("sinv {} {}", rng.below(3), *rng.pick(&[100_000u64, 1_000, 0])),
                14 => "hb".to_string(),
                0..=3 => format!("HBLK+ {}", if rng.chance(4, 5) { "g" } else { "b" }),
                4 => "blk+ g".to_string(),
                5 => "blk- g".to_string(),
                6 => format!("al add {}", rng.pick(&["g", "gx", "m"])),
                7 => format!("ks {}", *rng.pick(&[1000u64, 5_000_000])),
                8 => format!("newch {}", rng.range(2, 5)),
                9 => format!("forget {}", rng.below(3)),
                10 => "hb".to_string(),
                _ => "restart".to_string(),
            });
        }
        ops
    }
    fn exec_case(&self, ops: &[String]) -> CaseOut {
        exec_c11(ops)
    }
}

/// The on-chain END OF LIFE of the ready channel: its funding transaction confirms (`blkt f`), a transaction spends the
/// funding outpoint (`blkt c`), MIN_DEPTH (100) blocks bury it (`blkn`), the node forgets the channel and a heartbeat
/// PRUNES it (channel entry deleted, tracker entry rewritten without the monitor) — for a channel keyed by its initial id
/// only and for one with a permanent id (`world perm`), through the plain and the composite persister, with restarts
/// in between and afterwards.  Monitor-only: the node-request model has no on-chain events.
pub struct C11Prune;

impl Group for C11Prune {
    fn property(&self) -> &'static str { "C11" }
    fn model(&self) -> Option<&'static str> { None }
    fn rule(&self) -> &'static str {
        "end-of-life histories of the ready channel (funding confirmed, funding outpoint spent, buried around MIN_DEPTH,          forget, heartbeat prune, restarts, re-creation) for both id styles and persisters; after every request the durable          view of a second node restored from the store (and from the crash point between prepare and commit) is compared          with the running node; monitor-only; non-trivial = the channel's funding is confirmed and spent and a heartbeat          runs afterwards"
    }
    fn budget(&self, tier: Tier) -> usize { if tier == Tier::Quick { 60 } else { 500 } }
    fn corpus(&self) -> Vec<Vec<String>> {
        let c = |s: &str| s.split('|').map(|x| x.to_string()).collect::<Vec<_>>();
        vec![
            c("blkt f|blkt c|blkn 100|forget 0|hb|restart|hb|newch 2"),
            c("world perm|vh 0 g 0|rv 0|blkt f|blkn 2|blkt c|blkn 99|forget 0|hb|blk+ g|hb|restart|newch 2|hb"),
            c("world perm|blkt f|blkt c|forget 0|blkn 100|restart|hb|restart"),
            c("world backup|blkt f|scp 0 0|blkt c|blkn 101|HFORGET 0|HHB|restart|mainloss|hb"),
        ]
    }
    fn gen_case(&self, rng: &mut Rng, _tier: Tier) -> Vec<String> {
        let mut ops: Vec<String> = vec![];
        match rng.below(5) { 0 | 1 => ops.push("world perm".into()), 2 => ops.push("world backup".into()), _ => {} }
        let traffic = |rng: &mut Rng, ops: &mut Vec<String>| {
            for _ in 0..rng.below(3) {
                ops.push(rng.pick(&["vh 0 g 0", "rv 0", "scp 0 0", "al add g", "ks 1000", "newch 2", "blk+ g", "restart", "hb"]).to_string());
            }
        };
        traffic(rng, &mut ops);
        ops.push("blkt f".into());
        if rng.chance(1, 2) { ops.push(format!("blkn {}", rng.range(1, 4))); }
        traffic(rng, &mut ops);
        ops.push("blkt c".into());
        // forget before, in the middle of, or after the burial; the burial just below, at and above MIN_DEPTH
        let depth = *rng.pick(&[97u64, 98, 99, 100, 100, 101, 104]);
        let forget = if rng.chance(1, 3) { "HFORGET 0" } else { "forget 0" };
        match rng.below(3) {
            0 => { ops.push(forget.into()); ops.push(format!("blkn {}", depth)); }
            1 => { ops.push(format!("blkn {}", depth / 2)); ops.push(forget.into()); ops.push(format!("blkn {}", depth - depth / 2)); }
            _ => { ops.push(format!("blkn {}", depth)); ops.push(forget.into()); }
        }
        if rng.chance(1, 4) { ops.push("restart".into()); }
        ops.push(if rng.chance(1, 3) { "HHB".into() } else { "hb".into() });
        for _ in 0..rng.range(1, 5) {
            ops.push(rng.pick(&["restart", "hb", "blk+ g", "blkn 2", "newch 2", "forget 0", "restart", "HHB", "al add g", "mainloss"]).to_string());
        }
        if ops.first().map(|o| o != "world backup").unwrap_or(true) { ops.retain(|o| o != "mainloss"); }
        ops
    }
    fn exec_case(&self, ops: &[String]) -> CaseOut {
        let mut co = exec_c11(ops);
        let pos = |p: &str| ops.iter().position(|o| o == p);
        let done = match (pos("blkt f"), pos("blkt c")) {
            (Some(f), Some(c)) => f < c && ops[c..].iter().any(|o| o == "hb" || o == "HHB"),
            _ => false,
        };
        co.nontrivial = done && !co.out.iter().any(|o| o.contains("no-funding-tx"));
        co
    }
}

pub fn groups() -> Vec<Box<dyn Group>> {
    vec![Box::new(C11Sim), Box::new(C11Stub), Box::new(C11Prune), Box::new(backup::C11Backup)]
}
