//! C17 — externally stored state is authenticated against tampering, swapping and replay.
//!
//! Group `C17Hmac` (model `hmac`): the real `compute_shared_hmac`, `ExternalPersistHelper::{client_hmac,
//! server_hmac, new_nonce + check_hmac}` of vls-core and the real lightning-storage-server
//! `append_hmac_to_value`/`prepare_value_for_put` and `remove_and_check_hmac`/`process_value_from_get`
//! (compiled from the repository's source through `translate/x_lss.py` → `c17_lss_gen.rs`) against the
//! Lean encoders + executable HMAC-SHA256, byte for byte (final tags and stored values).
//!
//! Each case takes a base record list (or a base stored value) and a structural mutation set: single-bit
//! flips in key/version/value/nonce/secret, key swap, version swap, truncation, record merge/split,
//! boundary shifts between adjacent fields and records, reordering, replay under another nonce.
//!
//! Monitor: inside a case, two *different* inputs — (nonce, record list) for the shared tag, (key, version,
//! value) for a stored value — that authenticate under the same secret and tag are a violation.  If the two
//! inputs have byte-identical unframed concatenations the kind is `c17-unframed-concatenation-collision`
//! (finding F10); any other coincidence (a tag that ignores the version, the nonce, a key, the order ...)
//! is `c17-tag-collision`.
//!
//! Acceptance monitors on every verifying entry point (`check_hmac`, `remove_and_check_hmac`,
//! `process_value_from_get`): each case also presents truncated tags (0, 1, 16, 31 bytes), extended tags
//! (33 bytes, tag‖garbage), all-zero and bit-flipped tags and the *correct* tags of another nonce, domain,
//! key, version, content or record list; an acceptance of anything but the exact full-length tag of exactly the
//! presented input (reference: library HMAC over the harness' own concatenation) is
//! `c17-forged-tag-accepted:<variant>`.  Stored values are presented in *every* truncation (empty value and
//! values shorter than a tag included) under the key they were written for and under a key nothing was written for.
//!
//! As received: every record list reaches the tag functions through the real `Mutations::from_vec`, converted the way
//! `vls-frontend/src/external_persist/lss.rs::get` converts a read reply before `check_hmac`; the list the tag is
//! computed/checked over must be the list as received, in wire order with duplicates (`c17-reply-altered-before-check`),
//! and the mutation set includes stale duplicates spliced in before/after the genuine record and re-orderings.
//! The LSS client driver's list verifier `remove_and_check_hmacs` (copied verbatim by `translate/x_lss.py`) is driven
//! with 2..4-entry lists of stored values where exactly one position is flipped / swapped with another entry / replaced
//! by an older version's blob / truncated / emptied (`c17-forged-tag-accepted:stored-list-entry`).
//!
//! Glue (`c17_glue.rs`): the real `vls_util::persist::ExternalPersistWithHelper::init_state` — the place where vlsd acts
//! on `check_hmac` for a read reply — with a mock `ExternalPersist` (honest server + man in the middle), vls-util built
//! without debug assertions; and the LSS client driver's `PrivClient::get` / `put` (copied verbatim behind a mock
//! transport): 32-byte fresh nonce per request (`c17-nonce-malformed`, `c17-nonce-reused`), recorded / tampered replies,
//! forged acknowledgements and conflict lists refused, nothing unauthenticated in the restored state
//! (`c17-forged-tag-accepted:restore-state`).
//!
//! Statefulness: one long-lived `ExternalPersistHelper` per case is driven through read 1 / reply / read 2 / ...
//! with an entropy source the harness controls (`hnew`, `hnonce E`, `hcheck T recs`); monitors: consecutive
//! requests with different entropy must get different nonces (`c17-nonce-reused`), and a reply recorded under an
//! earlier request's nonce must be refused later (`c17-replayed-reply-accepted`).
use crate::common::*;
use lightning_signer::lightning::sign::EntropySource;
use lightning_signer::persist::{compute_shared_hmac, ExternalPersistHelper, Mutations};
use std::collections::BTreeMap;

#[path = "c17_lss_gen.rs"]
mod lss;
#[path = "c17_glue.rs"]
mod glue;
use lss::util as lssu;
use lss::Value;

type Rec = (Vec<u8>, u64, Vec<u8>);

fn hexs(b: &[u8]) -> String {
    if b.is_empty() { "-".into() } else { hex::encode(b) }
}
fn unhex(s: &str) -> Vec<u8> {
    if s == "-" { vec![] } else { hex::decode(s).expect("hex") }
}

/// Entropy source controlled by the harness: the first draw of a request returns the given bytes; should the
/// code under test draw again inside the same call (e.g. a retry loop), later draws differ in the last bytes, so
/// that no loop over the source can spin forever.
struct FixedEntropy([u8; 32], std::cell::Cell<u32>);
impl FixedEntropy {
    fn new(e: [u8; 32]) -> Self {
        FixedEntropy(e, std::cell::Cell::new(0))
    }
}
impl EntropySource for FixedEntropy {
    fn get_secure_random_bytes(&self) -> [u8; 32] {
        let n = self.1.get();
        self.1.set(n + 1);
        let mut out = self.0;
        for (j, b) in n.to_be_bytes().iter().enumerate() {
            out[28 + j] ^= *b;
        }
        out
    }
}

fn parse_recs(t: &[&str]) -> Vec<Rec> {
    let mut v = Vec::new();
    let mut i = 0;
    while i + 3 <= t.len() {
        v.push((unhex(t[i]), t[i + 1].parse().expect("version"), unhex(t[i + 2])));
        i += 3;
    }
    v
}

fn show_recs(rs: &[Rec]) -> String {
    rs.iter().map(|(k, v, x)| format!(" {} {} {}", hexs(k), v, hexs(x))).collect()
}

/// A record list as it arrives from the storage server / leaves the signer: `Vec<(String, Value)>` converted with the
/// real `Mutations::from_vec` exactly as `vls-frontend/src/external_persist/lss.rs::get` does before `check_hmac`
/// (`(k, (v.version as u64, v.value))`) — the production constructor (`CloudKVVStore::prepare`, the vlsd restore path
/// and `begin_replication` build their lists with it too).  The tag must be computed and checked over the list AS
/// RECEIVED: `altered` is set when the conversion (or one of the accessors the HMAC code reads it through) yields
/// anything but the records in their wire order.
fn to_mutations_checked(rs: &[Rec]) -> Option<(Mutations, Option<String>)> {
    let mut wire: Vec<(String, Value)> = Vec::new();
    for (k, v, x) in rs {
        wire.push((String::from_utf8(k.clone()).ok()?, Value { version: *v as i64, value: x.clone() }));
    }
    let want: Vec<(String, (u64, Vec<u8>))> = wire.iter().map(|(k, v)| (k.clone(), (v.version as u64, v.value.clone()))).collect();
    let m = Mutations::from_vec(wire.into_iter().map(|(k, v)| (k, (v.version as u64, v.value))).collect());
    let seen: Vec<(String, (u64, Vec<u8>))> = m.iter().cloned().collect();
    let show = |l: &Vec<(String, (u64, Vec<u8>))>| l.iter().map(|(k, (v, x))| format!("{}@{}:{}", k, v, hexs(x))).collect::<Vec<_>>().join(",");
    let altered = if seen != want || m.inner() != &want || m.len() != want.len() {
        Some(format!("received [{}] but the list handed to the tag functions is [{}]", show(&want), show(&seen)))
    } else {
        None
    };
    // the incremental constructor must describe the same list
    let mut m2 = Mutations::new();
    for (k, (v, x)) in &want {
        m2.add(k.clone(), *v, x.clone());
    }
    let altered = altered.or_else(|| if m2.inner() != &want { Some(format!("Mutations::add builds [{}] from [{}]", show(m2.inner()), show(&want))) } else { None });
    Some((m, altered))
}

thread_local! {
    static ALTERED: std::cell::RefCell<Option<String>> = std::cell::RefCell::new(None);
}

/// for the generator (does not record anything)
fn gen_mutations(rs: &[Rec]) -> Option<Mutations> {
    to_mutations_checked(rs).map(|x| x.0)
}

fn to_mutations(rs: &[Rec]) -> Option<Mutations> {
    let (m, altered) = to_mutations_checked(rs)?;
    if let Some(a) = altered {
        ALTERED.with(|c| { let mut c = c.borrow_mut(); if c.is_none() { *c = Some(a); } });
    }
    Some(m)
}

fn arr32(b: &[u8]) -> Option<[u8; 32]> {
    if b.len() == 32 { let mut a = [0u8; 32]; a.copy_from_slice(b); Some(a) } else { None }
}

/// the unframed concatenation, written independently of both the Rust code under test and the Lean model
fn concat_recs(rs: &[Rec]) -> Vec<u8> {
    let mut out = Vec::new();
    for (k, v, x) in rs {
        out.extend_from_slice(k);
        out.extend_from_slice(&v.to_be_bytes());
        out.extend_from_slice(x);
    }
    out
}

/// Reference tags for the acceptance monitors: HMAC-SHA256 from the hashing library over the harness' own
/// unframed concatenation (independent of the verifying code under test and of the Lean model).
fn ref_hmac(secret: &[u8], msg: &[u8]) -> Vec<u8> {
    use lightning_signer::bitcoin::hashes::sha256::Hash as Sha256Hash;
    use lightning_signer::bitcoin::hashes::{Hash, HashEngine, Hmac, HmacEngine};
    let mut e = HmacEngine::<Sha256Hash>::new(secret);
    e.input(msg);
    Hmac::from_engine(e).to_byte_array().to_vec()
}

fn ref_shared_tag(secret: &[u8], nonce: &[u8], rs: &[Rec]) -> Vec<u8> {
    let mut m = secret.to_vec();
    m.extend_from_slice(nonce);
    m.extend(concat_recs(rs));
    ref_hmac(secret, &m)
}

fn ref_value_tag(secret: &[u8], rec: &Rec) -> Vec<u8> {
    ref_hmac(secret, &concat_recs(&[rec.clone()]))
}

/// how an accepted tag differs from the one tag that may be accepted
fn forged_variant(received: &[u8], expected: &[u8], other_tags: &[Vec<u8>]) -> String {
    if received.is_empty() {
        "empty".into()
    } else if received.len() < expected.len() && expected.starts_with(received) {
        format!("truncated-{}", received.len())
    } else if received.len() > expected.len() && received.starts_with(expected) {
        "extended".into()
    } else if received.len() != expected.len() {
        "other-length".into()
    } else if other_tags.iter().any(|t| t.as_slice() == received) {
        "tag-of-other-input".into()
    } else if received.iter().zip(expected.iter()).filter(|(a, b)| a != b).count() == 1 {
        "bit-flipped".into()
    } else {
        "wrong-tag".into()
    }
}

/// producers (`compute_shared_hmac`, `client_hmac`, `server_hmac`, the LSS ones, `append_hmac_to_value`) must tag
/// exactly the presented input: secret ‖ nonce-or-domain ‖ records, resp. key ‖ version ‖ content
fn check_produced(i: usize, what: &str, produced: &[u8], expected: &[u8], input: String, viol: &mut Vec<Violation>) {
    if produced != expected {
        viol.push(Violation {
            kind: "c17-tag-not-over-exact-input".into(),
            desc: format!("{} produced {} for {}; the tag over exactly this input is {}", what, hexs(produced), input, hexs(expected)),
            at: i,
        });
    }
}

pub struct C17Hmac;

#[derive(Default)]
struct Monitor {
    /// (secret, tag) → first input seen: (nonce, records, op index)
    shared: BTreeMap<(Vec<u8>, Vec<u8>), (Vec<u8>, Vec<Rec>, usize)>,
    /// (secret, tag) → first accepted triple
    value: BTreeMap<(Vec<u8>, Vec<u8>), (Rec, usize)>,
    /// ((secret, content), ciphertext head, (key, version)) seen by `encx`
    cipher: Vec<((Vec<u8>, Vec<u8>), Vec<u8>, (Vec<u8>, u64))>,
}

impl Monitor {
    fn shared_input(&mut self, at: usize, secret: &[u8], nonce: &[u8], rs: &[Rec], tag: &[u8], viol: &mut Vec<Violation>) {
        let key = (secret.to_vec(), tag.to_vec());
        match self.shared.get(&key) {
            None => { self.shared.insert(key, (nonce.to_vec(), rs.to_vec(), at)); }
            Some((n0, r0, at0)) => {
                if n0.as_slice() != nonce || r0.as_slice() != rs {
                    let mut a = n0.clone(); a.extend(concat_recs(r0));
                    let mut b = nonce.to_vec(); b.extend(concat_recs(rs));
                    let kind = if a == b { "c17-unframed-concatenation-collision" } else { "c17-tag-collision" };
                    viol.push(Violation {
                        kind: kind.into(),
                        desc: format!("same tag {} for nonce {} records[{}] (op {}) and nonce {} records[{}] (op {})",
                            hexs(tag), hexs(n0), show_recs(r0), at0, hexs(nonce), show_recs(rs), at),
                        at,
                    });
                }
            }
        }
    }
    fn value_input(&mut self, at: usize, secret: &[u8], rec: &Rec, tag: &[u8], viol: &mut Vec<Violation>) {
        let key = (secret.to_vec(), tag.to_vec());
        match self.value.get(&key) {
            None => { self.value.insert(key, (rec.clone(), at)); }
            Some((r0, at0)) => {
                if r0 != rec {
                    let kind = if concat_recs(&[r0.clone()]) == concat_recs(&[rec.clone()]) {
                        "c17-unframed-concatenation-collision"
                    } else {
                        "c17-tag-collision"
                    };
                    viol.push(Violation {
                        kind: kind.into(),
                        desc: format!("stored-value tag {} authenticates (key {}, version {}, value {}) (op {}) and (key {}, version {}, value {}) (op {})",
                            hexs(tag), hexs(&r0.0), r0.1, hexs(&r0.2), at0, hexs(&rec.0), rec.1, hexs(&rec.2), at),
                        at,
                    });
                }
            }
        }
    }
}

/// one long-lived `ExternalPersistHelper` driven through read 1 / read 2 / ...; the harness controls the
/// entropy source and remembers what it handed out for every request
#[derive(Default)]
struct HState {
    helper: Option<ExternalPersistHelper>,
    secret: Vec<u8>,
    /// entropy output handed to each new_nonce call, and the nonce the helper returned for it
    requests: Vec<([u8; 32], [u8; 32])>,
}

fn exec_line(line: &str, i: usize, mon: &mut Monitor, hs: &mut HState, co: &mut CaseOut) -> String {
    let t: Vec<&str> = line.split(' ').filter(|s| !s.is_empty()).collect();
    match t[0] {
        "hnew" => {
            let s = unhex(t[1]);
            let s32 = match arr32(&s) { Some(a) => a, None => return "bad-secret".into() };
            hs.helper = Some(ExternalPersistHelper::new(s32));
            hs.secret = s;
            hs.requests.clear();
            "ok".into()
        }
        "hnonce" => {
            let e32 = match arr32(&unhex(t[1])) { Some(a) => a, None => return "bad-entropy".into() };
            let h = match hs.helper.as_mut() { Some(h) => h, None => return "no-helper".into() };
            let nonce = h.new_nonce(&FixedEntropy::new(e32));
            // a response must authenticate under the *fresh* nonce of its request: two consecutive requests
            // whose entropy outputs differ must not get the same nonce
            if let Some((pe, pn)) = hs.requests.last() {
                if *pe != e32 && *pn == nonce {
                    co.violations.push(Violation {
                        kind: "c17-nonce-reused".into(),
                        desc: format!("new_nonce returned {} again although the entropy source produced {} (previous request: entropy {})",
                            hexs(&nonce), hexs(&e32), hexs(pe)),
                        at: i,
                    });
                }
            }
            hs.requests.push((e32, nonce));
            co.tags.insert("hnonce".into());
            hexs(&nonce)
        }
        "hcheck" => {
            let (tag, rs) = (unhex(t[1]), parse_recs(&t[2..]));
            let m = match to_mutations(&rs) { Some(m) => m, None => return "bad-key".into() };
            let h = match hs.helper.as_ref() { Some(h) => h, None => return "no-helper".into() };
            let ok = h.check_hmac(&m, tag.clone());
            if ok {
                co.tags.insert("check:true".into());
                // only the tag under the entropy handed out for the *current* request may pass
                let cur = hs.requests.last().map(|r| r.0.to_vec()).unwrap_or(vec![0u8; 32]);
                let expected = ref_shared_tag(&hs.secret, &cur, &rs);
                if tag != expected {
                    let n_req = hs.requests.len();
                    let replay = hs.requests[..n_req.saturating_sub(1)].iter().enumerate()
                        .find(|(_, r)| r.0.to_vec() != cur && ref_shared_tag(&hs.secret, &r.0, &rs) == tag);
                    let (kind, what) = match replay {
                        Some((j, r)) => ("c17-replayed-reply-accepted".to_string(),
                            format!("the reply recorded for request {} (nonce {})", j + 1, hexs(&r.0))),
                        None if cur != vec![0u8; 32] && ref_shared_tag(&hs.secret, &[0u8; 32], &rs) == tag =>
                            ("c17-forged-tag-accepted:tag-of-initial-nonce".to_string(), "the tag under the helper's initial all-zero nonce".to_string()),
                        None => (format!("c17-forged-tag-accepted:{}", forged_variant(&tag, &expected, &[])), "a tag".to_string()),
                    };
                    co.violations.push(Violation {
                        kind,
                        desc: format!("check_hmac accepted {} {} for request {} whose fresh nonce is {}; records[{}]",
                            what, hexs(&tag), n_req, hexs(&cur), show_recs(&rs)),
                        at: i,
                    });
                }
            } else {
                co.tags.insert("check:false".into());
                // non-vacuity: the exact tag of exactly this request and these records must pass
                let cur = hs.requests.last().map(|r| r.0.to_vec()).unwrap_or(vec![0u8; 32]);
                if tag == ref_shared_tag(&hs.secret, &cur, &rs) {
                    co.violations.push(Violation {
                        kind: "c17-genuine-reply-refused".into(),
                        desc: format!("check_hmac refused the genuine tag {} of request {} (nonce {}) records[{}]", hexs(&tag), hs.requests.len(), hexs(&cur), show_recs(&rs)),
                        at: i,
                    });
                }
            }
            ok.to_string()
        }
        "shared" => {
            let (s, n, rs) = (unhex(t[1]), unhex(t[2]), parse_recs(&t[3..]));
            let m = match to_mutations(&rs) { Some(m) => m, None => return "bad-key".into() };
            let tag = compute_shared_hmac(&s, &n, &m);
            check_produced(i, "compute_shared_hmac", &tag, &ref_shared_tag(&s, &n, &rs), format!("nonce {} records[{}]", hexs(&n), show_recs(&rs)), &mut co.violations);
            mon.shared_input(i, &s, &n, &rs, &tag, &mut co.violations);
            hexs(&tag)
        }
        // the lightning-storage-server client library's own compute_shared_hmac (used by its client driver for the
        // client/server tags and the get reply); same encoding as the vls-core one: the model line is `shared`
        "lshared" => {
            let (s, n, rs) = (unhex(t[1]), unhex(t[2]), parse_recs(&t[3..]));
            let mut kvs: Vec<(String, Value)> = Vec::new();
            for (k, v, x) in &rs {
                match String::from_utf8(k.clone()) {
                    Ok(ks) => kvs.push((ks, Value { version: *v as i64, value: x.clone() })),
                    Err(_) => return "bad-key".into(),
                }
            }
            let tag = lssu::compute_shared_hmac(&s, &n, &kvs);
            check_produced(i, "lss compute_shared_hmac", &tag, &ref_shared_tag(&s, &n, &rs), format!("nonce {} records[{}]", hexs(&n), show_recs(&rs)), &mut co.violations);
            mon.shared_input(i, &s, &n, &rs, &tag, &mut co.violations);
            hexs(&tag)
        }
        // implementation only: the LSS client driver's `remove_and_check_hmacs` over a list of stored values as a get
        // reply / a put-conflict reply carries them.  `vals S (K V STORED)*` with STORED = bytes as stored (cipher layer on)
        "istate" => glue::exec_istate(&t, i, co),
        "pget" => glue::exec_pget(&t, i, co),
        "pput" => glue::exec_pput(&t, i, co),
        "vals" => {
            let s = unhex(t[1]);
            let mut kvs: Vec<(String, Value)> = Vec::new();
            let mut presented: Vec<(Vec<u8>, u64, Vec<u8>)> = Vec::new();
            let mut j = 2;
            while j + 3 <= t.len() {
                let (k, v, st) = (unhex(t[j]), t[j + 1].parse::<u64>().expect("version"), unhex(t[j + 2]));
                match String::from_utf8(k.clone()) { Ok(ks) => kvs.push((ks, Value { version: v as i64, value: st.clone() })), Err(_) => return "bad-key".into() }
                presented.push((k, v, st));
                j += 3;
            }
            // reference verdict per position: remove the cipher layer with the real crypt_value, then the stored bytes
            // must be exactly content ‖ full tag of (key, version, content)
            let genuine: Vec<Option<Vec<u8>>> = presented.iter().map(|(k, v, st)| {
                let mut plain = st.clone();
                lssu::crypt_value(&s, std::str::from_utf8(k).unwrap(), *v as i64, &mut plain);
                if plain.len() < 32 { return None; }
                let content = plain[..plain.len() - 32].to_vec();
                if plain[plain.len() - 32..] == ref_value_tag(&s, &(k.clone(), *v, content.clone()))[..] { Some(content) } else { None }
            }).collect();
            match lss::driver::remove_and_check_hmacs(&s, &mut kvs) {
                Ok(()) => {
                    co.tags.insert("vals:ok".into());
                    for (p, g) in genuine.iter().enumerate() {
                        let returned = &kvs[p].1.value;
                        if g.as_ref() != Some(returned) {
                            co.violations.push(Violation {
                                kind: "c17-forged-tag-accepted:stored-list-entry".into(),
                                desc: format!("remove_and_check_hmacs accepted a list of {} stored values although entry {} (key {}, version {}) is not what was written for it; it is returned as {}",
                                    presented.len(), p + 1, hexs(&presented[p].0), presented[p].1, hexs(returned)),
                                at: i,
                            });
                            break;
                        }
                    }
                    format!("ok {}", kvs.iter().map(|(_, v)| hexs(&v.value)).collect::<Vec<_>>().join(" "))
                }
                Err(e) => {
                    co.tags.insert("vals:err".into());
                    if genuine.iter().all(|g| g.is_some()) {
                        co.violations.push(Violation {
                            kind: "c17-genuine-value-refused".into(),
                            desc: format!("remove_and_check_hmacs refused a list of {} genuine stored values ({:?})", presented.len(), e),
                            at: i,
                        });
                    }
                    "err".into()
                }
            }
        }
        // implementation only: ciphertext of prepare_value_for_put; the keystream must depend on key and version
        "encx" => {
            let (s, k, v, x) = (unhex(t[1]), unhex(t[2]), t[3].parse::<u64>().expect("version"), unhex(t[4]));
            let ks = match String::from_utf8(k.clone()) { Ok(s) => s, Err(_) => return "bad-key".into() };
            let mut val = Value { version: v as i64, value: x.clone() };
            lssu::prepare_value_for_put(&s, &ks, &mut val);
            let n = x.len().min(16).min(val.value.len());
            if n >= 8 {
                let head = val.value[..n].to_vec();
                let slot = (s.clone(), x.clone());
                match mon.cipher.iter().find(|(sl, h, kv)| *sl == slot && *h == head && *kv != (k.clone(), v)) {
                    Some((_, _, (k0, v0))) => co.violations.push(Violation {
                        kind: "c17-keystream-reused".into(),
                        desc: format!("the same content encrypts to the same bytes {} under (key {}, version {}) and (key {}, version {}): the cipher nonce is not bound to key and version",
                            hexs(&head), hexs(k0), v0, hexs(&k), v),
                        at: i,
                    }),
                    None => mon.cipher.push((slot, head, (k.clone(), v))),
                }
            }
            hexs(&val.value)
        }
        "client" | "server" => {
            let (s, rs) = (unhex(t[1]), parse_recs(&t[2..]));
            let m = match to_mutations(&rs) { Some(m) => m, None => return "bad-key".into() };
            let s32 = match arr32(&s) { Some(a) => a, None => return "bad-secret".into() };
            let h = ExternalPersistHelper::new(s32);
            let (tag, nonce) = if t[0] == "client" { (h.client_hmac(&m), vec![1u8]) } else { (h.server_hmac(&m), vec![2u8]) };
            check_produced(i, t[0], &tag, &ref_shared_tag(&s, &nonce, &rs), format!("domain {} records[{}]", hexs(&nonce), show_recs(&rs)), &mut co.violations);
            mon.shared_input(i, &s, &nonce, &rs, &tag, &mut co.violations);
            hexs(&tag)
        }
        "check" => {
            let (s, n, tag, rs) = (unhex(t[1]), unhex(t[2]), unhex(t[3]), parse_recs(&t[4..]));
            let m = match to_mutations(&rs) { Some(m) => m, None => return "bad-key".into() };
            let (s32, n32) = match (arr32(&s), arr32(&n)) { (Some(a), Some(b)) => (a, b), _ => return "bad-secret".into() };
            let mut h = ExternalPersistHelper::new(s32);
            let got = h.new_nonce(&FixedEntropy::new(n32));
            assert_eq!(got, n32);
            let ok = h.check_hmac(&m, tag.clone());
            if ok {
                // acceptance monitor: only the exact, full-length tag of exactly this (nonce, records) may pass
                let expected = ref_shared_tag(&s, &n, &rs);
                if tag != expected {
                    let others: Vec<Vec<u8>> = mon.shared.keys().map(|k| k.1.clone()).collect();
                    co.violations.push(Violation {
                        kind: format!("c17-forged-tag-accepted:{}", forged_variant(&tag, &expected, &others)),
                        desc: format!("check_hmac accepted the received tag {} ({} bytes) for nonce {} records[{}]; the only tag that may be accepted is {}",
                            hexs(&tag), tag.len(), hexs(&n), show_recs(&rs), hexs(&expected)),
                        at: i,
                    });
                }
                co.tags.insert("check:true".into());
                mon.shared_input(i, &s, &n, &rs, &tag, &mut co.violations);
            } else {
                co.tags.insert("check:false".into());
                if tag == ref_shared_tag(&s, &n, &rs) {
                    co.violations.push(Violation {
                        kind: "c17-genuine-reply-refused".into(),
                        desc: format!("check_hmac refused the genuine tag {} for nonce {} records[{}]", hexs(&tag), hexs(&n), show_recs(&rs)),
                        at: i,
                    });
                }
            }
            ok.to_string()
        }
        // stored value, HMAC layer only: append_hmac_to_value (through the real prepare_value_for_put, whose
        // ChaCha20 layer is removed again with the real crypt_value) / remove_and_check_hmac
        "prep" => {
            let (s, k, v, x) = (unhex(t[1]), unhex(t[2]), t[3].parse::<u64>().expect("version"), unhex(t[4]));
            let ks = match String::from_utf8(k.clone()) { Ok(s) => s, Err(_) => return "bad-key".into() };
            let mut val = Value { version: v as i64, value: x.clone() };
            lssu::prepare_value_for_put(&s, &ks, &mut val);
            lssu::crypt_value(&s, &ks, v as i64, &mut val.value);
            if val.value.len() >= 32 {
                let tag = val.value[val.value.len() - 32..].to_vec();
                let mut exact = x.clone();
                exact.extend(ref_value_tag(&s, &(k.clone(), v, x.clone())));
                check_produced(i, "prepare_value_for_put (cipher layer removed)", &val.value, &exact,
                    format!("(key {}, version {}, value {})", hexs(&k), v, hexs(&x)), &mut co.violations);
                mon.value_input(i, &s, &(k, v, x), &tag, &mut co.violations);
            }
            hexs(&val.value)
        }
        "proc" => {
            let (s, k, v, st) = (unhex(t[1]), unhex(t[2]), t[3].parse::<u64>().expect("version"), unhex(t[4]));
            let ks = match String::from_utf8(k.clone()) { Ok(s) => s, Err(_) => return "bad-key".into() };
            let mut value = st.clone();
            match lssu::remove_and_check_hmac(&s, &ks, v as i64, &mut value) {
                Ok(()) if st.len() < 32 => {
                    // nothing shorter than a tag can be what was written
                    co.tags.insert("proc:ok".into());
                    co.violations.push(Violation {
                        kind: format!("c17-forged-tag-accepted:stored-{}", if st.is_empty() { "empty" } else { "shorter-than-tag" }),
                        desc: format!("remove_and_check_hmac accepted the {}-byte stored value {} for (key {}, version {}) without any tag",
                            st.len(), hexs(&st), hexs(&k), v),
                        at: i,
                    });
                    format!("ok {}", hexs(&value))
                }
                Ok(()) => {
                    co.tags.insert("proc:ok".into());
                    let tag = st[st.len() - 32..].to_vec();
                    // acceptance monitor: the stored bytes must be exactly content ‖ full tag of (key, version, content)
                    let expected = ref_value_tag(&s, &(k.clone(), v, value.clone()));
                    let mut exact = value.clone();
                    exact.extend_from_slice(&expected);
                    if st != exact {
                        let others: Vec<Vec<u8>> = mon.value.keys().map(|k| k.1.clone()).collect();
                        co.violations.push(Violation {
                            kind: format!("c17-forged-tag-accepted:stored-{}", forged_variant(&tag, &expected, &others)),
                            desc: format!("remove_and_check_hmac accepted stored bytes {} as (key {}, version {}, value {}); the only acceptable tag is {}",
                                hexs(&st), hexs(&k), v, hexs(&value), hexs(&expected)),
                            at: i,
                        });
                    }
                    mon.value_input(i, &s, &(k, v, value.clone()), &tag, &mut co.violations);
                    format!("ok {}", hexs(&value))
                }
                Err(()) => {
                    co.tags.insert("proc:err".into());
                    // non-vacuity: content ‖ exact tag under exactly this key and version must pass
                    if st.len() >= 32 {
                        let content = st[..st.len() - 32].to_vec();
                        if st[st.len() - 32..] == ref_value_tag(&s, &(k.clone(), v, content.clone()))[..] {
                            co.violations.push(Violation {
                                kind: "c17-genuine-value-refused".into(),
                                desc: format!("remove_and_check_hmac refused the genuine stored value of (key {}, version {}, value {})", hexs(&k), v, hexs(&content)),
                                at: i,
                            });
                        }
                    }
                    "err".into()
                }
            }
        }
        // implementation only: the full default path with the ChaCha20 layer.  `procx S K V X K' V' MUT`:
        // write (K,V,X) with prepare_value_for_put, apply byte mutation MUT (`-` none, `f<i>` flip bit 0 of byte i,
        // `t<n>` truncate n bytes, `p<hex>` prepend bytes, `a<hex>` append bytes) to the stored ciphertext, read it back as (K',V')
        "procx" => {
            let (s, k, v, x) = (unhex(t[1]), unhex(t[2]), t[3].parse::<u64>().unwrap(), unhex(t[4]));
            let (k2, v2) = (unhex(t[5]), t[6].parse::<u64>().unwrap());
            let (ks, ks2) = match (String::from_utf8(k.clone()), String::from_utf8(k2.clone())) {
                (Ok(a), Ok(b)) => (a, b), _ => return "bad-key".into() };
            let mut val = Value { version: v as i64, value: x.clone() };
            lssu::prepare_value_for_put(&s, &ks, &mut val);
            let mut stored = val.value.clone();
            let written = stored.clone();
            let m = t[7];
            if let Some(i) = m.strip_prefix('f') { let i: usize = i.parse().unwrap(); if !stored.is_empty() { let j = i % stored.len(); stored[j] ^= 1; } }
            else if let Some(n) = m.strip_prefix('t') { let n: usize = n.parse().unwrap(); let l = stored.len().saturating_sub(n); stored.truncate(l); }
            else if let Some(h) = m.strip_prefix('p') { let mut p = unhex(h); p.extend(stored); stored = p; }
            else if let Some(h) = m.strip_prefix('a') { stored.extend(unhex(h)); }
            let presented = stored.clone();
            let mut back = Value { version: v2 as i64, value: stored };
            match lssu::process_value_from_get(&s, &ks2, &mut back) {
                Ok(()) => {
                    // accepted only if exactly the bytes written are presented under exactly the key and version
                    if presented != written || (k2.clone(), v2, back.value.clone()) != (k.clone(), v, x.clone()) {
                        let variant = if presented.is_empty() { "stored-empty" }
                            else if presented.len() < 32 { "stored-shorter-than-tag" }
                            else { "stored-value-not-as-written" };
                        co.violations.push(Violation {
                            kind: format!("c17-forged-tag-accepted:{}", variant),
                            desc: format!("written (key {}, version {}, value {}), mutation {} -> {} stored bytes presented, accepted as (key {}, version {}, value {})",
                                hexs(&k), v, hexs(&x), m, presented.len(), hexs(&k2), v2, hexs(&back.value)),
                            at: i,
                        });
                    }
                    co.tags.insert("procx:ok".into());
                    format!("ok {}", hexs(&back.value))
                }
                Err(()) => {
                    co.tags.insert("procx:err".into());
                    if presented == written && (k2.clone(), v2) == (k.clone(), v) {
                        co.violations.push(Violation {
                            kind: "c17-genuine-value-refused".into(),
                            desc: format!("process_value_from_get refused exactly what prepare_value_for_put wrote for (key {}, version {}, value {})", hexs(&k), v, hexs(&x)),
                            at: i,
                        });
                    }
                    "err".into()
                }
            }
        }
        _ => "bad-op".into(),
    }
}

fn ascii_key(rng: &mut Rng) -> Vec<u8> {
    match rng.below(6) {
        0 => b"k1".to_vec(),
        1 => b"k2".to_vec(),
        2 => b"_WRITER".to_vec(),
        3 => format!("node/entry/{}", hex::encode(rng.bytes(4))).into_bytes(),
        4 => format!("channel/{}", hex::encode(rng.bytes(2))).into_bytes(),
        _ => { let n = rng.range(1, 6) as usize; (0..n).map(|_| b'a' + rng.below(26) as u8).collect() }
    }
}

fn rand_version(rng: &mut Rng) -> u64 {
    match rng.below(8) {
        0 => 0,
        1 => u64::MAX,
        2 => 1u64 << 63,
        3 => 0x6b31_0000_0000_0001, // bytes that look like a key
        4 => rng.next(),
        _ => rng.below(300),
    }
}

fn rand_value(rng: &mut Rng) -> Vec<u8> {
    match rng.below(6) {
        0 => vec![],
        1 => b"v1".to_vec(),
        2 => vec![0u8; rng.range(1, 9) as usize],
        _ => { let n = rng.below(40) as usize; rng.bytes(n) }
    }
}

fn be(v: u64) -> Vec<u8> { v.to_be_bytes().to_vec() }

/// structural mutations of a record list; every result keeps keys ASCII
fn mutate_recs(rng: &mut Rng, base: &[Rec]) -> Vec<(String, Vec<Rec>)> {
    let mut out: Vec<(String, Vec<Rec>)> = Vec::new();
    let n = base.len();
    if n == 0 { return out; }
    let i = rng.below(n as u64) as usize;
    let j = (i + 1) % n;
    // bit flips
    { let mut r = base.to_vec(); if !r[i].2.is_empty() { let p = rng.below(r[i].2.len() as u64) as usize; r[i].2[p] ^= 1 << rng.below(8); out.push(("flip-value".into(), r)); } }
    { let mut r = base.to_vec(); r[i].1 ^= 1 << rng.below(64); out.push(("flip-version".into(), r)); }
    { let mut r = base.to_vec(); if !r[i].0.is_empty() { let p = rng.below(r[i].0.len() as u64) as usize; r[i].0[p] ^= 1 << rng.below(3); if r[i].0[p] < 0x80 { out.push(("flip-key".into(), r)); } } }
    // version negated as i64 (the LSS side carries versions as i64), version +1 / -1
    { let mut r = base.to_vec(); r[i].1 = (r[i].1 as i64).wrapping_neg() as u64; if r[i].1 != base[i].1 { out.push(("negate-version".into(), r)); } }
    { let mut r = base.to_vec(); r[i].1 = r[i].1.wrapping_add(1); out.push(("version-plus-one".into(), r)); }
    // key with a separator / digit appended, key without its last character
    { let mut r = base.to_vec(); r[i].0.push(b'/'); out.push(("key-append-slash".into(), r)); }
    { let mut r = base.to_vec(); r[i].0.push(b'0'); out.push(("key-append-char".into(), r)); }
    { let mut r = base.to_vec(); if r[i].0.pop().is_some() { out.push(("key-drop-last".into(), r)); } }
    // swaps
    if n > 1 {
        { let mut r = base.to_vec(); let k = r[i].0.clone(); r[i].0 = r[j].0.clone(); r[j].0 = k; out.push(("swap-keys".into(), r)); }
        { let mut r = base.to_vec(); let v = r[i].1; r[i].1 = r[j].1; r[j].1 = v; out.push(("swap-versions".into(), r)); }
        { let mut r = base.to_vec(); let v = r[i].2.clone(); r[i].2 = r[j].2.clone(); r[j].2 = v; out.push(("swap-values".into(), r)); }
        { let mut r = base.to_vec(); r.swap(i, j); out.push(("reorder".into(), r)); }
        { let mut r = base.to_vec(); r.reverse(); out.push(("reverse".into(), r)); }
    }
    // truncation
    { let mut r = base.to_vec(); r.pop(); out.push(("drop-last-record".into(), r)); }
    { let mut r = base.to_vec(); if r[i].2.pop().is_some() { out.push(("truncate-value".into(), r)); } }
    { let mut r = base.to_vec(); let d = r[i].clone(); r.insert(i, d); out.push(("duplicate-record".into(), r)); }
    // a stale record for the same key (older version, other content) spliced in before / after the genuine one
    { let mut r = base.to_vec(); let mut d = r[i].clone(); d.1 = d.1.wrapping_sub(1); d.2.push(0x5a); r.insert(i, d); out.push(("stale-duplicate-before".into(), r)); }
    { let mut r = base.to_vec(); let mut d = r[i].clone(); d.1 = d.1.wrapping_sub(1); d.2.push(0x5a); r.insert(i + 1, d); out.push(("stale-duplicate-after".into(), r)); }
    { let mut r = base.to_vec(); let mut d = r[i].clone(); d.1 = d.1.wrapping_sub(1); d.2.push(0x5a); r.insert(0, d); out.push(("stale-duplicate-first".into(), r)); }
    // the same records in key order / reverse key order, and rotated
    { let mut r = base.to_vec(); r.sort(); if r != base { out.push(("key-sorted".into(), r)); } }
    { let mut r = base.to_vec(); r.sort(); r.reverse(); if r != base { out.push(("key-sorted-reverse".into(), r)); } }
    if n > 2 { let mut r = base.to_vec(); r.rotate_left(1); out.push(("rotate".into(), r)); }
    // merge record i+1 into the value of record i (F10)
    if n > 1 && i + 1 < n {
        let mut r = base.to_vec();
        let nx = r.remove(i + 1);
        r[i].2.extend(nx.0); r[i].2.extend(be(nx.1)); r[i].2.extend(nx.2);
        out.push(("merge".into(), r));
    }
    // split the value of record i into a record of its own when it is long enough and its head is ASCII
    {
        let x = &base[i].2;
        if x.len() >= 9 {
            let cut = rng.below((x.len() - 8) as u64) as usize; // value' = x[..cut], key2 = 1 byte?, ...
            // new record: key2 = x[cut..cut+kl], version = next 8 bytes, value = rest
            let kl = rng.below((x.len() - 8 - cut) as u64 + 1) as usize;
            let key2 = x[cut..cut + kl].to_vec();
            if key2.iter().all(|b| *b < 0x80) {
                let mut vb = [0u8; 8]; vb.copy_from_slice(&x[cut + kl..cut + kl + 8]);
                let mut r = base.to_vec();
                r[i].2 = x[..cut].to_vec();
                r.insert(i + 1, (key2, u64::from_be_bytes(vb), x[cut + kl + 8..].to_vec()));
                out.push(("split".into(), r));
            }
        }
    }
    // boundary shift: last byte of a value becomes the first byte of the next key
    if n > 1 && i + 1 < n {
        let mut r = base.to_vec();
        if let Some(b) = r[i].2.pop() { if b < 0x80 { r[i + 1].0.insert(0, b); out.push(("shift-value-to-next-key".into(), r)); } }
    }
    // field shift inside one record: last key byte → version → value
    {
        let mut r = base.to_vec();
        if let Some(b) = r[i].0.pop() {
            let mut bytes = vec![b]; bytes.extend(be(r[i].1));
            let mut vb = [0u8; 8]; vb.copy_from_slice(&bytes[..8]);
            r[i].1 = u64::from_be_bytes(vb);
            r[i].2.insert(0, bytes[8]);
            out.push(("shift-key-to-version".into(), r));
        }
    }
    // field shift the other way: first value byte → version → key (when it stays ASCII)
    {
        let mut r = base.to_vec();
        if !r[i].2.is_empty() {
            let mut bytes = be(r[i].1); bytes.push(r[i].2.remove(0));
            if bytes[0] < 0x80 {
                r[i].0.push(bytes[0]);
                let mut vb = [0u8; 8]; vb.copy_from_slice(&bytes[1..9]);
                r[i].1 = u64::from_be_bytes(vb);
                out.push(("shift-version-to-key".into(), r));
            }
        }
    }
    out
}

impl Group for C17Hmac {
    fn property(&self) -> &'static str { "C17" }
    fn model(&self) -> Option<&'static str> { Some("hmac") }
    fn rule(&self) -> &'static str {
        "per case: a random secret/nonce and 1..4 records (repo-style ASCII keys, versions 0/small/2^63/u64::MAX/key-like \
         bytes, values 0..40 bytes) or one stored value, with the full structural mutation set (bit flips of key, version, \
         value, nonce, secret; key/version/value swaps; reorder; truncations; duplicate; record merge/split; boundary and \
         field shifts; replay under another nonce; client vs server tag); tags and stored values compared byte for byte \
         with the Lean encoders + HMAC-SHA256; non-trivial = the case contains an accepted and a rejected authentication"
    }
    fn budget(&self, tier: Tier) -> usize { if tier == Tier::Quick { 3000 } else { 40_000 } }
    fn corpus(&self) -> Vec<Vec<String>> {
        let s = "07".repeat(32);
        let n = "09".repeat(32);
        let c = |v: Vec<String>| v;
        vec![
            // F10 witness of DESIGN §3 C17 / notes/recon/exp_kv.rs: merge of two records
            c(vec![
                format!("shared {} {} 6b31 1 7631 6b32 2 7632", s, n),
                format!("shared {} {} 6b31 1 76316b3200000000000000027632", s, n),
            ]),
            // the repository's own test vector (persist/mod.rs hmac_test)
            c(vec![
                format!("client {} 666f6f 0 01 626172 0 02 62617a 0 03", "00".repeat(32)),
                format!("server {} 666f6f 0 01 626172 0 02 62617a 0 03", "00".repeat(32)),
            ]),
            // stored value: field shift key → version → value
            c(vec![
                format!("prep {} 6b31 1 7631", "03".repeat(32)),
                format!("prep {} 6b 3530822107858468864 017631", "03".repeat(32)),
            ]),
            // LSS unit test scenario
            c(vec![
                format!("prep {} 78 123 010203", "0b".repeat(32)),
                format!("procx {} 78 123 010203 78 123 -", "0b".repeat(32)),
                format!("procx {} 78 123 010203 78 122 -", "0b".repeat(32)),
                format!("procx {} 78 123 010203 7831 123 -", "0b".repeat(32)),
                format!("procx {} 78 123 010203 78 123 f0", "0b".repeat(32)),
            ]),
        ]
    }
    fn model_line(&self, op: &str) -> Option<String> {
        if op.starts_with("procx ") || op.starts_with("encx ") || op.starts_with("vals ") || op.starts_with("istate ") || op.starts_with("pget ") || op.starts_with("pput ") {
            None
        } else if let Some(rest) = op.strip_prefix("lshared ") {
            Some(format!("shared {}", rest))
        } else {
            Some(op.to_string())
        }
    }
    fn gen_case(&self, rng: &mut Rng, _tier: Tier) -> Vec<String> {
        let secret = rng.bytes(32);
        let s = hexs(&secret);
        let mut ops = Vec::new();
        if rng.chance(3, 5) {
            // shared HMAC family
            let nonce = rng.bytes(32);
            let n = hexs(&nonce);
            let cnt = rng.range(1, 4) as usize;
            let mut base: Vec<Rec> = (0..cnt).map(|_| (ascii_key(rng), rand_version(rng), rand_value(rng))).collect();
            if rng.chance(1, 3) && cnt > 1 { base[1].2 = { let mut v = rand_value(rng); v.extend(rng.bytes(10)); v }; base[0].2 = { let mut v = b"abc".to_vec(); v.extend(be(rng.below(5))); v.extend(rng.bytes(3)); v }; }
            let m = gen_mutations(&base).unwrap();
            let tag = compute_shared_hmac(&secret, &nonce, &m).to_vec();
            ops.push(format!("shared {} {}{}", s, n, show_recs(&base)));
            ops.push(format!("lshared {} {}{}", s, n, show_recs(&base)));
            ops.push(format!("lshared {} 01{}", s, show_recs(&base)));
            ops.push(format!("check {} {} {}{}", s, n, hexs(&tag), show_recs(&base)));
            ops.push(format!("client {}{}", s, show_recs(&base)));
            ops.push(format!("server {}{}", s, show_recs(&base)));
            // replay under another nonce / other secret / flipped tag
            let mut n2 = nonce.clone(); n2[rng.below(32) as usize] ^= 1 << rng.below(8);
            ops.push(format!("check {} {} {}{}", s, hexs(&n2), hexs(&tag), show_recs(&base)));
            // the correct tag of the other nonce presented under this one
            ops.push(format!("check {} {} {}{}", s, n, hexs(&compute_shared_hmac(&secret, &n2, &m)), show_recs(&base)));
            ops.push(format!("shared {} {}{}", s, hexs(&n2), show_recs(&base)));
            ops.push(format!("lshared {} {}{}", s, hexs(&n2), show_recs(&base)));
            let mut s2 = secret.clone(); s2[rng.below(32) as usize] ^= 1 << rng.below(8);
            ops.push(format!("check {} {} {}{}", hexs(&s2), n, hexs(&tag), show_recs(&base)));
            let mut t2 = tag.clone(); t2[rng.below(32) as usize] ^= 1 << rng.below(8);
            ops.push(format!("check {} {} {}{}", s, n, hexs(&t2), show_recs(&base)));
            // forged tags for the unchanged reply: truncated (incl. empty), extended, tags of other inputs
            for cut in [0usize, 1, 16, 31] {
                ops.push(format!("check {} {} {}{}", s, n, hexs(&tag[..cut]), show_recs(&base)));
            }
            { let mut t = tag.clone(); t.push(0); ops.push(format!("check {} {} {}{}", s, n, hexs(&t), show_recs(&base))); }
            { let mut t = tag.clone(); let g = 1 + rng.below(40) as usize; t.extend(rng.bytes(g)); ops.push(format!("check {} {} {}{}", s, n, hexs(&t), show_recs(&base))); }
            ops.push(format!("check {} {} {}{}", s, n, hexs(&vec![0u8; 32]), show_recs(&base)));
            {
                let helper = ExternalPersistHelper::new(arr32(&secret).unwrap());
                ops.push(format!("check {} {} {}{}", s, n, hexs(&helper.client_hmac(&m)), show_recs(&base)));
                ops.push(format!("check {} {} {}{}", s, n, hexs(&helper.server_hmac(&m)), show_recs(&base)));
            }
            // client tag replayed as a get response whose nonce begins with 0x01 (one-byte vs 32-byte nonce)
            if rng.chance(1, 4) {
                let mut n3 = nonce.clone(); n3[0] = 1;
                ops.push(format!("shared {} {}{}", s, hexs(&n3), show_recs(&base)));
                ops.push(format!("shared {} 01 {} 0 -{}", s, hexs(&n3[1..23].iter().map(|b| b & 0x7f).collect::<Vec<u8>>()), show_recs(&base)));
            }
            // one long-lived helper: read 1 / reply 1 / read 2 / replayed reply 1 / reply 2 / ...
            {
                ops.push(format!("hnew {}", s));
                // before any request the helper holds its initial (all-zero) nonce
                let tag_zero = compute_shared_hmac(&secret, &[0u8; 32], &m).to_vec();
                if rng.chance(1, 2) {
                    ops.push(format!("hcheck {}{}", hexs(&tag_zero), show_recs(&base)));
                    ops.push(format!("hcheck {}{}", hexs(&tag), show_recs(&base)));
                }
                let reads = rng.range(2, 5) as usize;
                let mut recorded: Vec<(Vec<u8>, Vec<Rec>)> = Vec::new(); // (tag, records) of earlier replies
                let mut prev_e: Option<Vec<u8>> = None;
                for r in 0..reads {
                    let e = match rng.below(8) {
                        0 if r > 0 => vec![0u8; 32],                       // the helper's initial value
                        1 if prev_e.is_some() => prev_e.clone().unwrap(),  // the source repeats itself (not the helper's fault)
                        2 if prev_e.is_some() => { let mut q = prev_e.clone().unwrap(); q[rng.below(32) as usize] ^= 1 << rng.below(8); q }
                        _ => rng.bytes(32),
                    };
                    ops.push(format!("hnonce {}", hexs(&e)));
                    let recs_r: Vec<Rec> = if rng.chance(1, 2) { base.clone() } else {
                        (0..rng.range(1, 3)).map(|_| (ascii_key(rng), rand_version(rng), rand_value(rng))).collect() };
                    let mr = gen_mutations(&recs_r).unwrap();
                    let tag_r = compute_shared_hmac(&secret, &e, &mr).to_vec();
                    // replies recorded for earlier reads, replayed now (same and other records)
                    for (t0, r0) in recorded.iter() {
                        ops.push(format!("hcheck {}{}", hexs(t0), show_recs(r0)));
                        if rng.chance(1, 3) { ops.push(format!("hcheck {}{}", hexs(t0), show_recs(&recs_r))); }
                    }
                    ops.push(format!("hcheck {}{}", hexs(&tag_r), show_recs(&recs_r)));
                    // a reply made under the helper's initial all-zero nonce, and the stateless tag of the case
                    if rng.chance(1, 2) { ops.push(format!("hcheck {}{}", hexs(&tag_zero), show_recs(&base))); }
                    if rng.chance(1, 3) { ops.push(format!("hcheck {}{}", hexs(&compute_shared_hmac(&secret, &[0u8; 32], &mr)), show_recs(&recs_r))); }
                    if rng.chance(1, 2) { ops.push(format!("hcheck {}{}", hexs(&tag_r[..*rng.pick(&[0usize, 1, 16, 31])]), show_recs(&recs_r))); }
                    recorded.push((tag_r, recs_r));
                    prev_e = Some(e);
                }
            }
            // glue level: vlsd's restore-time read (init_state) and the LSS client driver's get / put, each behind an
            // honest server + man in the middle
            {
                let hs2 = hexs(&rng.bytes(32));
                ops.push(format!("istate {} honest{}", s, show_recs(&base)));
                for _ in 0..3 {
                    ops.push(format!("istate {} {}{}", s, rng.pick(&glue::ISTATE_MODES), show_recs(&base)));
                }
                ops.push(format!("pget {} {} honest {}{}", s, hs2, rng.range(2, 4), show_recs(&base)));
                ops.push(format!("pget {} {} replay {}{}", s, hs2, rng.range(2, 3), show_recs(&base)));
                ops.push(format!("pget {} {} {} {}{}", s, hs2, rng.pick(&glue::PGET_MODES), rng.range(1, 3), show_recs(&base)));
                ops.push(format!("pput {} {} honest{}", s, hs2, show_recs(&base)));
                ops.push(format!("pput {} {} {}{}", s, hs2, rng.pick(&glue::PPUT_MODES), show_recs(&base)));
            }
            for (_name, r) in mutate_recs(rng, &base) {
                ops.push(format!("shared {} {}{}", s, n, show_recs(&r)));
                ops.push(format!("lshared {} {}{}", s, n, show_recs(&r)));
                if rng.chance(1, 2) {
                    ops.push(format!("check {} {} {}{}", s, n, hexs(&tag), show_recs(&r)));
                }
                // the correct tag of the mutated list presented for the original one, and truncated for itself
                if let Some(mr) = gen_mutations(&r) {
                    let tr = compute_shared_hmac(&secret, &nonce, &mr).to_vec();
                    if rng.chance(1, 2) {
                        ops.push(format!("check {} {} {}{}", s, n, hexs(&tr), show_recs(&base)));
                    }
                    if rng.chance(1, 4) {
                        ops.push(format!("check {} {} {}{}", s, n, hexs(&tr[..*rng.pick(&[0usize, 1, 16, 31])]), show_recs(&r)));
                    }
                }
            }
        } else {
            // stored value family
            let (k, v, x) = (ascii_key(rng), rand_version(rng), rand_value(rng));
            ops.push(format!("prep {} {} {} {}", s, hexs(&k), v, hexs(&x)));
            // what the real code stores (HMAC layer)
            let ks = String::from_utf8(k.clone()).unwrap();
            let mut val = Value { version: v as i64, value: x.clone() };
            lssu::append_hmac_to_value(&secret, &ks, v as i64, &mut val.value);
            let stored = val.value.clone();
            ops.push(format!("proc {} {} {} {}", s, hexs(&k), v, hexs(&stored)));
            ops.push(format!("procx {} {} {} {} {} {} -", s, hexs(&k), v, hexs(&x), hexs(&k), v));
            // key / version changes
            let mut k2 = k.clone(); if !k2.is_empty() { let p = rng.below(k2.len() as u64) as usize; k2[p] ^= 1 << rng.below(3); }
            if k2.iter().all(|b| *b < 0x80) {
                ops.push(format!("proc {} {} {} {}", s, hexs(&k2), v, hexs(&stored)));
                ops.push(format!("procx {} {} {} {} {} {} -", s, hexs(&k), v, hexs(&x), hexs(&k2), v));
            }
            let v2 = v ^ (1 << rng.below(64));
            ops.push(format!("proc {} {} {} {}", s, hexs(&k), v2, hexs(&stored)));
            ops.push(format!("procx {} {} {} {} {} {} -", s, hexs(&k), v, hexs(&x), hexs(&k), v2));
            ops.push(format!("proc {} {} {} {}", s, hexs(&k), v.wrapping_sub(1), hexs(&stored)));
            ops.push(format!("proc {} {} {} {}", s, hexs(&k), v.wrapping_add(1), hexs(&stored)));
            let vneg = (v as i64).wrapping_neg() as u64;
            if vneg != v {
                ops.push(format!("proc {} {} {} {}", s, hexs(&k), vneg, hexs(&stored)));
                ops.push(format!("procx {} {} {} {} {} {} -", s, hexs(&k), v, hexs(&x), hexs(&k), vneg));
            }
            for suffix in [&b"/"[..], &b"0"[..]] {
                let mut ka = k.clone(); ka.extend_from_slice(suffix);
                ops.push(format!("proc {} {} {} {}", s, hexs(&ka), v, hexs(&stored)));
                ops.push(format!("procx {} {} {} {} {} {} -", s, hexs(&k), v, hexs(&x), hexs(&ka), v));
                // and the other way round: written under the longer key, read under the shorter one
                ops.push(format!("procx {} {} {} {} {} {} -", s, hexs(&ka), v, hexs(&x), hexs(&k), v));
            }
            // lists of stored values through the client driver's remove_and_check_hmacs: genuine, and with exactly one
            // position (first / middle / last) tampered: bit flip, blob swapped in from another key of the list, the
            // blob of an older version of the same key replayed, truncated, emptied
            {
                let cnt = rng.range(2, 4) as usize;
                let mut recs: Vec<(Vec<u8>, u64, Vec<u8>)> = vec![(k.clone(), v, x.clone())];
                while recs.len() < cnt {
                    let kk = { let mut q = ascii_key(rng); q.push(b'a' + recs.len() as u8); q };
                    recs.push((kk, rand_version(rng), rand_value(rng)));
                }
                let store = |k: &Vec<u8>, v: u64, x: &Vec<u8>| -> Vec<u8> {
                    let mut val = Value { version: v as i64, value: x.clone() };
                    lssu::prepare_value_for_put(&secret, std::str::from_utf8(k).unwrap(), &mut val);
                    val.value
                };
                let blobs: Vec<Vec<u8>> = recs.iter().map(|(k, v, x)| store(k, *v, x)).collect();
                let line = |bl: &Vec<Vec<u8>>| -> String {
                    let mut l = format!("vals {}", s);
                    for (j, (k, v, _)) in recs.iter().enumerate() { l += &format!(" {} {} {}", hexs(k), v, hexs(&bl[j])); }
                    l
                };
                ops.push(line(&blobs));
                for p in 0..cnt {
                    { let mut b = blobs.clone(); let l = b[p].len(); let q = rng.below(l as u64) as usize; b[p][q] ^= 1 << rng.below(8); ops.push(line(&b)); }
                    { let mut b = blobs.clone(); let q = (p + 1) % cnt; b[p] = blobs[q].clone(); ops.push(line(&b)); }
                    { let mut b = blobs.clone(); let mut older = recs[p].2.clone(); older.push(0x33); b[p] = store(&recs[p].0, recs[p].1.wrapping_sub(1), &older); ops.push(line(&b)); }
                    if rng.chance(1, 2) { let mut b = blobs.clone(); let l = b[p].len(); b[p].truncate(l - 1 - rng.below(l as u64 - 1) as usize); ops.push(line(&b)); }
                    if rng.chance(1, 2) { let mut b = blobs.clone(); b[p] = vec![]; ops.push(line(&b)); }
                }
            }
            // the cipher layer: the same 16-byte content under this key/version, another key, another version
            {
                let content = hexs(&rng.bytes(16));
                ops.push(format!("encx {} {} {} {}", s, hexs(&k), v, content));
                ops.push(format!("encx {} {} {} {}", s, hexs(&{ let mut q = k.clone(); q.push(b'x'); q }), v, content));
                ops.push(format!("encx {} {} {} {}", s, hexs(&k), v ^ (1 << rng.below(64)), content));
                ops.push(format!("encx {} {} {} {}", s, hexs(&k), v.wrapping_add(1), content));
            }
            // content changes
            let mut st2 = stored.clone(); let p = rng.below(st2.len() as u64) as usize; st2[p] ^= 1 << rng.below(8);
            ops.push(format!("proc {} {} {} {}", s, hexs(&k), v, hexs(&st2)));
            ops.push(format!("procx {} {} {} {} {} {} f{}", s, hexs(&k), v, hexs(&x), hexs(&k), v, p));
            ops.push(format!("proc {} {} {} {}", s, hexs(&k), v, hexs(&stored[..stored.len() - 1])));
            ops.push(format!("proc {} {} {} {}", s, hexs(&k), v, hexs(&stored[1..])));
            ops.push(format!("proc {} {} {} {}", s, hexs(&k), v, hexs(&stored[..rng.below(33) as usize])));
            ops.push(format!("procx {} {} {} {} {} {} t{}", s, hexs(&k), v, hexs(&x), hexs(&k), v, rng.range(1, 40)));
            // every truncation of the valid stored value — down to the empty value and values shorter than a tag —
            // under the key/version it was written for and under a key/version nothing was ever written for
            let (kn, vn) = ({ let mut q = ascii_key(rng); q.extend_from_slice(b"/none"); q }, rand_version(rng));
            for cut in 0..stored.len() {
                ops.push(format!("proc {} {} {} {}", s, hexs(&k), v, hexs(&stored[..cut])));
                if cut < 34 || rng.chance(1, 4) {
                    ops.push(format!("proc {} {} {} {}", s, hexs(&kn), vn, hexs(&stored[..cut])));
                    ops.push(format!("proc {} {} {} {}", s, hexs(&k), v, hexs(&stored[stored.len() - cut..])));
                }
            }
            for n in 1..=(stored.len()) {
                ops.push(format!("procx {} {} {} {} {} {} t{}", s, hexs(&k), v, hexs(&x), hexs(&k), v, n));
                if n + 34 > stored.len() || rng.chance(1, 4) {
                    ops.push(format!("procx {} {} {} {} {} {} t{}", s, hexs(&k), v, hexs(&x), hexs(&kn), vn, n));
                }
            }
            // forged tags: content followed by a truncated tag (0, 1, 16, 31 bytes), an extended tag, a flipped tag,
            // and the correct tag of another key / version / content
            let tagv = stored[stored.len() - 32..].to_vec();
            for cut in [0usize, 1, 16, 31] {
                let mut st = x.clone(); st.extend_from_slice(&tagv[..cut]);
                ops.push(format!("proc {} {} {} {}", s, hexs(&k), v, hexs(&st)));
                ops.push(format!("procx {} {} {} {} {} {} t{}", s, hexs(&k), v, hexs(&x), hexs(&k), v, 32 - cut));
            }
            { let mut st = stored.clone(); st.push(0); ops.push(format!("proc {} {} {} {}", s, hexs(&k), v, hexs(&st))); }
            { let mut st = stored.clone(); let g = 1 + rng.below(40) as usize; st.extend(rng.bytes(g)); ops.push(format!("proc {} {} {} {}", s, hexs(&k), v, hexs(&st))); }
            ops.push(format!("procx {} {} {} {} {} {} a00", s, hexs(&k), v, hexs(&x), hexs(&k), v));
            ops.push(format!("procx {} {} {} {} {} {} a{}", s, hexs(&k), v, hexs(&x), hexs(&k), v, hexs(&rng.bytes(33))));
            { let mut st = stored.clone(); let l = st.len(); st[l - 1 - rng.below(32) as usize] ^= 1 << rng.below(8); ops.push(format!("proc {} {} {} {}", s, hexs(&k), v, hexs(&st))); }
            { let mut st = x.clone(); st.extend(vec![0u8; 32]); ops.push(format!("proc {} {} {} {}", s, hexs(&k), v, hexs(&st))); }
            for (k3, v3, x3) in [(k2.clone(), v, x.clone()), (k.clone(), v2, x.clone()), (k.clone(), v, { let mut y = x.clone(); y.push(1); y })] {
                if let Ok(ks3) = String::from_utf8(k3.clone()) {
                    let mut other = x3.clone();
                    lssu::append_hmac_to_value(&secret, &ks3, v3 as i64, &mut other);
                    let t3 = other[other.len() - 32..].to_vec();
                    let mut st = x.clone(); st.extend_from_slice(&t3);
                    ops.push(format!("proc {} {} {} {}", s, hexs(&k), v, hexs(&st)));
                }
            }
            // field shifts (F10 for stored values): key loses its last byte
            if !k.is_empty() {
                let mut bytes = vec![*k.last().unwrap()]; bytes.extend(be(v));
                let mut vb = [0u8; 8]; vb.copy_from_slice(&bytes[..8]);
                let mut st3 = vec![bytes[8]]; st3.extend(&stored);
                ops.push(format!("proc {} {} {} {}", s, hexs(&k[..k.len() - 1]), u64::from_be_bytes(vb), hexs(&st3)));
                ops.push(format!("procx {} {} {} {} {} {} p{}", s, hexs(&k), v, hexs(&x), hexs(&k[..k.len() - 1]), u64::from_be_bytes(vb), hexs(&[bytes[8]])));
            }
            // the other way: key gains the first version byte
            if !x.is_empty() && be(v)[0] < 0x80 {
                let mut bytes = be(v); bytes.push(x[0]);
                let mut k3 = k.clone(); k3.push(bytes[0]);
                let mut vb = [0u8; 8]; vb.copy_from_slice(&bytes[1..9]);
                ops.push(format!("proc {} {} {} {}", s, hexs(&k3), u64::from_be_bytes(vb), hexs(&stored[1..])));
            }
            // another record's stored value under this key (swap)
            let (kb, vb2, xb) = (ascii_key(rng), rand_version(rng), rand_value(rng));
            ops.push(format!("prep {} {} {} {}", s, hexs(&kb), vb2, hexs(&xb)));
            let mut other = Value { version: vb2 as i64, value: xb.clone() };
            lssu::append_hmac_to_value(&secret, &String::from_utf8(kb.clone()).unwrap(), vb2 as i64, &mut other.value);
            if (kb.clone(), vb2) != (k.clone(), v) {
                ops.push(format!("proc {} {} {} {}", s, hexs(&k), v, hexs(&other.value)));
            }
        }
        ops
    }
    fn exec_case(&self, ops: &[String]) -> CaseOut {
        let mut co = CaseOut::default();
        let mut mon = Monitor::default();
        let mut hs = HState::default();
        ALTERED.with(|c| *c.borrow_mut() = None);
        for (i, line) in ops.iter().enumerate() {
            let o = match std::panic::catch_unwind(std::panic::AssertUnwindSafe(|| exec_line(line, i, &mut mon, &mut hs, &mut co))) {
                Ok(o) => o,
                Err(_) => {
                    // a verifying entry point must answer accept/refuse for any bytes an outsider can supply
                    let opn = line.split(' ').next().unwrap_or("");
                    if matches!(opn, "check" | "hcheck" | "proc" | "procx" | "vals" | "istate" | "pget" | "pput") {
                        co.violations.push(Violation {
                            kind: "c17-verifier-panicked".into(),
                            desc: format!("`{}` panicked instead of returning a verdict", opn),
                            at: i,
                        });
                    }
                    "panic".to_string()
                }
            };
            if let Some(a) = ALTERED.with(|c| c.borrow_mut().take()) {
                co.violations.push(Violation {
                    kind: "c17-reply-altered-before-check".into(),
                    desc: format!("`{}`: {} — the tag is not computed/checked over the list as received", line.split(' ').next().unwrap_or(""), a),
                    at: i,
                });
            }
            co.tags.insert(format!("op:{}", line.split(' ').next().unwrap_or("")));
            co.out.push(o);
        }
        let acc = co.tags.contains("check:true") || co.tags.contains("proc:ok") || co.tags.contains("procx:ok");
        let rej = co.tags.contains("check:false") || co.tags.contains("proc:err") || co.tags.contains("procx:err");
        co.nontrivial = acc && rej;
        co
    }
}

pub fn groups() -> Vec<Box<dyn Group>> {
    vec![Box::new(C17Hmac)]
}
