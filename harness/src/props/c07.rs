//! C07 — mutual close pays the holder its due to an owned or allowlisted destination.
//!
//! Same execution world and Lean model as C05 (`c05_world.rs`, model `mclose`): the channel state is
//! reached by real commitment updates (sign counterparty commitment / validate holder commitment /
//! revoke / counterparty revocation), then cooperative closes are requested through both entry points
//! (`sign_mutual_close_tx_phase2`, `sign_mutual_close_tx`) with values at the ε and fee edges, all
//! script/path/allowlist variants, both output orders, 0–3 outputs.  Monitor: `CloseOK` evaluated with
//! u128/i128 arithmetic on every returned signature, the `channel_closed` flag, and the signature is
//! verified against a closing transaction built independently from scratch.
use crate::common::*;

#[path = "c05_world.rs"]
pub mod world;
use world::*;
#[path = "c07_wire.rs"]
pub mod wire;

pub struct C07;

fn close_weight(outs: &[(u64, u64)]) -> u128 {
    let mut size: u128 = 4 + 1 + 41 + 1 + 4;
    for (v, sid) in outs {
        if *v > 0 {
            size += 9 + script_len(*sid) as u128;
        }
    }
    4 * size + 222
}

fn fee_for_rate(rate: u128, w: u128, hi: bool) -> u128 {
    if hi {
        (((rate + 1) * w).saturating_sub(1000)) / 1000
    } else {
        (rate * w).saturating_sub(999).div_ceil(1000)
    }
}

fn pick(rng: &mut Rng, xs: &[u64]) -> u64 {
    *rng.pick(xs)
}

/// `RANK(<sid>)` in a corpus line -> the byte-order rank of that script
fn resolve_ranks(line: &str) -> String {
    let mut out = String::new();
    let mut rest = line;
    while let Some(i) = rest.find("RANK(") {
        out += &rest[..i];
        let j = rest[i..].find(')').unwrap() + i;
        let sid: u64 = rest[i + 5..j].parse().unwrap();
        out += &script_rank(sid).to_string();
        rest = &rest[j + 1..];
    }
    out + rest
}

struct Dest {
    sid: u64,
    spend: bool, // path = the script's own wallet index
    allow: bool,
}

impl Group for C07 {
    fn property(&self) -> &'static str {
        "C07"
    }
    fn model(&self) -> Option<&'static str> {
        Some("mclose")
    }
    fn rule(&self) -> &'static str {
        "non-trivial = the channel reached a state with both current commitments by real updates, at least one closing request was answered, and the case contains both an accepted and a refused request"
    }
    fn budget(&self, tier: Tier) -> usize {
        match tier {
            Tier::Quick => 1500,
            Tier::Thorough => 30000,
        }
    }
    fn corpus(&self) -> Vec<Vec<String>> {
        let v = |s: &[&str]| s.iter().map(|x| resolve_ranks(x)).collect::<Vec<_>>();
        vec![
            // funder closes to its own wallet address, both phases; then no new holder commitment
            v(&[
                "policy 0 4 2016 1000000001 10000 1000 16777216 0 253 333333 222000 0",
                "setup 1 3000000 0 6 7 1 0 0 0",
                "cp 0 0 0 2999000 0 0 0",
                "hold 0 0 2999000 0 0 0 1",
                "revoke 0",
                "cp 1 0 0 1999000 1000000 0 0",
                "hold 1 0 1999000 1000000 0 0 1",
                "revoke 1",
                "close2 1998000 1000000 1 3 22 RANK(3) 1 0 1 20 22 RANK(20) 0 0",
                "close1 2 2 0 4294967295 1 2 1000000 20 22 RANK(20) 0 0 1998000 3 22 RANK(3) 1 0",
                "hold 2 0 1999000 1000000 0 0 1",
                "close2 1998000 1000000 1 20 22 RANK(20) 0 0 1 20 22 RANK(20) 0 0",
            ]),
            // former finding S1 (fixed by 3751e9c): with max_feerate_per_kw = u32::MAX a funder close burning 31 BTC as fee must be refused
            v(&[
                "policy 0 4 2016 10000000000 10000 1000 16777216 0 253 4294967295 222000 0",
                "setup 1 5000000000 0 6 7 1 0 0 0",
                "cp 0 0 0 4999999000 0 0 0",
                "hold 0 0 4999999000 0 0 0 1",
                "revoke 0",
                "close2 1899033614 0 1 1 22 RANK(1) 1 0 0 0 0 RANK(0) 0 0",
            ]),
            // allowlist at SIGNING time: upfront script X allowlisted at setup, removed before the close ->
            // the close to X must be refused (both entry points); re-added -> signed
            v(&[
                "policy 0 4 2016 1000000001 10000 1000 16777216 0 253 333333 222000 0",
                "allow 10",
                "setup 1 3000000 0 6 7 1 10 0 1",
                "cp 0 0 0 2999000 0 0 0",
                "hold 0 0 2999000 0 0 0 1",
                "revoke 0",
                "cp 1 0 0 1999000 1000000 0 0",
                "hold 1 0 1999000 1000000 0 0 1",
                "revoke 1",
                "allow",
                "close2 1998000 1000000 1 10 22 RANK(10) 0 0 1 20 22 RANK(20) 0 0",
                "close1 2 2 0 4294967295 1 2 1000000 20 22 RANK(20) 0 0 1998000 10 22 RANK(10) 0 0",
                "allow 10",
                "close2 1998000 1000000 1 10 22 RANK(10) 0 1 1 20 22 RANK(20) 0 0",
            ]),
            // durable allowlist: X is allowlisted, then removed by a multi-entry removal whose last entry is not on
            // the list; after a restart from the real persister X must still be gone: closes paying the holder
            // to X are refused through both entry points; re-added and restarted: signed
            v(&[
                "policy 0 4 2016 1000000001 10000 1000 16777216 0 253 333333 222000 0",
                "allow 10 11",
                "setup 1 3000000 0 6 7 1 0 0 0",
                "cp 0 0 0 2999000 0 0 0",
                "hold 0 0 2999000 0 0 0 1",
                "revoke 0",
                "allow_rm 10 21",
                "restart",
                "close2 2998000 0 1 10 22 RANK(10) 0 0 0 0 0 0 0 0",
                "close1 1 2 0 4294967295 1 1 2998000 10 22 RANK(10) 0 0",
                "allow_add 10",
                "restart",
                "close2 2998000 0 1 10 22 RANK(10) 0 1 0 0 0 0 0 0",
            ]),
            // ordered filter with overlapping rules: [error exact policy-mutual-fee-range, warn prefix policy-mutual-]:
            // a close leaving far too much fee stays refused, an unknown destination is demoted
            v(&[
                "policy 0 4 2016 1000000001 10000 1000 16777216 0 253 333333 222000 0 2 14 0 0 1 1 1",
                "setup 1 3000000 0 6 7 1 0 0 0",
                "cp 0 0 0 2999000 0 0 0",
                "hold 0 0 2999000 0 0 0 1",
                "revoke 0",
                "close2 1000000 0 1 20 22 RANK(20) 0 0 0 0 0 0 0 0",
                "close2 2998000 0 1 20 22 RANK(20) 0 0 0 0 0 0 0 0",
            ]),
            // fundee: holder value must be within epsilon of both commitments
            v(&[
                "policy 0 4 2016 1000000001 10000 1000 16777216 0 253 333333 222000 0",
                "allow 10",
                "setup 0 3000000 0 6 7 3 0 0 0",
                "cp 0 0 0 0 2998000 0 0",
                "hold 0 0 0 2998000 0 0 1",
                "revoke 0",
                "cp 1 0 0 1000000 1998000 0 0",
                "hold 1 0 1005000 1993000 0 0 1",
                "revoke 1",
                "close2 989999 2008000 1 10 22 RANK(10) 0 1 1 21 34 RANK(21) 0 0",
                "close2 995000 2003000 1 10 22 RANK(10) 0 1 1 21 34 RANK(21) 0 0",
                "close1 2 2 0 4294967295 1 2 995000 10 22 RANK(10) 0 1 2003000 21 34 RANK(21) 0 0",
            ]),
        ]
    }
    fn gen_case(&self, rng: &mut Rng, _tier: Tier) -> Vec<String> {
        let mut ops = Vec::new();
        let mut pol = Pol::default_testnet();
        pol.eps = pick(rng, &[10_000, 10_000, 0, 1, 1_000, 1_000_000]);
        pol.min_fee = pick(rng, &[253, 253, 0, 1000]);
        pol.max_fee = pick(rng, &[333_333, 333_333, 25_000, 5_000, 4_294_967_294, 4_294_967_295]);
        pol.onchain = rng.chance(1, 5);
        pol.mask = match rng.below(14) {
            0 => 1 << (12 + rng.below(4)),
            1 => 1 << pick(rng, &[21, 22, 13, 15]),
            2 if rng.chance(1, 3) => 1 << BIT_PERMISSIVE,
            3 => 1 << BIT_NEAR_MISS,
            // exactly one tag demoted, any of them -- in particular tags of OTHER paths (e.g. the commitment fee
            // range): the mutual-close bounds must stay enforced, and each monitor is conditioned on its own tag only
            4 => 1 << rng.below(24),
            5 => (1 << 8) | (1 << rng.below(12)),
            _ => 0,
        };
        // ordered multi-rule filters with overlaps on a mutual-close tag
        if rng.chance(1, 6) {
            pol.rules = gen_overlap_rules(rng, &[12, 13, 14, 15, 21, 22]);
            if rng.chance(2, 3) { pol.mask = 0 }
        }
        let outbound = rng.chance(1, 2);
        let value: u64 = match rng.below(10) {
            0 => 5_000_000_000,
            1 => 10_000_000,
            2 => rng.range(1_000_000, 100_000_000),
            _ => 3_000_000,
        };
        pol.max_chan = pol.max_chan.max(value);
        ops.push(pol.line());
        // allowlist
        let mut allow: Vec<u64> = Vec::new();
        for s in [10u64, 11, 12, 2] {
            if rng.chance(1, 3) {
                allow.push(s);
            }
        }
        if !allow.is_empty() {
            ops.push(format!("allow {}", allow.iter().map(|s| s.to_string()).collect::<Vec<_>>().join(" ")));
        }
        // upfront shutdown script
        let (upfront, up_spend) = match rng.below(10) {
            0 | 1 => (pick(rng, &[1, 2, 3, 4]), true),
            2 => (pick(rng, &[10, 11]), false),
            3 => (pick(rng, &[20, 3]), false),
            _ => (0, false),
        };
        let up_allow = upfront != 0 && allow.contains(&upfront);
        let ctype = pick(rng, &[1, 3]);
        let setup = SetupNums { outbound, value, push: 0, holder_delay: 6, cp_delay: 7, ctype, upfront, up_spend, up_allow };
        // a third of the cases (without chain ops: the harness feeds blocks to the tracker directly, which the
        // node does not persist) run on the real persister: incremental allowlist updates and restarts between
        // the closes -- what was removed from / added to the allowlist must stay so across a restart
        let durable = !pol.onchain && rng.chance(1, 2);
        // otherwise sometimes the channel is set up with a permanent channel id different from its initial one (as
        // LDK-style integrations do): it is ONE channel reachable under both ids, and the requests alternate
        let two_ids = !durable && rng.chance(1, 3);
        ops.push(if two_ids { format!("{} {}", setup.line(), 1 + rng.below(2)) } else { setup.line() });
        // ---- reach a state by real updates ----
        let base_w: u128 = if ctype == 3 { 1124 } else { 724 };
        let f0 = fee_for_rate(1000 + rng.below(2000) as u128, base_w, false) as u64;
        let (h0, c0) = if outbound { (value - f0, 0) } else { (0, value - f0) };
        // usually both sides' commitment 0; sometimes only one of them exists when the close is requested
        let skip = rng.below(16);
        if skip != 0 {
            ops.push(Commit { n: 0, feerate: 0, to_holder: h0, to_cp: c0, offered: vec![], received: vec![] }.cp_line(0));
        }
        if skip != 1 {
            ops.push(Commit { n: 0, feerate: 0, to_holder: h0, to_cp: c0, offered: vec![], received: vec![] }.hold_line(true));
            ops.push("revoke 0".into());
        }
        // commitment 1: balances A (holder) / B (counterparty); the two sides' views differ by d
        let f1 = f0 + rng.below(500);
        let a = match rng.below(8) {
            0 => 0,
            1 => value - f1,
            // both sides' balances within epsilon of each other: the likely/unlikely guess matters
            2 | 3 => ((value - f1) / 2).saturating_sub(pol.eps / 2) + rng.below(pol.eps + 2),
            _ => rng.range(400, value - f1 - 400),
        };
        let b = value - f1 - a;
        let d = pick(rng, &[0, 0, 0, 1, pol.eps, pol.eps + 1, pol.eps.saturating_sub(1), pol.eps / 2]);
        let clean = |x: u64| if x > 0 && x < 354 { 0 } else { x };
        // holder's own commitment: holder has A, counterparty B; counterparty's commitment: shifted by d
        let (ah, bh) = (clean(a), clean(b));
        let (ac, bc) = if rng.chance(1, 2) {
            (clean(a.saturating_sub(d)), clean(b + d.min(a)))
        } else {
            (clean(a + d.min(b)), clean(b.saturating_sub(d)))
        };
        let pending = rng.below(8);
        let htlc_cp = if pending == 0 { vec![(5_000u64, 1_000u64)] } else { vec![] };
        let htlc_h = if pending == 1 { vec![(5_000u64, 1_000u64)] } else { vec![] };
        let sub = |x: u64, l: &Vec<(u64, u64)>| x.saturating_sub(l.iter().map(|p| p.0).sum::<u64>());
        let depth = rng.below(5);
        let mut alt_ah: Option<u64> = None;
        if depth > 0 {
            if pol.onchain {
                ops.push("chain 1000 3 0".into());
            }
            // the counterparty's commitment: HTLC offered by the counterparty (incoming to the holder)
            let cm_c = if bc >= 5_400 || htlc_cp.is_empty() {
                Commit { n: 1, feerate: 0, to_holder: ac, to_cp: clean(sub(bc, &htlc_cp)), offered: htlc_cp.clone(), received: vec![] }
            } else {
                Commit { n: 1, feerate: 0, to_holder: ac, to_cp: bc, offered: vec![], received: vec![] }
            };
            ops.push(cm_c.cp_line(2 * rng.chance(1, 3) as u64));
            if depth > 1 {
                let cm_h = if bh >= 5_400 || htlc_h.is_empty() {
                    Commit { n: 1, feerate: 0, to_holder: ah, to_cp: clean(sub(bh, &htlc_h)), offered: vec![], received: htlc_h.clone() }
                } else {
                    Commit { n: 1, feerate: 0, to_holder: ah, to_cp: bh, offered: vec![], received: vec![] }
                };
                // the counterparty's commitment_signed for holder commitment 1 may be validated more than once before the
                // revocation (re-sent after a reconnect), with another content: the LAST validated content is the one in
                // force.  First an older version (smaller holder balance / without the HTLC), then the real one
                if rng.chance(1, 3) {
                    let shift = (2 * pol.eps + 2 + rng.below(5_000)).min(ah);
                    let alt = if rng.chance(1, 2) || cm_h.received.is_empty() {
                        Commit { n: 1, feerate: 0, to_holder: clean(ah - shift), to_cp: clean(cm_h.to_cp + shift), offered: vec![], received: cm_h.received.clone() }
                    } else {
                        Commit { n: 1, feerate: 0, to_holder: ah, to_cp: bh, offered: vec![], received: vec![] }
                    };
                    alt_ah = Some(alt.to_holder);
                    ops.push(alt.hold_line_x(true, rng.chance(1, 3)));
                }
                ops.push(cm_h.hold_line_x(true, rng.chance(1, 3)));
                if depth > 2 {
                    ops.push("revoke 1".into());
                    if rng.chance(1, 2) {
                        ops.push("cprevoke 0".into());
                    }
                }
            }
        }
        // current values as the generator expects them (if everything above was accepted)
        let (cur_ah, cur_bh) = if depth > 2 { (ah, bh) } else { (h0, c0) };
        let (cur_ac, cur_bc) = if depth > 0 { (ac, bc) } else { (h0, c0) };
        // ---- closing requests ----
        let nclose = 2 + rng.below(4);
        let mut last_removed: Option<u64> = None;
        for j in 0..nclose {
            if durable && (j == 0 || rng.chance(1, 2)) {
                // incremental update; removal lists may name entries that are not (or no longer) on the list,
                // in any position
                let all = [10u64, 11, 12, 20, 21, 2];
                if rng.chance(1, 2) && !allow.is_empty() {
                    let mut rm: Vec<u64> = Vec::new();
                    let k = rng.below(allow.len() as u64) as usize;
                    rm.push(allow[k]);
                    if upfront != 0 && allow.contains(&upfront) && rng.chance(1, 2) { rm.push(upfront) }
                    let absent: Vec<u64> = all.iter().cloned().filter(|x| !allow.contains(x)).collect();
                    if !absent.is_empty() && rng.chance(5, 6) {
                        let x = *rng.pick(&absent);
                        if rng.chance(1, 2) { rm.push(x) } else { rm.insert(0, x) }
                    }
                    rm.dedup();
                    last_removed = rm.iter().cloned().find(|x| allow.contains(x));
                    allow.retain(|x| !rm.contains(x));
                    ops.push(format!("allow_rm {}", rm.iter().map(|x| x.to_string()).collect::<Vec<_>>().join(" ")));
                } else {
                    let mut add: Vec<u64> = vec![*rng.pick(&all)];
                    if rng.chance(1, 2) { add.push(*rng.pick(&all)) }
                    add.dedup();
                    for x in &add { if !allow.contains(x) { allow.push(*x) } }
                    ops.push(format!("allow_add {}", add.iter().map(|x| x.to_string()).collect::<Vec<_>>().join(" ")));
                }
                if rng.chance(5, 6) {
                    ops.push("restart".into());
                }
            }
            // the allowlist changes between open and close (and between closes): scripts are added and
            // removed, in particular the upfront shutdown script -- what counts is the content at signing time
            if (j == 0 && rng.chance(1, 2)) || rng.chance(1, 6) {
                match rng.below(4) {
                    0 if upfront != 0 => allow.retain(|s| *s != upfront),
                    1 => { let s = pick(rng, &[10, 11, 12, 20]); if !allow.contains(&s) { allow.push(s) } }
                    2 => { if !allow.is_empty() { let k = rng.below(allow.len() as u64) as usize; allow.remove(k); } }
                    _ => allow.clear(),
                }
                ops.push(format!("allow {}", allow.iter().map(|s| s.to_string()).collect::<Vec<_>>().join(" ")).trim_end().to_string());
            }
            // destination of the holder output
            // right after a removal: try to close to the destination that was just removed
            let removed_now = if rng.chance(2, 3) { last_removed.take() } else { None };
            let hd = if let Some(x) = removed_now {
                Dest { sid: x, spend: false, allow: allow.contains(&x) }
            } else { match if upfront != 0 && rng.chance(1, 2) { 9 } else { rng.below(10) } {
                0 | 1 | 2 => { let s = pick(rng, &[1, 2, 3, 4, 5, 6]); Dest { sid: s, spend: true, allow: allow.contains(&s) } }
                3 => { let s = pick(rng, &[1, 2, 3, 4]); Dest { sid: s, spend: false, allow: allow.contains(&s) } }
                4 | 5 => { let s = pick(rng, &[10, 11, 12]); Dest { sid: s, spend: false, allow: allow.contains(&s) } }
                6 => { let s = pick(rng, &[20, 21, 22]); Dest { sid: s, spend: false, allow: allow.contains(&s) } }
                _ if upfront != 0 => Dest { sid: upfront, spend: up_spend && rng.chance(3, 4), allow: allow.contains(&upfront) },
                _ => { let s = pick(rng, &[1, 2, 3, 4]); Dest { sid: s, spend: true, allow: allow.contains(&s) } }
            } };
            let cd = { let s = pick(rng, &[20, 21, 22, 10, 11, 12]); Dest { sid: s, spend: false, allow: allow.contains(&s) } };
            // the combination "holder destination unknown, counterparty destination known (allowlisted)": only the
            // HOLDER's script has to be wallet-derivable or allowlisted, whatever the other one is
            let (hd, cd) = if !allow.is_empty() && rng.chance(1, 8) {
                let k = *rng.pick(&allow);
                let u = pick(rng, &[20, 21, 22]);
                (Dest { sid: u, spend: false, allow: allow.contains(&u) }, Dest { sid: k, spend: false, allow: true })
            } else { (hd, cd) };
            // value of the side that does not pay the fee, at the ε edges of one of the two commitments
            let due = if outbound { if rng.chance(1, 2) { cur_bc } else { cur_bh } } else if rng.chance(1, 2) { cur_ah } else { cur_ac };
            // ... or of the version of the holder commitment that was validated first and then superseded
            let due = match alt_ah { Some(x) if !outbound && depth > 2 && rng.chance(1, 3) => x, _ => due };
            let fixed = match rng.below(9) {
                0 => due.saturating_add(pol.eps),
                1 => due.saturating_add(pol.eps + 1),
                2 => due.saturating_sub(pol.eps),
                3 => due.saturating_sub(pol.eps + 1),
                4 => due.saturating_add(1),
                _ => due,
            };
            let fixed = fixed.min(value);
            // fee at the edges of the feerate range, on the weight of the 2-output transaction
            let mk = |fee: u64| -> (u64, u64) {
                let rest = value.saturating_sub(fixed).saturating_sub(fee);
                if outbound { (rest, fixed) } else { (fixed, rest) }
            };
            let w2 = close_weight(&[(1, hd.sid), (1, cd.sid)]);
            let fee = match rng.below(9) {
                0 => fee_for_rate(pol.min_fee as u128, w2, false).saturating_sub(1),
                1 => fee_for_rate(pol.min_fee as u128, w2, false),
                2 => fee_for_rate(pol.max_fee as u128, w2, true),
                3 => fee_for_rate(pol.max_fee as u128, w2, true) + 1,
                4 => (1u128 << 32) * w2 / 1000 + 700,
                _ => fee_for_rate(1000 + rng.below(5000) as u128, w2, false),
            }
            .min(value as u128) as u64;
            let (mut hv, mut cv) = mk(fee);
            match rng.below(14) {
                0 => hv = 0,
                1 => cv = 0,
                2 => hv = hv.saturating_add(value), // outputs above the channel value
                3 => cv = u64::MAX - hv.min(5),     // sum overflow candidates
                // a small holder output (at / below / just above the dust limit, a few thousand sat)
                4 => hv = pick(rng, &[1, 353, 354, 355, 1000, 3540, 3541]),
                // the two values attributed to the wrong sides
                5 => std::mem::swap(&mut hv, &mut cv),
                _ => {}
            }
            let phase1 = rng.chance(1, 2);
            if !phase1 {
                let hp = !(rng.chance(1, 12) || (hv == 0 && rng.chance(1, 2)));
                let cp = !(rng.chance(1, 12) || (cv == 0 && rng.chance(1, 2)));
                ops.push(format!(
                    "close2 {} {} {} {} {} {} {} {} {} {} {} {} 0 {}",
                    hv, cv, hp as u8, hd.sid, script_len(hd.sid), script_rank(hd.sid), (hd.spend && is_wallet_sid(hd.sid)) as u8, hd.allow as u8,
                    cp as u8, cd.sid, script_len(cd.sid), script_rank(cd.sid), cd.allow as u8
                ));
            } else {
                // the transaction: outputs (value, sid, len, canSpend-under-its-path, allowlisted)
                let mut outs: Vec<(u64, &Dest)> = Vec::new();
                if hv > 0 || rng.chance(1, 10) { outs.push((hv, &hd)) }
                if cv > 0 || rng.chance(1, 10) { outs.push((cv, &cd)) }
                let extra = Dest { sid: 22, spend: false, allow: false };
                if rng.chance(1, 25) { outs.push((1000, &extra)) }
                // canonical order = by (value, script bytes); sometimes the other order
                outs.sort_by(|x, y| x.0.cmp(&y.0).then_with(|| script_bytes(x.1.sid).cmp(script_bytes(y.1.sid))));
                if outs.len() == 2 && rng.chance(1, 8) { outs.swap(0, 1) }
                // header fields as the caller supplies them: mostly the canonical ones
                let ver = if rng.chance(1, 20) { pick(rng, &[1, 3]) } else { 2 };
                let lt = if rng.chance(1, 20) { pick(rng, &[1, 500_000, 4_294_967_295]) } else { 0 };
                let sq = if rng.chance(1, 20) { pick(rng, &[0, 4_294_967_293, 4_294_967_294]) } else { 4_294_967_295 };
                let op = if rng.chance(1, 20) { 2 } else { 1 };
                let npaths = if rng.chance(1, 20) { outs.len() + 1 } else { outs.len() };
                let mut l = format!("close1 {} {} {} {} {} {}", npaths, ver, lt, sq, op, outs.len());
                for (v, dd) in &outs {
                    l += &format!(" {} {} {} {} {} {}", v, dd.sid, script_len(dd.sid), script_rank(dd.sid), (dd.spend && is_wallet_sid(dd.sid)) as u8, dd.allow as u8);
                }
                ops.push(l);
            }
            // after a close: new holder commitments must be refused, retries are fine
            if j + 1 < nclose && rng.chance(1, 4) {
                let nn = if depth > 2 { 2 } else { 1 };
                ops.push(Commit { n: nn, feerate: 0, to_holder: cur_ah, to_cp: cur_bh, offered: vec![], received: vec![] }.hold_line(true));
                if rng.chance(1, 2) { ops.push(format!("revoke {}", nn)) }
            }
        }
        ops
    }
    fn exec_case(&self, ops: &[String]) -> CaseOut {
        let mut out = run_case(ops);
        let closes = ops.iter().zip(out.out.iter()).filter(|(o, r)| o.starts_with("close") && !r.starts_with("dead") && !r.starts_with("nochan")).count();
        let signed = out.tags.contains("close:signed");
        let refused = ops.iter().zip(out.out.iter()).any(|(o, r)| o.starts_with("close") && r.starts_with("err"));
        out.nontrivial = closes > 0 && signed && refused;
        if signed { out.tags.insert("case:signed".into()); }
        out
    }
}

pub fn groups() -> Vec<Box<dyn Group>> {
    vec![Box::new(C07), Box::new(wire::C07Wire)]
}
