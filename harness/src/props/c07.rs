//! C07 — placeholder until the generator is written.
use crate::common::*;

pub fn groups() -> Vec<Box<dyn Group>> {
    vec![]
}
