//! Shared execution world for C05 and C07: a real `Node` + channel driven by the op lines that are
//! also fed to the Lean model `policy`/`mclose`, and the independent big-int monitors.
//!
//! Line protocol: see `lean/VlsModel/Drv/Policy.lean`.  Everything the implementation decides goes
//! through the public entry points (`Node::setup_channel`, `Channel::sign_counterparty_commitment_tx_phase2`,
//! `validate_holder_commitment_tx_phase2`, `revoke_previous_holder_commitment`,
//! `validate_counterparty_revocation`, `sign_mutual_close_tx(_phase2)`).
#![allow(dead_code)]
use crate::common::*;
use lightning_signer::bitcoin::absolute::LockTime;
use lightning_signer::bitcoin::bip32::{ChildNumber, DerivationPath};
use lightning_signer::bitcoin::hashes::Hash;
use lightning_signer::bitcoin::secp256k1::{self, Message, PublicKey, Secp256k1, SecretKey};
use lightning_signer::bitcoin::sighash::{EcdsaSighashType, SighashCache};
use lightning_signer::bitcoin::transaction::Version;
use lightning_signer::bitcoin::consensus::serialize;
use lightning_signer::bitcoin::{
    Address, Amount, Block, Network, OutPoint, ScriptBuf, Sequence, Transaction, TxIn, TxOut, Txid, Witness,
};
use lightning_signer::chain::tracker::ChainTracker;
use lightning_signer::monitor::ChainMonitor;
use lightning_signer::txoo::proof::{ProofType, TxoProof};
use lightning_signer::channel::{ChannelId, ChannelSetup, CommitmentType};
use lightning_signer::lightning::ln::chan_utils::{build_commitment_secret, make_funding_redeemscript};
use lightning_signer::lightning::sign::ChannelSigner;
use lightning_signer::lightning::types::payment::PaymentHash;
use lightning_signer::monitor::ChainMonitorBase;
use lightning_signer::node::{Node, NodeServices, SpendType};
use lightning_signer::persist::Persist;
use lightning_signer::util::clock::StandardClock;
use vls_persist::kvv::memory::MemoryKVVStore;
use vls_persist::kvv::{JsonFormat, KVVPersister};
use lightning_signer::policy::filter::{FilterResult, FilterRule, PolicyFilter};
use lightning_signer::policy::onchain_validator::OnchainValidatorFactory;
use lightning_signer::policy::simple_validator::{
    make_default_simple_policy, SimplePolicy, SimpleValidatorFactory,
};
use lightning_signer::policy::validator::ValidatorFactory;
use lightning_signer::tx::tx::HTLCInfo2;
use lightning_signer::util::status::{Code, Status};
use lightning_signer::util::test_utils::key::{make_test_counterparty_points, make_test_pubkey};
use lightning_signer::util::test_utils::*;
use std::collections::BTreeSet;
use std::panic::{catch_unwind, AssertUnwindSafe};
use std::sync::Arc;

pub const U64MAX: u128 = u64::MAX as u128;
const INITIAL_COMMITMENT_NUMBER: u64 = (1 << 48) - 1;

/// tags in the order of `maskTags` in Drv/Policy.lean (bit k of the warn mask)
pub const MASK_TAGS: [&str; 24] = [
    "policy-channel-safe-type",
    "policy-channel-contest-delay-range-holder",
    "policy-channel-contest-delay-range-counterparty",
    "policy-funding-max",
    "policy-commitment-outputs-trimmed",
    "policy-commitment-htlc-count-limit",
    "policy-commitment-htlc-cltv-range",
    "policy-commitment-htlc-inflight-limit",
    "policy-commitment-fee-range",
    "policy-commitment-first-no-htlcs",
    "policy-commitment-initial-funding-value",
    "policy-commitment-spends-active-utxo",
    "policy-mutual-destination-allowlisted",
    "policy-mutual-no-pending-htlcs",
    "policy-mutual-fee-range",
    "policy-mutual-value-matches-commitment",
    "policy-commitment-previous-revoked",
    "policy-commitment-retry-same",
    "policy-commitment-holder-not-revoked",
    "policy-revoke-new-commitment-signed",
    "policy-revoke-not-closed",
    "policy-onchain-format-standard",
    "policy-mutual-other",
    "policy-other",
];
pub const BIT_SAFE_TYPE: u64 = 0;
pub const BIT_DELAY_HOLDER: u64 = 1;
pub const BIT_DELAY_CP: u64 = 2;
pub const BIT_FUNDING_MAX: u64 = 3;
pub const BIT_DUST: u64 = 4;
pub const BIT_COUNT: u64 = 5;
pub const BIT_CLTV: u64 = 6;
pub const BIT_INFLIGHT: u64 = 7;
pub const BIT_FEE: u64 = 8;
pub const BIT_FIRST: u64 = 9;
pub const BIT_INITIAL: u64 = 10;
pub const BIT_ACTIVE_UTXO: u64 = 11;
pub const BIT_MUTUAL_DEST: u64 = 12;
pub const BIT_MUTUAL_HTLCS: u64 = 13;
pub const BIT_MUTUAL_FEE: u64 = 14;
pub const BIT_MUTUAL_VALUE: u64 = 15;
pub const BIT_PERMISSIVE: u64 = 30;
/// bit 29: exact-match warn rules whose tags are proper PREFIXES of real tags; they must downgrade nothing
pub const BIT_NEAR_MISS: u64 = 29;
pub const NEAR_MISS_TAGS: [&str; 5] = ["policy-commitment-fee", "policy-commitment-htlc", "policy-commitment", "policy-mutual", "policy-channel-contest-delay-range"];

// constants of the reference predicates, written down independently of the Lean side (BOLT-3 /
// docs/policy-controls.md); if the implementation's constants change, the monitors say so.
const MIN_CHAN_DUST: u128 = 354;
const MIN_DUST: u128 = 330;
const HTLC_TIMEOUT_W: u128 = 663;
const HTLC_SUCCESS_W: u128 = 703;
const MAX_CLTV: u128 = 500_000_000;

#[derive(Clone, Debug)]
pub struct Pol {
    pub onchain: bool,
    pub min_delay: u64,
    pub max_delay: u64,
    pub max_chan: u64,
    pub eps: u64,
    pub max_htlcs: u64,
    pub max_htlc_value: u64,
    pub use_chain: bool,
    pub min_fee: u64,
    pub max_fee: u64,
    pub max_routing_fee: u64,
    pub mask: u64,
    /// explicit ORDERED rules evaluated before the mask-derived ones: (idx, kind, action) with kind 0 = exact
    /// rule on MASK_TAGS[idx], kind 1 = prefix rule on PREFIXES[idx]; action 0 = error, 1 = warn
    pub rules: Vec<(u64, u64, u64)>,
}

/// prefixes of explicit prefix rules (same table as `prefixTable` in Drv/Policy.lean)
pub const PREFIXES: [&str; 14] = ["policy-commitment-", "policy-mutual-", "policy-", "policy-channel-", "policy-commitment-htlc-",
    "policy-commitment-fee", "", "policy-onchain-", "policy-revoke-", "policy-funding-",
    // (10..) LONGER than the real tags they extend: as prefix rules they match no real tag and must downgrade nothing
    "policy-commitment-fee-range-x", "policy-commitment-outputs-trimmed-more", "policy-mutual-fee-range-x",
    "policy-commitment-htlc-count-limit2"];
/// indices of the over-long entries of `PREFIXES`
pub const OVERLONG: [u64; 4] = [10, 11, 12, 13];

impl Pol {
    pub fn default_testnet() -> Pol {
        let p = make_default_simple_policy(Network::Testnet);
        Pol {
            onchain: false,
            min_delay: p.min_delay as u64,
            max_delay: p.max_delay as u64,
            max_chan: p.max_channel_size_sat,
            eps: p.epsilon_sat,
            max_htlcs: p.max_htlcs as u64,
            max_htlc_value: p.max_htlc_value_sat,
            use_chain: p.use_chain_state,
            min_fee: p.min_feerate_per_kw as u64,
            max_fee: p.max_feerate_per_kw as u64,
            max_routing_fee: p.max_routing_fee_msat,
            mask: 0,
            rules: Vec::new(),
        }
    }
    pub fn line(&self) -> String {
        let mut l = format!(
            "policy {} {} {} {} {} {} {} {} {} {} {} {}",
            self.onchain as u8, self.min_delay, self.max_delay, self.max_chan, self.eps, self.max_htlcs,
            self.max_htlc_value, self.use_chain as u8, self.min_fee, self.max_fee, self.max_routing_fee, self.mask
        );
        if !self.rules.is_empty() {
            l += &format!(" {}", self.rules.len());
            for (i, k, a) in &self.rules {
                l += &format!(" {} {} {}", i, k, a);
            }
        }
        l
    }
    /// the whole rule list in evaluation order: (tag, is_prefix, warn)
    pub fn rule_list(&self) -> Vec<(String, bool, bool)> {
        let mut rules: Vec<(String, bool, bool)> = Vec::new();
        for (i, k, a) in &self.rules {
            let tag = if *k == 0 { MASK_TAGS[*i as usize] } else { PREFIXES[*i as usize] };
            rules.push((tag.to_string(), *k != 0, *a != 0));
        }
        if self.mask & (1 << BIT_PERMISSIVE) != 0 {
            rules.push(("".to_string(), true, true));
        }
        if self.mask & (1 << BIT_NEAR_MISS) != 0 {
            for t in NEAR_MISS_TAGS.iter() {
                rules.push((t.to_string(), false, true));
            }
        }
        for (k, t) in MASK_TAGS.iter().enumerate() {
            if self.mask & (1 << k) != 0 {
                rules.push((t.to_string(), false, true));
            }
        }
        rules
    }
    pub fn parse(a: &[u64]) -> Option<Pol> {
        if a.len() < 12 || a[1] > 65535 || a[2] > 65535 || a[8] > u32::MAX as u64 || a[9] > u32::MAX as u64 {
            return None;
        }
        let mut rules = Vec::new();
        if a.len() > 12 {
            let k = a[12] as usize;
            if a.len() != 13 + 3 * k {
                return None;
            }
            for j in 0..k {
                let (i, kind, act) = (a[13 + 3 * j], a[14 + 3 * j], a[15 + 3 * j]);
                if kind > 1 || act > 1 || (kind == 0 && i as usize >= MASK_TAGS.len()) || (kind == 1 && i as usize >= PREFIXES.len()) {
                    return None;
                }
                rules.push((i, kind, act));
            }
        }
        Some(Pol {
            onchain: a[0] != 0, min_delay: a[1], max_delay: a[2], max_chan: a[3], eps: a[4], max_htlcs: a[5],
            max_htlc_value: a[6], use_chain: a[7] != 0, min_fee: a[8], max_fee: a[9], max_routing_fee: a[10], mask: a[11],
            rules,
        })
    }
    /// does the filter keep this tag an error?  The oracle's OWN evaluation of the documented semantics: rules are
    /// processed in order, the first match decides, no match = error (never the filter code under test)
    pub fn errs(&self, bit: u64) -> bool {
        let tag = MASK_TAGS[bit as usize];
        for (t, is_prefix, warn) in self.rule_list() {
            let hit = if is_prefix { tag.len() >= t.len() && &tag[..t.len()] == t.as_str() } else { tag == t };
            if hit {
                return !warn;
            }
        }
        true
    }
    pub fn simple_policy(&self) -> SimplePolicy {
        let mut p = make_default_simple_policy(Network::Testnet);
        p.min_delay = self.min_delay as u16;
        p.max_delay = self.max_delay as u16;
        p.max_channel_size_sat = self.max_chan;
        p.epsilon_sat = self.eps;
        p.max_htlcs = self.max_htlcs as usize;
        p.max_htlc_value_sat = self.max_htlc_value;
        p.use_chain_state = self.use_chain;
        p.min_feerate_per_kw = self.min_fee as u32;
        p.max_feerate_per_kw = self.max_fee as u32;
        p.max_routing_fee_msat = self.max_routing_fee;
        let rules: Vec<FilterRule> = self
            .rule_list()
            .into_iter()
            .map(|(tag, is_prefix, warn)| FilterRule { tag, is_prefix, action: if warn { FilterResult::Warn } else { FilterResult::Error } })
            .collect();
        p.filter = PolicyFilter { rules };
        p
    }
    pub fn factory(&self) -> Arc<dyn ValidatorFactory> {
        let simple = SimpleValidatorFactory::new_with_policy(self.simple_policy());
        if self.onchain {
            Arc::new(OnchainValidatorFactory::new_with_simple_factory(simple))
        } else {
            Arc::new(simple)
        }
    }
}

/// An ordered multi-rule filter whose rules OVERLAP on one of `bits`: exact-error before prefix-warn and the
/// reverse, duplicate tags with different actions, prefix-error before exact-warn and the reverse, a narrow prefix
/// before/after the catch-all; sometimes with an unrelated rule in front or behind.
pub fn gen_overlap_rules(rng: &mut Rng, bits: &[u64]) -> Vec<(u64, u64, u64)> {
    let t = *rng.pick(bits);
    let tag = MASK_TAGS[t as usize];
    let covering: Vec<u64> = (0..PREFIXES.len() as u64).filter(|i| tag.starts_with(PREFIXES[*i as usize])).collect();
    let pfx = *rng.pick(&covering);
    let narrow: Vec<u64> = covering.iter().cloned().filter(|i| !PREFIXES[*i as usize].is_empty()).collect();
    let npfx = if narrow.is_empty() { pfx } else { *rng.pick(&narrow) };
    let mut rules = match rng.below(10) {
        0 => vec![(t, 0, 0), (pfx, 1, 1)],
        1 => vec![(pfx, 1, 1), (t, 0, 0)],
        2 => vec![(t, 0, 1), (t, 0, 0)],
        3 => vec![(t, 0, 0), (t, 0, 1)],
        4 => vec![(pfx, 1, 0), (t, 0, 1)],
        5 => vec![(t, 0, 1), (pfx, 1, 0)],
        6 => vec![(npfx, 1, 0), (6, 1, 1)],
        7 => vec![(6, 1, 1), (t, 0, 0)],
        8 => vec![(npfx, 1, 1), (npfx, 1, 0)],
        _ => vec![(t, 0, 0), (npfx, 1, 1), (6, 1, 0)],
    };
    if rng.chance(1, 3) {
        let extra = (rng.below(MASK_TAGS.len() as u64), 0, rng.below(2));
        if rng.chance(1, 2) { rules.insert(0, extra) } else { rules.push(extra) }
    }
    // a warn prefix rule whose prefix is LONGER than the tag it extends, in front: it matches nothing
    if rng.chance(1, 4) {
        rules.insert(0, (*rng.pick(&OVERLONG), 1, 1));
    }
    rules
}

#[derive(Clone, Debug)]
pub struct SetupNums {
    pub outbound: bool,
    pub value: u64,
    pub push: u64,
    pub holder_delay: u64,
    pub cp_delay: u64,
    pub ctype: u64,
    pub upfront: u64,
    pub up_spend: bool,
    pub up_allow: bool,
}

impl SetupNums {
    pub fn line(&self) -> String {
        format!(
            "setup {} {} {} {} {} {} {} {} {}",
            self.outbound as u8, self.value, self.push, self.holder_delay, self.cp_delay, self.ctype,
            self.upfront, self.up_spend as u8, self.up_allow as u8
        )
    }
    pub fn anchors(&self) -> bool {
        self.ctype >= 2
    }
    pub fn zero_fee(&self) -> bool {
        self.ctype == 3
    }
}

#[derive(Clone, Debug)]
pub struct Commit {
    pub n: u64,
    pub feerate: u64,
    pub to_holder: u64,
    pub to_cp: u64,
    pub offered: Vec<(u64, u64)>,
    pub received: Vec<(u64, u64)>,
}

impl Commit {
    pub fn body(&self) -> String {
        let mut s = format!("{} {} {} {}", self.feerate, self.to_holder, self.to_cp, self.offered.len());
        for (v, e) in &self.offered {
            s += &format!(" {} {}", v, e);
        }
        s += &format!(" {}", self.received.len());
        for (v, e) in &self.received {
            s += &format!(" {} {}", v, e);
        }
        s
    }
    pub fn cp_line(&self, pv: u64) -> String {
        format!("cp {} {} {}", self.n, pv, self.body())
    }
    pub fn hold_line(&self, sigok: bool) -> String {
        format!("hold {} {} {}", self.n, self.body(), sigok as u8)
    }
    /// last field: bit 0 = good signatures, bit 1 = phase-1 entry point
    pub fn hold_line_x(&self, sigok: bool, phase1: bool) -> String {
        format!("hold {} {} {}", self.n, self.body(), sigok as u8 + 2 * phase1 as u8)
    }
    /// parse `<feerate> <toHolder> <toCp> <k> .. <m> ..` + rest
    pub fn parse(n: u64, a: &[u64]) -> Option<(Commit, Vec<u64>)> {
        if a.len() < 5 || a[0] > u32::MAX as u64 {
            return None;
        }
        let mut i = 3;
        let mut lists = Vec::new();
        for _ in 0..2 {
            let k = *a.get(i)? as usize;
            i += 1;
            if k > 5000 {
                return None;
            }
            let mut l = Vec::new();
            for _ in 0..k {
                let v = *a.get(i)?;
                let e = *a.get(i + 1)?;
                if e > u32::MAX as u64 {
                    return None;
                }
                l.push((v, e));
                i += 2;
            }
            lists.push(l);
        }
        let received = lists.pop().unwrap();
        let offered = lists.pop().unwrap();
        Some((Commit { n, feerate: a[0], to_holder: a[1], to_cp: a[2], offered, received }, a[i..].to_vec()))
    }
}

fn payment_hash(side: u8, idx: usize, value: u64) -> PaymentHash {
    let mut h = [0x5au8; 32];
    h[0] = side;
    h[1..9].copy_from_slice(&(idx as u64).to_le_bytes());
    h[9..17].copy_from_slice(&value.to_le_bytes());
    PaymentHash(h)
}

fn htlc_infos(side: u8, l: &[(u64, u64)]) -> Vec<HTLCInfo2> {
    l.iter()
        .enumerate()
        .map(|(i, (v, e))| HTLCInfo2 { value_sat: *v, payment_hash: payment_hash(side, i, *v), cltv_expiry: *e as u32 })
        .collect()
}

/// Coarse class of a refusal, from the status (message keywords; the model prints the same classes).
pub fn classify(st: &Status) -> &'static str {
    let m = st.message();
    if st.code() == Code::Temporary {
        return "chain";
    }
    let table: &[(&str, &str)] = &[
        ("unsafe commitment type", "safetype"),
        ("contest-delay too", "delay"),
        ("is not in wallet or allowlist", "dest"),
        ("not to wallet or in allowlist", "dest"),
        ("missing holder_script", "dest"),
        ("missing counterparty_script", "dest"),
        ("doesn't match upfront", "dest"),
        ("channel value overflow", "overflow"),
        ("HTLC value overflow", "overflow"),
        ("consumed overflow", "value"),
        ("less than dust limit", "dust"),
        ("too many HTLCs", "count"),
        ("expiry too", "expiry"),
        ("sum of HTLC values", "inflight"),
        ("fee underflow", "fee"),
        ("feerate below", "fee"),
        ("feerate above", "fee"),
        ("initial commitment may", "first"),
        ("funding is not buried", "chain"),
        ("after closed on-chain", "chain"),
        ("channel is closing", "chain"),
        ("invalid attempt to sign counterparty commit_num", "seq"),
        ("retry of sign_counterparty_commitment", "seq"),
        ("retry holder commitment", "seq"),
        ("can't validate revoked", "seq"),
        ("too small relative", "seq"),
        ("too large relative", "seq"),
        ("invalid progression", "seq"),
        ("get_per_commitment_point", "seq"),
        ("cannot revoke", "seq"),
        ("can't set next", "seq"),
        ("next_holder_commit_info.is_none", "seq"),
        ("invalid counterparty revoke_num", "seq"),
        ("revocation commit point mismatch", "seq"),
        ("does not chain", "seq"),
        ("sig verify failed", "sig"),
        ("pending htlcs", "htlcs"),
        ("to_counterparty_value", "value"),
        ("to_holder_value", "value"),
        ("commit_info missing", "value"),
        ("recomposed tx mismatch", "format"),
        ("invalid number of outputs", "format"),
        ("beneficial channel value underflow", "balance"),
        ("unbalanced payments", "balance"),
        ("bad opath len", "other"),
        ("too large", "size"),
    ];
    // "contest-delay too large" must win over the generic "too large"
    for (k, c) in table {
        if m.contains(k) {
            return c;
        }
    }
    "other"
}

pub struct ChanWorld {
    /// false: `setup_channel` refused this setup; the channel id exists as a stub and every later request on
    /// it is still sent to the implementation (it must answer "channel not ready")
    pub ready: bool,
    pub node_ctx: TestNodeContext,
    pub chan_ctx: TestChannelContext,
    pub setup: SetupNums,
    /// the real funding transaction (its txid:0 is the channel's funding outpoint)
    pub funding_tx: Transaction,
    /// blocks connected through the real tracker by `blk` ops (tip last)
    pub blocks: Vec<Block>,
    /// 0 = chain untouched, 1 = monitor state forced by `chain`, 2 = real blocks (`blk`/`unblk`)
    pub chain_mode: u8,
    pub filler: u32,
    /// monitor's own record: contents already signed (counterparty) / validated (holder), per number
    pub seen_cp: BTreeSet<String>,
    pub seen_hold: BTreeSet<String>,
    /// the harness's OWN record of the chain as fed to the signer: (height, funding depth, closing depth)
    /// from the numbers of the last `chain` op or from the kinds of the blocks connected by `blk`/`unblk`
    /// (never read back from the monitor under test)
    pub own_chain: (u64, u64, u64),
    pub own_kinds: Vec<u64>,
    /// height at which the channel was set up: 3 seed headers + the blocks that arrived between the creation of the
    /// stub (`new_channel`) and `setup_channel` (optional last token of the `setup` op)
    pub base_h: u64,
    /// the ids under which the channel is reachable: the initial id, and the permanent id when `setup_channel` was
    /// given one (optional 10th token of the `setup` op); requests alternate between them
    pub ids: Vec<ChannelId>,
    /// index into `ids` of the id used for every request before the first closing signature
    pub build_id: usize,
    pub close_signed: bool,
    /// the harness's OWN ledger of the latest commitments, kept from the requests the signer ACCEPTED (never read
    /// back from the signer's enforcement state): next holder / counterparty numbers, the validated holder
    /// commitment that is not yet revoked-into-current (the LAST accepted content for that number), the current
    /// holder and counterparty commitments.  The mutual-close monitors evaluate the close against these.
    pub led_nh: u64,
    pub led_nc: u64,
    pub led_pending: Option<Commit>,
    pub led_hold: Option<Commit>,
    pub led_cp: Option<Commit>,
}

/// Deliver a block connection the way the front end does: compact proof, or streamed when the compact
/// filter has a false positive (same recipe as the C13–C15 world).
fn deliver_add(tracker: &mut ChainTracker<ChainMonitor>, block: &Block) -> Result<(), String> {
    let tip = tracker.tip().clone();
    let h = tracker.height();
    let proof = TxoProof::prove_unchecked(block, &tip.1, h + 1);
    let secp = Secp256k1::new();
    let watches = tracker.get_all_forward_watches().1;
    let zero = tip.1.to_byte_array().iter().all(|x| *x == 0);
    let fp = !zero && proof.verify(h + 1, &block.header, None, &tip.1, &watches, &secp).is_err();
    if fp {
        let ext = TxoProof { attestations: proof.attestations.clone(), proof: ProofType::ExternalBlock() };
        tracker.block_chunk(block.block_hash(), 0, &serialize(block)).map_err(|e| format!("{:?}", e))?;
        tracker.add_block(block.header, ext).map(|_| ()).map_err(|e| format!("{:?}", e))
    } else {
        tracker.add_block(block.header, proof).map(|_| ()).map_err(|e| format!("{:?}", e))
    }
}

fn deliver_remove(tracker: &mut ChainTracker<ChainMonitor>, block: &Block) -> Result<(), String> {
    let prev = tracker.headers()[0].clone();
    let h = tracker.height();
    let proof = TxoProof::prove_unchecked(block, &prev.1, h);
    let secp = Secp256k1::new();
    let watches = tracker.get_all_reverse_watches().1;
    let zero = prev.1.to_byte_array().iter().all(|x| *x == 0);
    let fp = !zero && proof.verify(h, &block.header, None, &prev.1, &watches, &secp).is_err();
    if fp {
        let ext = TxoProof { attestations: proof.attestations.clone(), proof: ProofType::ExternalBlock() };
        tracker.block_chunk(block.block_hash(), 0, &serialize(block)).map_err(|e| format!("{:?}", e))?;
        tracker.remove_block(ext, prev).map(|_| ()).map_err(|e| format!("{:?}", e))
    } else {
        tracker.remove_block(proof, prev).map(|_| ()).map_err(|e| format!("{:?}", e))
    }
}

pub struct World {
    pub pol: Pol,
    pub node: Option<Arc<Node>>,
    pub chan: Option<ChanWorld>,
    pub dead: bool,
    pub secp: Secp256k1<secp256k1::All>,
    pub out: CaseOut,
    pub accepted: usize,
    pub refused: usize,
    /// the harness's own record of the allowlist contents (script ids), updated by every `allow` op
    pub allow_set: BTreeSet<u64>,
    /// Some = the node runs on the real persister (`KVVPersister<MemoryKVVStore>`), so that `restart` can
    /// discard the process state and restore it (`Node::restore_node`); used for cases containing `restart`
    pub persister: Option<Arc<dyn Persist>>,
    /// index of the op being executed (selects the channel id used for the request)
    pub opno: usize,
}

/// script universe of the close ops: sid 1..=4 wallet p2wpkh at index sid, 5..=6 wallet p2sh-p2wpkh at
/// index sid, 10..=12 foreign scripts (allowlistable), 20..=22 foreign scripts never allowlisted.
pub fn script_of(node: &Node, sid: u64) -> ScriptBuf {
    match sid {
        1..=4 => make_test_funding_wallet_addr(node, sid as u32, SpendType::P2wpkh).script_pubkey(),
        5..=6 => make_test_funding_wallet_addr(node, sid as u32, SpendType::P2shP2wpkh).script_pubkey(),
        10 | 20 => ScriptBuf::new_p2wpkh(&lightning_signer::bitcoin::WPubkeyHash::from_byte_array([sid as u8; 20])),
        11 | 21 => ScriptBuf::new_p2wsh(&lightning_signer::bitcoin::WScriptHash::from_byte_array([sid as u8; 32])),
        _ => ScriptBuf::new_p2pkh(&lightning_signer::bitcoin::PubkeyHash::from_byte_array([sid as u8; 20])),
    }
}
pub const SIDS: [u64; 12] = [1, 2, 3, 4, 5, 6, 10, 11, 12, 20, 21, 22];

/// script bytes per sid (wallet scripts depend only on the fixed test seed)
pub fn script_table() -> &'static Vec<(u64, Vec<u8>)> {
    static T: std::sync::OnceLock<Vec<(u64, Vec<u8>)>> = std::sync::OnceLock::new();
    T.get_or_init(|| {
        let node = init_node(TEST_NODE_CONFIG, TEST_SEED[1]);
        SIDS.iter().map(|s| (*s, script_of(&node, *s).to_bytes())).collect()
    })
}
pub fn script_bytes(sid: u64) -> &'static [u8] {
    &script_table().iter().find(|(s, _)| *s == sid).unwrap().1
}
/// rank of the script's bytes in lexicographic order among the script universe (0 = the empty script)
pub fn script_rank(sid: u64) -> u64 {
    if sid == 0 {
        return 0;
    }
    let mut all: Vec<&Vec<u8>> = script_table().iter().map(|(_, b)| b).collect();
    all.sort();
    1 + all.iter().position(|b| b.as_slice() == script_bytes(sid)).unwrap() as u64
}
/// script bytes -> sid (0 = empty, 99 = not in the universe)
pub fn sid_of_script(b: &[u8]) -> u64 {
    if b.is_empty() {
        return 0;
    }
    script_table().iter().find(|(_, x)| x.as_slice() == b).map(|(s, _)| *s).unwrap_or(99)
}
/// structured rendering of a one-input transaction, as the Lean driver prints `canonClose`
pub fn render_tx(tx: &Transaction, funding: &OutPoint) -> String {
    let outs: Vec<String> = tx.output.iter().map(|o| format!("{}@{}", o.value.to_sat(), sid_of_script(o.script_pubkey.as_bytes()))).collect();
    let op = if tx.input.len() == 1 && tx.input[0].previous_output == *funding { 1 } else { 2 };
    format!("tx={}/{}/{}/{}/[{}]", tx.version.0, tx.lock_time.to_consensus_u32(), tx.input[0].sequence.0, op, outs.join(","))
}

pub fn script_len(sid: u64) -> u64 {
    match sid {
        1..=4 | 10 | 20 => 22,
        5..=6 => 23,
        11 | 21 => 34,
        _ => 25,
    }
}
pub fn is_wallet_sid(sid: u64) -> bool {
    (1..=6).contains(&sid)
}
pub fn path_of(idx: u64) -> DerivationPath {
    if idx == 0 {
        DerivationPath::master()
    } else {
        vec![ChildNumber::from_normal_idx(idx as u32).unwrap()].into()
    }
}
/// the generator's convention for what the wallet will answer (checked by the correspondence)
pub fn can_spend(path: u64, sid: u64) -> bool {
    path != 0 && is_wallet_sid(sid) && path == sid
}

fn u64s(toks: &[&str]) -> Option<Vec<u64>> {
    toks.iter().map(|t| t.parse::<u64>().ok()).collect()
}

impl World {
    pub fn new() -> World {
        World {
            pol: Pol::default_testnet(),
            node: None,
            chan: None,
            dead: false,
            secp: Secp256k1::new(),
            out: CaseOut::default(),
            accepted: 0,
            refused: 0,
            allow_set: BTreeSet::new(),
            persister: None,
            opno: 0,
        }
    }

    fn services(&self, persister: Arc<dyn Persist>) -> NodeServices {
        NodeServices {
            validator_factory: self.pol.factory(),
            starting_time_factory: make_genesis_starting_time_factory(Network::Testnet),
            persister,
            clock: Arc::new(StandardClock()),
            trusted_oracle_pubkeys: vec![],
        }
    }

    fn seed() -> [u8; 32] {
        let mut seed = [0u8; 32];
        seed.copy_from_slice(&hex::decode(TEST_SEED[1]).unwrap());
        seed
    }

    /// a fresh node: on the dummy persister (as `test_utils::init_node`) or on the real one
    fn make_node(&self) -> Arc<Node> {
        match &self.persister {
            None => {
                let node = init_node(TEST_NODE_CONFIG, TEST_SEED[1]);
                node.set_validator_factory(self.pol.factory());
                node
            }
            Some(p) => {
                let node = Arc::new(Node::new(TEST_NODE_CONFIG, &Self::seed(), vec![], self.services(p.clone())));
                p.new_node(&node.get_id(), &TEST_NODE_CONFIG, &*node.get_state()).unwrap();
                p.new_tracker(&node.get_id(), &node.get_tracker()).unwrap();
                node.add_allowlist(&[]).unwrap();
                node
            }
        }
    }

    /// `restart`: drop the node, restore it from what the persister holds
    fn op_restart(&mut self) -> String {
        let p = match &self.persister {
            Some(p) => p.clone(),
            None => return "bad-op".into(),
        };
        if self.node.is_none() {
            return "bad-op".into();
        }
        let restored = catch_unwind(AssertUnwindSafe(|| {
            let (node_id, entry) = p.get_nodes().map_err(|e| format!("{:?}", e))?.into_iter().next().ok_or("no node".to_string())?;
            Node::restore_node(&node_id, entry, &Self::seed(), self.services(p.clone())).map_err(|e| e.message().to_string())
        }));
        match restored {
            Ok(Ok(node)) => {
                self.node = Some(node.clone());
                if let Some(cw) = &mut self.chan {
                    cw.node_ctx = TestNodeContext { node, secp_ctx: Secp256k1::signing_only() };
                }
                self.out.tags.insert("restart".into());
                // "afterwards the channel is marked closed" must survive a restart: once a closing signature was
                // returned, the state restored from the persister has to say closed (through every id)
                if self.chan.as_ref().map(|c| c.ready && c.close_signed).unwrap_or(false) {
                    let cw = self.chan.as_ref().unwrap();
                    let (node, ids) = (cw.node_ctx.node.clone(), cw.ids.clone());
                    for id in &ids {
                        let closed = node.with_channel(id, |c| Ok(c.enforcement_state.channel_closed)).unwrap_or(false);
                        if !closed {
                            let at = self.opno;
                            self.violation(at, "close-not-marked-closed",
                                "a closing signature was returned, but the channel restored from the persister is not marked closed".into());
                        }
                    }
                }
                if self.chan.as_ref().map(|c| c.ready).unwrap_or(false) {
                    format!("ok {}", self.digest())
                } else {
                    "ok".into()
                }
            }
            Ok(Err(e)) => format!("restart-failed {}", e),
            Err(_) => {
                self.dead = true;
                "restart-panic".into()
            }
        }
    }

    /// `allow_add` / `allow_rm`: incremental allowlist updates (entries that are absent / already present
    /// are legal); the harness's own record follows
    fn op_allow_delta(&mut self, add: bool, a: &[u64]) -> String {
        let node = match &self.node {
            Some(n) => n.clone(),
            None => return "ok".into(),
        };
        let list: Vec<String> =
            a.iter().map(|sid| Address::from_script(&script_of(&node, *sid), Network::Testnet).unwrap().to_string()).collect();
        let r = if add { node.add_allowlist(&list) } else { node.remove_allowlist(&list) };
        if r.is_ok() {
            for sid in a {
                if add {
                    self.allow_set.insert(*sid);
                } else {
                    self.allow_set.remove(sid);
                }
            }
        }
        "ok".into()
    }

    fn violation(&mut self, at: usize, kind: &str, desc: String) {
        self.out.violations.push(Violation { kind: kind.to_string(), desc, at });
    }

    /// the channel id this request goes through (the channel is reachable under every id in `ids`)
    /// Until a closing signature has been returned every request goes through ONE of the ids (which one: the
    /// `<perm>` token of the setup op, 1 = the initial id, 2 = the permanent id), afterwards the requests alternate.
    fn cid(&self) -> ChannelId {
        let cw = self.chan.as_ref().unwrap();
        if cw.ids.len() == 2 && !cw.close_signed {
            return cw.ids[cw.build_id].clone();
        }
        cw.ids[self.opno % cw.ids.len()].clone()
    }

    fn digest(&self) -> String {
        let cw = self.chan.as_ref().unwrap();
        cw.node_ctx
            .node
            .with_channel(&self.cid(), |c| {
                let e = &c.enforcement_state;
                Ok(format!(
                    "h={} c={} r={} closed={} pend={}",
                    e.next_holder_commit_num,
                    e.next_counterparty_commit_num,
                    e.next_counterparty_revoke_num,
                    e.channel_closed as u8,
                    e.next_holder_commit_info.is_some() as u8
                ))
            })
            .unwrap_or_else(|_| "?".into())
    }

    /// run an entry point, map to the result line
    fn finish<T>(&mut self, r: std::thread::Result<Result<T, Status>>) -> (String, Option<T>) {
        match r {
            Err(_) => {
                self.dead = true;
                self.out.tags.insert("panic".into());
                ("panic".into(), None)
            }
            Ok(Ok(v)) => {
                self.accepted += 1;
                self.out.tags.insert("ok".into());
                if !self.chan.as_ref().map(|c| c.ready).unwrap_or(true) {
                    let at = self.out.out.len();
                    self.violation(at, "accepted-on-refused-setup",
                        "a request was accepted on a channel whose setup_channel had been refused (unsafe type / contest delay / upfront script)".into());
                }
                (format!("ok {}", self.digest()), Some(v))
            }
            Ok(Err(st)) if st.message().contains("channel not ready") => {
                self.out.tags.insert("nochan:stub".into());
                ("nochan".into(), None)
            }
            Ok(Err(st)) => {
                self.refused += 1;
                let c = classify(&st);
                if std::env::var("VERIF_DEBUG").is_ok() {
                    eprintln!("refused [{}]: {}", c, st.message());
                }
                self.out.tags.insert(format!("err:{}", c));
                (format!("err:{} {}", c, self.digest()), None)
            }
        }
    }

    /// can a real commitment transaction be built from these values (same predicate as `buildable` in
    /// Drv/Policy.lean)?  The phase-1 entry points are exercised only then; the script decoder of phase 1
    /// has fixed limits of its own (contest delays up to 2016, CLTV values that fit a 4-byte script number).
    fn buildable(&self, cm: &Commit) -> bool {
        const M: u64 = 2_100_000_000_000_000;
        let sn = &self.chan.as_ref().unwrap().setup;
        cm.n <= INITIAL_COMMITMENT_NUMBER && cm.to_holder <= M && cm.to_cp <= M
            && cm.offered.iter().chain(cm.received.iter()).all(|(v, e)| *v <= M && *e <= 2_147_483_647)
            && sn.holder_delay <= 2016 && sn.cp_delay <= 2016 && (sn.ctype == 1 || sn.ctype == 3)
    }

    fn cp_point(&self, n: u64, variant: u64) -> PublicKey {
        let variant = variant % 2;
        if variant != 0 || n > INITIAL_COMMITMENT_NUMBER {
            return make_test_pubkey(0x55);
        }
        let secret = build_commitment_secret(&[3u8; 32], INITIAL_COMMITMENT_NUMBER - n);
        PublicKey::from_secret_key(&self.secp, &SecretKey::from_slice(&secret).unwrap())
    }

    fn add_keysends(&self, node: &Node, l: &[HTLCInfo2]) {
        for h in l {
            if let Some(msat) = h.value_sat.checked_mul(1000) {
                let _ = catch_unwind(AssertUnwindSafe(|| node.add_keysend(make_test_pubkey(1), h.payment_hash, msat)));
            }
        }
    }

    pub fn exec(&mut self, idx: usize, line: &str) -> String {
        if self.dead {
            return "dead".into();
        }
        self.opno = idx;
        let toks: Vec<&str> = line.split_whitespace().collect();
        if toks.is_empty() {
            return "bad-op".into();
        }
        let a = match u64s(&toks[1..]) {
            Some(a) => a,
            None => return "bad-op".into(),
        };
        match toks[0] {
            "policy" => {
                let pol = match Pol::parse(&a) {
                    Some(p) => p,
                    None => return "bad-op".into(),
                };
                self.pol = pol;
                match &self.node {
                    None => {
                        let node = self.make_node();
                        self.node = Some(node);
                    }
                    Some(node) => node.set_validator_factory(self.pol.factory()),
                }
                "ok".into()
            }
            "allow" => {
                // implementation-side only: set the node's allowlist to the given script ids
                if let Some(node) = &self.node {
                    let list: Vec<String> = a
                        .iter()
                        .map(|sid| Address::from_script(&script_of(node, *sid), Network::Testnet).unwrap().to_string())
                        .collect();
                    if node.set_allowlist(&list).is_ok() {
                        self.allow_set = a.iter().cloned().collect();
                    }
                }
                "ok".into()
            }
            "allow_add" => self.op_allow_delta(true, &a),
            "allow_rm" => self.op_allow_delta(false, &a),
            "restart" => self.op_restart(),
            "setup" => self.op_setup(idx, &a),
            "chain" => self.op_chain(&a),
            "blk" => self.op_blk(&a),
            "unblk" => self.op_unblk(&a),
            "cp" => self.op_cp(idx, &a),
            "hold" => self.op_hold(idx, &a),
            "revoke" => self.op_revoke(&a),
            "cprevoke" => self.op_cprevoke(&a),
            "close2" => self.op_close2(idx, &a),
            "close1" => self.op_close1(idx, &a),
            _ => "bad-op".into(),
        }
    }

    fn op_setup(&mut self, idx: usize, a: &[u64]) -> String {
        if a.len() < 9 || a.len() > 11 || a[3] > 65535 || a[4] > 65535 || a[5] > 3 {
            return "bad-op".into();
        }
        // optional: <perm> = setup_channel is given a permanent channel id different from the initial one;
        // <gap> = number of blocks that arrive between the creation of the stub and setup_channel
        let perm_tok = a.get(9).cloned().unwrap_or(0);
        let perm = perm_tok != 0;
        let gap = a.get(10).cloned().unwrap_or(0);
        if gap > 50 {
            return "bad-op".into();
        }
        if self.chan.as_ref().map(|c| c.ready).unwrap_or(false) {
            return "already".into();
        }
        if self.node.is_none() {
            // no `policy` op yet: the default testnet policy (what the model starts with)
            let node = self.make_node();
            self.node = Some(node);
        }
        let node = self.node.as_ref().unwrap().clone();
        {
            // as `init_channel` does: three easy-difficulty headers on top of the testnet genesis, so that
            // later real blocks inherit regtest difficulty (and the channel starts at height 3)
            let mut tracker = node.get_tracker();
            if tracker.height() == 0 {
                for _ in 0..3 {
                    let (header, proof) = make_testnet_header(tracker.tip(), tracker.height());
                    tracker.add_block(header, proof).unwrap();
                }
            }
        }
        let sn = SetupNums {
            outbound: a[0] != 0, value: a[1], push: a[2], holder_delay: a[3], cp_delay: a[4], ctype: a[5],
            upfront: a[6], up_spend: a[7] != 0, up_allow: a[8] != 0,
        };
        let node_ctx = TestNodeContext { node: node.clone(), secp_ctx: Secp256k1::signing_only() };
        // stub + matching counterparty keys (test_utils); then the real setup_channel with our setup
        let mut chan_ctx = match catch_unwind(AssertUnwindSafe(|| test_chan_ctx(&node_ctx, 1, sn.value))) {
            Ok(c) => c,
            Err(_) => return "bad-op".into(),
        };
        // blocks between `new_channel` (the stub above) and `setup_channel`
        for _ in 0..gap {
            let mut tracker = node.get_tracker();
            let (header, proof) = make_testnet_header(tracker.tip(), tracker.height());
            tracker.add_block(header, proof).unwrap();
        }
        let ctype = match sn.ctype {
            0 => CommitmentType::Legacy,
            1 => CommitmentType::StaticRemoteKey,
            2 => CommitmentType::Anchors,
            _ => CommitmentType::AnchorsZeroFeeHtlc,
        };
        // upfront script: path = the script's own wallet index when it is meant to be spendable
        let (up_script, up_path) = if sn.upfront == 0 {
            (None, DerivationPath::master())
        } else {
            let path = if sn.up_spend { path_of(sn.upfront) } else { DerivationPath::master() };
            (Some(script_of(&node, sn.upfront)), path)
        };
        // a real funding transaction, so that the chain monitor can see it confirm / be spent
        let funding_tx = Transaction {
            version: Version::TWO,
            lock_time: LockTime::ZERO,
            input: vec![TxIn {
                previous_output: OutPoint { txid: Txid::from_slice(&[1u8; 32]).unwrap(), vout: 0 },
                script_sig: ScriptBuf::new(),
                sequence: Sequence::MAX,
                witness: Witness::new(),
            }],
            output: vec![TxOut {
                value: Amount::from_sat(sn.value.min(2_100_000_000_000_000)),
                script_pubkey: ScriptBuf::new_p2wsh(&lightning_signer::bitcoin::WScriptHash::from_byte_array([7u8; 32])),
            }],
        };
        let setup = ChannelSetup {
            is_outbound: sn.outbound,
            channel_value_sat: sn.value,
            push_value_msat: sn.push,
            funding_outpoint: OutPoint { txid: funding_tx.compute_txid(), vout: 0 },
            holder_selected_contest_delay: sn.holder_delay as u16,
            holder_shutdown_script: up_script,
            counterparty_points: make_test_counterparty_points(),
            counterparty_selected_contest_delay: sn.cp_delay as u16,
            counterparty_shutdown_script: None,
            commitment_type: ctype,
        };
        chan_ctx.setup = setup.clone();
        let cid = chan_ctx.channel_id.clone();
        let perm_id = if perm { Some(ChannelId::new(&[0x77u8; 32])) } else { None };
        let perm_id2 = perm_id.clone();
        let r = catch_unwind(AssertUnwindSafe(|| node.setup_channel(cid, perm_id2, setup, &up_path)));
        match r {
            Err(_) => {
                self.dead = true;
                self.out.tags.insert("setup:panic".into());
                "panic".into()
            }
            Ok(Err(st)) => {
                let c = classify(&st);
                self.out.tags.insert(format!("setup:err:{}", c));
                // the refused setup must leave the channel a stub: keep the context so that the following
                // requests (and a repeated setup) still go to the implementation
                let ids = vec![chan_ctx.channel_id.clone()];
                self.chan = Some(ChanWorld {
                    ready: false,
                    node_ctx, chan_ctx, setup: sn, funding_tx, blocks: Vec::new(), chain_mode: 0, filler: 0,
                    seen_cp: BTreeSet::new(), seen_hold: BTreeSet::new(), own_chain: (3 + gap, 0, 0), own_kinds: Vec::new(), base_h: 3 + gap, ids: ids.clone(), build_id: if perm_tok >= 2 { 1 } else { 0 }, close_signed: false,
                    led_nh: 0, led_nc: 0, led_pending: None, led_hold: None, led_cp: None,
                });
                format!("err:{}", c)
            }
            Ok(Ok(_)) => {
                self.out.tags.insert("setup:ok".into());
                // ---- monitor: C05 setup conjunct ----
                let p = self.pol.clone();
                if p.errs(BIT_SAFE_TYPE) && !(sn.ctype == 1 || sn.ctype == 3) {
                    self.violation(idx, "setup-unsafe-type", format!("setup_channel accepted commitment type {}", sn.ctype));
                }
                if p.errs(BIT_DELAY_HOLDER) && (sn.cp_delay < p.min_delay || sn.cp_delay > p.max_delay) {
                    self.violation(idx, "setup-delay-out-of-range",
                        format!("counterparty-selected delay {} outside [{}, {}]", sn.cp_delay, p.min_delay, p.max_delay));
                }
                if p.errs(BIT_DELAY_CP) && (sn.holder_delay < p.min_delay || sn.holder_delay > p.max_delay) {
                    self.violation(idx, "setup-delay-out-of-range",
                        format!("holder-selected delay {} outside [{}, {}]", sn.holder_delay, p.min_delay, p.max_delay));
                }
                if p.errs(BIT_MUTUAL_DEST) && sn.upfront != 0 && !self.dest_known(&node, sn.upfront) {
                    self.violation(idx, "setup-upfront-script-unknown",
                        format!("upfront shutdown script sid {} neither wallet nor allowlisted", sn.upfront));
                }
                let mut ids = vec![chan_ctx.channel_id.clone()];
                if let Some(pid) = perm_id {
                    ids.push(pid);
                    self.out.tags.insert("setup:two-ids".into());
                }
                if gap > 0 {
                    self.out.tags.insert("setup:gap".into());
                }
                self.chan = Some(ChanWorld {
                    ready: true,
                    node_ctx, chan_ctx, setup: sn, funding_tx, blocks: Vec::new(), chain_mode: 0, filler: 0,
                    seen_cp: BTreeSet::new(), seen_hold: BTreeSet::new(), own_chain: (3 + gap, 0, 0), own_kinds: Vec::new(), base_h: 3 + gap, ids: ids.clone(), build_id: if perm_tok >= 2 { 1 } else { 0 }, close_signed: false,
                    led_nh: 0, led_nc: 0, led_pending: None, led_hold: None, led_cp: None,
                });
                "ok".into()
            }
        }
    }

    /// independent evaluation, at the time of the call, of "wallet-derivable (at some index 1..8, any
    /// address type) or allowlisted"; used for upfront and non-upfront holder scripts alike
    fn dest_known(&self, node: &Node, sid: u64) -> bool {
        let script = script_of(node, sid);
        for i in 1..=8u32 {
            for st in [SpendType::P2wpkh, SpendType::P2shP2wpkh] {
                if make_test_funding_wallet_addr(node, i, st).script_pubkey() == script {
                    return true;
                }
            }
        }
        // allowlist membership *now* (at signing time), from the harness's own record of what it put on
        // the allowlist -- not from the node under test
        self.allow_set.contains(&sid)
    }

    fn op_chain(&mut self, a: &[u64]) -> String {
        if !self.chan.as_ref().map(|c| c.ready).unwrap_or(false) {
            return "nochan".into();
        }
        if a.len() != 3 {
            return "bad-op".into();
        }
        let (h, fd, cd) = (a[0], a[1], a[2]);
        if h >= u32::MAX as u64 || fd > h + 1 || cd > h + 1 {
            return "bad-op".into();
        }
        let cw = match &mut self.chan {
            Some(c) => c,
            None => return "nochan".into(),
        };
        if cw.chain_mode == 2 {
            return "bad-op".into(); // forced state and real blocks are not mixed in one case
        }
        cw.chain_mode = 1;
        let funding_outpoint = cw.chan_ctx.setup.funding_outpoint;
        let monitor = {
            let tracker = cw.node_ctx.node.get_tracker();
            tracker.listeners.get(&funding_outpoint).map(|e| e.0.clone())
        };
        let monitor = match monitor {
            Some(m) => m,
            None => return "bad-op".into(),
        };
        let mut js = serde_json::to_value(&*monitor.get_state()).unwrap();
        js["height"] = serde_json::json!(h);
        js["funding_height"] = if fd == 0 { serde_json::Value::Null } else { serde_json::json!(h + 1 - fd) };
        js["mutual_closing_height"] = if cd == 0 { serde_json::Value::Null } else { serde_json::json!(h + 1 - cd) };
        js["unilateral_closing_height"] = serde_json::Value::Null;
        let state: lightning_signer::monitor::State = serde_json::from_value(js).unwrap();
        cw.own_chain = (h, fd, cd);
        let cid = cw.chan_ctx.channel_id.clone();
        let base = ChainMonitorBase::new_from_persistence(funding_outpoint, state, &cid);
        cw.node_ctx
            .node
            .with_channel(&cid, |c| {
                c.monitor = base.clone();
                Ok(())
            })
            .unwrap();
        format!("ok {}", self.real_chain())
    }

    /// the chain state exactly as the validators get it: `Channel::get_chain_state` = `monitor.as_chain_state()`
    fn real_chain_state(&self) -> (u64, u64, u64) {
        let cw = self.chan.as_ref().unwrap();
        cw.node_ctx
            .node
            .with_channel(&cw.chan_ctx.channel_id, |c| {
                let cs = c.monitor.as_chain_state();
                Ok((cs.current_height as u64, cs.funding_depth as u64, cs.closing_depth as u64))
            })
            .unwrap_or((0, 0, 0))
    }
    fn real_chain(&self) -> String {
        let (h, f, c) = self.real_chain_state();
        format!("{} {} {}", h, f, c)
    }

    /// `blk <kind> <h> <fd> <cd>`: connect a real block through the node's tracker.
    /// kind 0 = unrelated tx only, 1 = contains the funding tx, 2 = contains a plain tx spending the funding
    /// outpoint (reads as a mutual close), 3 = contains the HOLDER's current commitment transaction, 4 = contains
    /// the COUNTERPARTY's current commitment transaction (both read as unilateral closes; outputs stay unswept).
    /// (h, fd, cd) is what the generator expects afterwards; the line printed carries the real values.
    fn op_blk(&mut self, a: &[u64]) -> String {
        if !self.chan.as_ref().map(|c| c.ready).unwrap_or(false) {
            return "nochan".into();
        }
        if a.len() != 4 || a[0] > 7 {
            return "bad-op".into();
        }
        let cw = match &mut self.chan {
            Some(c) => c,
            None => return "nochan".into(),
        };
        if cw.chain_mode == 1 {
            return "bad-op".into();
        }
        cw.chain_mode = 2;
        cw.filler += 1;
        let filler = Transaction {
            version: Version::TWO,
            lock_time: LockTime::ZERO,
            input: vec![TxIn {
                previous_output: OutPoint { txid: Txid::from_slice(&[9u8; 32]).unwrap(), vout: cw.filler },
                script_sig: ScriptBuf::new(),
                sequence: Sequence::MAX,
                witness: Witness::new(),
            }],
            output: vec![TxOut { value: Amount::from_sat(1000 + cw.filler as u64), script_pubkey: ScriptBuf::new_p2pkh(&lightning_signer::bitcoin::PubkeyHash::from_byte_array([3u8; 20])) }],
        };
        let mut txs = vec![filler];
        match a[0] {
            1 => txs.push(cw.funding_tx.clone()),
            2 => txs.push(Transaction {
                version: Version::TWO,
                lock_time: LockTime::ZERO,
                input: vec![TxIn {
                    previous_output: cw.chan_ctx.setup.funding_outpoint,
                    script_sig: ScriptBuf::new(),
                    sequence: Sequence::MAX,
                    witness: Witness::new(),
                }],
                output: vec![TxOut { value: Amount::from_sat(5000), script_pubkey: ScriptBuf::new_p2pkh(&lightning_signer::bitcoin::PubkeyHash::from_byte_array([4u8; 20])) }],
            }),
            // 7 = a cooperative close as the newer closing protocol / any counterparty may craft it: a plain spend
            // of the funding outpoint with a NON-ZERO lock time (and a non-final sequence)
            7 => txs.push(Transaction {
                version: Version::TWO,
                lock_time: LockTime::from_consensus(500_000 + cw.filler),
                input: vec![TxIn {
                    previous_output: cw.chan_ctx.setup.funding_outpoint,
                    script_sig: ScriptBuf::new(),
                    sequence: Sequence(0xffff_fffd),
                    witness: Witness::new(),
                }],
                output: vec![TxOut { value: Amount::from_sat(5000), script_pubkey: ScriptBuf::new_p2pkh(&lightning_signer::bitcoin::PubkeyHash::from_byte_array([4u8; 20])) }],
            }),
            3 | 4 | 5 | 6 => {
                // (5 = the counterparty's PREVIOUS, not yet revoked commitment, cf. F-C05-M1; 6 = the holder's
                // validated, still pending NEXT commitment)
                // a real UNILATERAL close: the holder's current commitment (3) or the counterparty's current
                // commitment (4), rebuilt from what the signer itself holds as the current content; before any
                // commitment exists a plain spend stands in
                let kind = a[0];
                let plain = Transaction {
                    version: Version::TWO,
                    lock_time: LockTime::ZERO,
                    input: vec![TxIn {
                        previous_output: cw.chan_ctx.setup.funding_outpoint,
                        script_sig: ScriptBuf::new(),
                        sequence: Sequence::MAX,
                        witness: Witness::new(),
                    }],
                    output: vec![TxOut { value: Amount::from_sat(5000), script_pubkey: ScriptBuf::new_p2pkh(&lightning_signer::bitcoin::PubkeyHash::from_byte_array([4u8; 20])) }],
                };
                let cur = cw.node_ctx.node.with_channel(&cw.chan_ctx.channel_id, |c| {
                    let e = &c.enforcement_state;
                    Ok(if kind == 3 {
                        e.current_holder_commit_info.clone().map(|i| (e.next_holder_commit_num - 1, i, None))
                    } else if kind == 6 {
                        e.next_holder_commit_info.clone().map(|(i, _)| (e.next_holder_commit_num, i, None))
                    } else if kind == 5 {
                        match (&e.previous_counterparty_commit_info, e.previous_counterparty_point) {
                            (Some(i), Some(p)) if e.next_counterparty_commit_num >= 2 => Some((e.next_counterparty_commit_num - 2, i.clone(), Some(p))),
                            _ => None,
                        }
                    } else {
                        match (&e.current_counterparty_commit_info, e.current_counterparty_point) {
                            (Some(i), Some(p)) => Some((e.next_counterparty_commit_num - 1, i.clone(), Some(p))),
                            _ => None,
                        }
                    })
                }).ok().flatten();
                let built = match cur {
                    None => None,
                    Some((n, info, point)) => catch_unwind(AssertUnwindSafe(|| {
                        if kind == 3 || kind == 6 {
                            let ctx = channel_commitment(&cw.node_ctx, &cw.chan_ctx, n, info.feerate_per_kw,
                                info.to_broadcaster_value_sat, info.to_countersigner_value_sat,
                                info.offered_htlcs.clone(), info.received_htlcs.clone());
                            ctx.tx.as_ref().unwrap().trust().built_transaction().transaction.clone()
                        } else {
                            let htlcs = lightning_signer::channel::Channel::htlcs_info2_to_oic(&info.offered_htlcs, &info.received_htlcs);
                            cw.node_ctx.node.with_channel(&cw.chan_ctx.channel_id, |c| {
                                let ctx = c.make_counterparty_commitment_tx(&point.unwrap(), n, info.feerate_per_kw,
                                    info.to_countersigner_value_sat, info.to_broadcaster_value_sat, htlcs.clone());
                                Ok(ctx.trust().built_transaction().transaction.clone())
                            }).unwrap()
                        }
                    })).ok(),
                };
                if built.is_some() {
                    self.out.tags.insert(format!("blk:unilateral:{}", match kind { 3 => "holder-current", 6 => "holder-next", 4 => "counterparty-current", _ => "counterparty-previous" }));
                }
                txs.push(built.unwrap_or(plain));
            }
            _ => {}
        }
        let node = cw.node_ctx.node.clone();
        let r = catch_unwind(AssertUnwindSafe(|| {
            let mut tracker = node.get_tracker();
            let block = make_block(tracker.tip().0, txs);
            deliver_add(&mut tracker, &block).map(|_| block)
        }));
        match r {
            Ok(Ok(b)) => {
                let cw = self.chan.as_mut().unwrap();
                cw.blocks.push(b);
                cw.own_kinds.push(a[0]);
                cw.own_chain = own_chain_of(&cw.own_kinds, cw.base_h);
                format!("ok {}", self.real_chain())
            }
            Ok(Err(e)) => format!("blk-refused {}", e),
            Err(e) => {
                self.dead = true;
                let msg = e.downcast_ref::<String>().cloned().or_else(|| e.downcast_ref::<&str>().map(|s| s.to_string())).unwrap_or_default();
                if std::env::var("VERIF_DEBUG_BLK").is_ok() {
                    eprintln!("blk panic: {}", msg);
                }
                "harness-panic blk".into()
            }
        }
    }

    /// `unblk <h> <fd> <cd>`: disconnect the tip block (reorg) through the real tracker
    fn op_unblk(&mut self, a: &[u64]) -> String {
        if !self.chan.as_ref().map(|c| c.ready).unwrap_or(false) {
            return "nochan".into();
        }
        if a.len() != 3 {
            return "bad-op".into();
        }
        let cw = match &mut self.chan {
            Some(c) => c,
            None => return "nochan".into(),
        };
        if cw.chain_mode != 2 || cw.blocks.is_empty() {
            return "bad-op".into();
        }
        let block = cw.blocks.last().unwrap().clone();
        let node = cw.node_ctx.node.clone();
        let r = catch_unwind(AssertUnwindSafe(|| {
            let mut tracker = node.get_tracker();
            deliver_remove(&mut tracker, &block)
        }));
        match r {
            Ok(Ok(())) => {
                let cw = self.chan.as_mut().unwrap();
                cw.blocks.pop();
                cw.own_kinds.pop();
                cw.own_chain = own_chain_of(&cw.own_kinds, cw.base_h);
                format!("ok {}", self.real_chain())
            }
            Ok(Err(e)) => format!("unblk-refused {}", e),
            Err(_) => {
                self.dead = true;
                "harness-panic unblk".into()
            }
        }
    }

    fn op_cp(&mut self, idx: usize, a: &[u64]) -> String {
        if a.len() < 2 {
            return "bad-op".into();
        }
        let (n, pv) = (a[0], a[1]);
        let (cm, rest) = match Commit::parse(n, &a[2..]) {
            Some(x) => x,
            None => return "bad-op".into(),
        };
        if !rest.is_empty() {
            return "bad-op".into();
        }
        if self.chan.is_none() {
            return "nochan".into();
        }
        let point = self.cp_point(n, pv);
        let offered = htlc_infos(1, &cm.offered);
        let received = htlc_infos(2, &cm.received);
        let (node, cid) = {
            let cw = self.chan.as_ref().unwrap();
            (cw.node_ctx.node.clone(), self.cid())
        };
        // holder's outgoing HTLCs (received by the counterparty in its commitment) are backed by keysends
        self.add_keysends(&node, &received);
        self.add_keysends(&node, &offered);
        let chain_before = self.chan.as_ref().unwrap().own_chain;
        // pv >= 2: the PHASE-1 entry point (`sign_counterparty_commitment_tx`): the harness builds the
        // transaction and the output witness scripts the way the node software would, from the same values.
        // If that cannot be built (values outside what a transaction can carry), phase 2 is used.
        // (the phase-1 script decoder has fixed limits of its own, e.g. contest delays up to 2016: outside
        // them phase 2 is used, the decision model is the phase-2 one)
        let decodable = self.buildable(&cm);
        let phase1 = if pv >= 2 && decodable {
            catch_unwind(AssertUnwindSafe(|| {
                node.with_channel(&cid, |c| {
                    let htlcs = lightning_signer::channel::Channel::htlcs_info2_to_oic(&offered, &received);
                    let ctx = c.make_counterparty_commitment_tx(&point, n, cm.feerate as u32, cm.to_holder, cm.to_cp, htlcs.clone());
                    let params = c.make_channel_parameters();
                    let directed = params.as_counterparty_broadcastable();
                    let keys = c.make_counterparty_tx_keys(&point);
                    let mut h2 = htlcs.clone();
                    let scripts = build_tx_scripts(&keys, cm.to_cp, cm.to_holder, &mut h2, &directed,
                        &c.setup.counterparty_points.funding_pubkey, &c.keys.pubkeys().funding_pubkey)
                        .map_err(|_| lightning_signer::util::status::Status::internal("scripts"))?;
                    let wit: Vec<Vec<u8>> = scripts.iter().map(|s| s.as_bytes().to_vec()).collect();
                    Ok((ctx.trust().built_transaction().transaction.clone(), wit))
                })
            }))
            .ok()
            .and_then(|r| r.ok())
        } else {
            None
        };
        let r = match phase1 {
            Some((tx, wit)) => {
                self.out.tags.insert("cp:phase1".into());
                catch_unwind(AssertUnwindSafe(|| {
                    node.with_channel(&cid, |c| {
                        c.sign_counterparty_commitment_tx(&tx, &wit, &point, n, cm.feerate as u32, offered.clone(), received.clone())
                            .map(|s| (s, Vec::new()))
                    })
                }))
            }
            None => catch_unwind(AssertUnwindSafe(|| {
                node.with_channel(&cid, |c| {
                    c.sign_counterparty_commitment_tx_phase2(&point, n, cm.feerate as u32, cm.to_holder, cm.to_cp,
                        offered.clone(), received.clone())
                })
            })),
        };
        let (line, ok) = self.finish(r);
        if ok.is_some() {
            self.monitor_commitment(idx, true, &cm, chain_before, 0);
            // ledger: signing counterparty commitment n moves the counter to n + 1; a NEW number replaces the
            // current counterparty commitment, a retry (n + 1 = next) leaves it
            let cw = self.chan.as_mut().unwrap();
            let num = n.saturating_add(1);
            if num > cw.led_nc {
                cw.led_cp = Some(cm.clone());
            }
            cw.led_nc = num;
        }
        line
    }

    fn op_hold(&mut self, idx: usize, a: &[u64]) -> String {
        if a.is_empty() {
            return "bad-op".into();
        }
        let n = a[0];
        let (cm, rest) = match Commit::parse(n, &a[1..]) {
            Some(x) => x,
            None => return "bad-op".into(),
        };
        if rest.len() != 1 {
            return "bad-op".into();
        }
        // last field: bit 0 = good counterparty signatures, bit 1 = use the PHASE-1 entry point
        let sigok = rest[0] % 2 != 0;
        let want_phase1 = rest[0] >= 2;
        if self.chan.is_none() {
            return "nochan".into();
        }
        let offered = htlc_infos(3, &cm.offered);
        let received = htlc_infos(4, &cm.received);
        let (node, cid) = {
            let cw = self.chan.as_ref().unwrap();
            (cw.node_ctx.node.clone(), self.cid())
        };
        self.add_keysends(&node, &offered);
        self.add_keysends(&node, &received);
        // an HTLC whose second-stage transaction cannot be built (value below its fee; reachable only with
        // the trim-limit check downgraded): no counterparty signatures can be produced, bad ones are sent
        let underflow = {
            let sn = &self.chan.as_ref().unwrap().setup;
            !sn.zero_fee()
                && (cm.offered.iter().any(|(v, _)| (*v as u128) < cm.feerate as u128 * 663 / 1000)
                    || cm.received.iter().any(|(v, _)| (*v as u128) < cm.feerate as u128 * 703 / 1000))
        };
        let sigok = sigok && !underflow;
        // counterparty signatures over the holder commitment, made with the counterparty's keys
        let sigs = if underflow { Err(Box::new(()) as Box<dyn std::any::Any + Send>) } else {
            let cw = self.chan.as_ref().unwrap();
            catch_unwind(AssertUnwindSafe(|| {
                let mut ctx = channel_commitment(&cw.node_ctx, &cw.chan_ctx, n, cm.feerate as u32, cm.to_holder,
                    cm.to_cp, offered.clone(), received.clone());
                let sigs = counterparty_sign_holder_commitment(&cw.node_ctx, &cw.chan_ctx, &mut ctx);
                // transaction + witness scripts for the phase-1 entry point (as test_utils::validate_holder_commitment)
                let tx = ctx.tx.as_ref().unwrap().trust().built_transaction().transaction.clone();
                let htlcs = lightning_signer::channel::Channel::htlcs_info2_to_oic(&offered, &received);
                let wit = cw.node_ctx.node.with_channel(&cw.chan_ctx.channel_id, |c| {
                    let params = c.make_channel_parameters();
                    let directed = params.as_holder_broadcastable();
                    let ctx_tx = ctx.tx.as_ref().unwrap().trust();
                    let keys = ctx_tx.keys();
                    let scripts = build_tx_scripts(keys, cm.to_holder, cm.to_cp, &htlcs, &directed,
                        &c.keys.pubkeys().funding_pubkey, &c.setup.counterparty_points.funding_pubkey)
                        .map_err(|_| lightning_signer::util::status::Status::internal("scripts"))?;
                    Ok(scripts.iter().map(|s| s.as_bytes().to_vec()).collect::<Vec<Vec<u8>>>())
                });
                (sigs, tx, wit.ok())
            }))
        };
        let (sigs, phase1) = match sigs {
            Ok((sg, tx, Some(wit))) => (Ok(sg), Some((tx, wit))),
            Ok((sg, _, None)) => (Ok(sg), None),
            Err(e) => (Err(e), None),
        };
        let dummy = {
            let msg = Message::from_digest([7u8; 32]);
            self.secp.sign_ecdsa(&msg, &SecretKey::from_slice(&[9u8; 32]).unwrap())
        };
        let nh = offered.len() + received.len();
        let (csig, hsigs) = match sigs {
            Ok((c, h)) if sigok => (c, h),
            // a builder panic only happens on inputs the implementation refuses or panics on before
            // it looks at the signatures
            _ => (dummy, vec![dummy; nh]),
        };
        let chain_before = self.chan.as_ref().unwrap().own_chain;
        // the holder counter before the request (a counter of the state, not a decision): tells the retry path
        // (n < next_holder) from a new commitment
        let nh_before = node.with_channel(&cid, |c| Ok(c.enforcement_state.next_holder_commit_num)).unwrap_or(0);
        let decodable = self.buildable(&cm);
        let r = match (want_phase1 && decodable, phase1) {
            (true, Some((tx, wit))) => {
                self.out.tags.insert("hold:phase1".into());
                catch_unwind(AssertUnwindSafe(|| {
                    node.with_channel(&cid, |c| {
                        c.validate_holder_commitment_tx(&tx, &wit, n, cm.feerate as u32, offered.clone(), received.clone(), &csig, &hsigs)
                    })
                }))
            }
            _ => catch_unwind(AssertUnwindSafe(|| {
                node.with_channel(&cid, |c| {
                    c.validate_holder_commitment_tx_phase2(n, cm.feerate as u32, cm.to_holder, cm.to_cp, offered.clone(),
                        received.clone(), &csig, &hsigs)
                })
            })),
        };
        let (line, ok) = self.finish(r);
        if ok.is_some() {
            self.monitor_commitment(idx, false, &cm, chain_before, nh_before);
            // ledger: an accepted validation of the NEXT holder number is the pending holder commitment; when it is
            // validated again before the revocation, the LAST accepted content is the one in force
            let cw = self.chan.as_mut().unwrap();
            if n == cw.led_nh {
                cw.led_pending = Some(cm.clone());
            }
        }
        line
    }

    fn op_revoke(&mut self, a: &[u64]) -> String {
        if a.len() != 1 {
            return "bad-op".into();
        }
        let cw = match &self.chan {
            Some(c) => c,
            None => return "nochan".into(),
        };
        let (node, cid) = (cw.node_ctx.node.clone(), self.cid());
        let n = a[0];
        let r = catch_unwind(AssertUnwindSafe(|| node.with_channel(&cid, |c| c.revoke_previous_holder_commitment(n))));
        let (line, ok) = self.finish(r);
        if ok.is_some() {
            // ledger: revoking the current holder number makes the pending commitment the current one
            let cw = self.chan.as_mut().unwrap();
            if n == cw.led_nh {
                if let Some(p) = cw.led_pending.take() {
                    cw.led_hold = Some(p);
                    cw.led_nh = n + 1;
                }
            }
        }
        line
    }

    fn op_cprevoke(&mut self, a: &[u64]) -> String {
        if a.len() != 1 || a[0] > INITIAL_COMMITMENT_NUMBER {
            return "bad-op".into();
        }
        let cw = match &self.chan {
            Some(c) => c,
            None => return "nochan".into(),
        };
        let (node, cid) = (cw.node_ctx.node.clone(), self.cid());
        let n = a[0];
        let secret = SecretKey::from_slice(&build_commitment_secret(&[3u8; 32], INITIAL_COMMITMENT_NUMBER - n)).unwrap();
        let r = catch_unwind(AssertUnwindSafe(|| node.with_channel(&cid, |c| c.validate_counterparty_revocation(n, &secret))));
        self.finish(r).0
    }

    // ------------------------------------------------------------------------------------------
    // C05 monitor: WithinBounds, evaluated with u128 arithmetic on every accepted commitment
    // ------------------------------------------------------------------------------------------
    fn monitor_commitment(&mut self, idx: usize, is_cp: bool, cm: &Commit, chain: (u64, u64, u64), nh_before: u64) {
        let p = self.pol.clone();
        let sn = self.chan.as_ref().unwrap().setup.clone();
        // the monitor's own notion of "new": this number was never accepted before with identical content
        let key = format!("{} {}", cm.n, canonical_body(cm));
        let is_new = {
            let cw = self.chan.as_mut().unwrap();
            let set = if is_cp { &mut cw.seen_cp } else { &mut cw.seen_hold };
            set.insert(key)
        };
        let who = if is_cp { "counterparty" } else { "holder" };
        // in a counterparty commitment the broadcaster is the counterparty
        let (to_b, to_c) = if is_cp { (cm.to_cp, cm.to_holder) } else { (cm.to_holder, cm.to_cp) };
        let nh = (cm.offered.len() + cm.received.len()) as u128;
        let sum_htlc: u128 = cm.offered.iter().chain(cm.received.iter()).map(|(v, _)| *v as u128).sum();
        let total: u128 = to_b as u128 + to_c as u128 + sum_htlc;
        // --- fee ---
        let weight: u128 = (if sn.anchors() { 1124 } else { 724 }) + 172 * nh;
        if total > sn.value as u128 {
            self.violation(idx, "accepted-fee-out-of-range",
                format!("{} commitment {} accepted with outputs {} above the channel value {}", who, cm.n, total, sn.value));
        } else if p.errs(BIT_FEE) {
            let fee = sn.value as u128 - total;
            // highest feerate that can give rise to this fee: floor((fee*1000+999)/weight)
            let x = fee * 1000 + 999;
            if x < p.min_fee as u128 * weight || x >= (p.max_fee as u128 + 1) * weight {
                self.violation(idx, "accepted-fee-out-of-range",
                    format!("{} commitment {} accepted with fee {} sat on weight {} = {} sat/kw outside [{}, {}]",
                        who, cm.n, fee, weight, x / weight, p.min_fee, p.max_fee));
            }
        }
        // --- dust ---
        if p.errs(BIT_DUST) {
            for (name, v) in [("to_broadcaster", to_b), ("to_countersigner", to_c)] {
                if v > 0 && (v as u128) < MIN_CHAN_DUST {
                    self.violation(idx, "accepted-dust-output",
                        format!("{} commitment {} accepted with {} = {} below the dust limit", who, cm.n, name, v));
                }
            }
            let (lo, lr) = if sn.zero_fee() {
                (MIN_CHAN_DUST, MIN_CHAN_DUST)
            } else {
                (MIN_DUST + cm.feerate as u128 * HTLC_TIMEOUT_W / 1000, MIN_DUST + cm.feerate as u128 * HTLC_SUCCESS_W / 1000)
            };
            for (v, _) in &cm.offered {
                if (*v as u128) < lo {
                    self.violation(idx, "accepted-dust-htlc",
                        format!("{} commitment {} accepted with offered HTLC {} below its trim limit {}", who, cm.n, v, lo));
                }
            }
            for (v, _) in &cm.received {
                if (*v as u128) < lr {
                    self.violation(idx, "accepted-dust-htlc",
                        format!("{} commitment {} accepted with received HTLC {} below its trim limit {}", who, cm.n, v, lr));
                }
            }
        }
        // --- count / in-flight ---
        if p.errs(BIT_COUNT) && nh > p.max_htlcs as u128 {
            self.violation(idx, "accepted-too-many-htlcs", format!("{} commitment {} accepted with {} HTLCs > {}", who, cm.n, nh, p.max_htlcs));
        }
        if p.errs(BIT_INFLIGHT) && sum_htlc > p.max_htlc_value as u128 {
            self.violation(idx, "accepted-inflight-over-limit",
                format!("{} commitment {} accepted with in-flight {} > {}", who, cm.n, sum_htlc, p.max_htlc_value));
        }
        // --- expiry ---
        if p.errs(BIT_CLTV) {
            for (_, e) in cm.offered.iter().chain(cm.received.iter()) {
                let e = *e as u128;
                let bad = e >= MAX_CLTV
                    || (p.use_chain && (e < chain.0 as u128 + p.min_delay as u128 || e > chain.0 as u128 + p.max_delay as u128));
                if bad {
                    self.violation(idx, "accepted-expiry-out-of-range",
                        format!("{} commitment {} accepted with HTLC expiry {} (height {}, delays [{}, {}], use_chain_state {})",
                            who, cm.n, e, chain.0, p.min_delay, p.max_delay, p.use_chain));
                }
            }
        }
        // --- initial commitment ---
        if cm.n == 0 {
            if p.errs(BIT_FIRST) && nh > 0 {
                self.violation(idx, "accepted-initial-with-htlcs", format!("initial {} commitment accepted with {} HTLCs", who, nh));
            }
            if p.errs(BIT_INITIAL) && sn.outbound && (cm.to_cp as u128) * 1000 > sn.push as u128 - (sn.push as u128 % 1000) {
                self.violation(idx, "accepted-initial-overpays-fundee",
                    format!("initial {} commitment gives the fundee {} sat with push {} msat", who, cm.to_cp, sn.push));
            }
        }
        // --- size ---
        if is_cp && p.errs(BIT_FUNDING_MAX) && sn.value > p.max_chan {
            self.violation(idx, "accepted-channel-over-max-size",
                format!("counterparty commitment signed for channel value {} > max {}", sn.value, p.max_chan));
        }
        // --- on-chain validator: funding buried, not closed ---
        // Which tags keep "nothing new while unconfirmed / closed" in force: the gate's own tag; on the holder's retry
        // path (n < next_holder, where the code skips the gate) new content is kept out by retry-same and
        // holder-not-revoked, so the conjunct is only claimed when those are errors too
        let gate_armed = p.errs(BIT_ACTIVE_UTXO) && (is_cp || cm.n >= nh_before || (p.errs(17) && p.errs(18)));
        if p.onchain && gate_armed && cm.n > 0 && is_new {
            if chain.1 < 1 {
                self.violation(idx, "accepted-onchain-unburied",
                    format!("new {} commitment {} accepted by the on-chain validator with funding depth {} (height {})", who, cm.n, chain.1, chain.0));
            }
            if chain.2 > 0 {
                self.violation(idx, "accepted-onchain-closed",
                    format!("new {} commitment {} accepted by the on-chain validator with closing depth {} (height {})", who, cm.n, chain.2, chain.0));
            }
        }
    }

    // ------------------------------------------------------------------------------------------
    // C07: mutual close
    // ------------------------------------------------------------------------------------------
    fn op_close2(&mut self, idx: usize, a: &[u64]) -> String {
        if a.len() != 14 {
            return "bad-op".into();
        }
        let cw = match &self.chan {
            Some(c) => c,
            None => return "nochan".into(),
        };
        let (node, cid) = (cw.node_ctx.node.clone(), self.cid());
        let (hv, cv) = (a[0], a[1]);
        // the op line carries (present, sid, len, rank, canSpend, allowlisted) per side; the path index is
        // implied by canSpend: the script's own index when spendable, a wrong index (7) or master otherwise
        let hs = if a[2] != 0 { Some(script_of(&node, a[3])) } else { None };
        let cs = if a[8] != 0 { Some(script_of(&node, a[9])) } else { None };
        let hpath = if a[6] != 0 { path_of(a[3]) } else if idx % 2 == 0 { DerivationPath::master() } else { path_of(7) };
        let before = self.snapshot();
        let r = catch_unwind(AssertUnwindSafe(|| {
            node.with_channel(&cid, |c| c.sign_mutual_close_tx_phase2(hv, cv, &hs, &cs, &hpath))
        }));
        let (mut line, sig) = self.finish(r);
        if let Some(sig) = sig {
            let outs: Vec<(u64, Option<u64>)> = vec![(hv, if a[2] != 0 { Some(a[3]) } else { None }), (cv, if a[8] != 0 { Some(a[9]) } else { None })];
            let tx = self.monitor_close(idx, before, Some((outs[0].clone(), outs[1].clone())), &[], sig);
            line = format!("{} {}", line, tx);
        }
        line
    }

    fn op_close1(&mut self, idx: usize, a: &[u64]) -> String {
        if a.len() < 6 {
            return "bad-op".into();
        }
        let (npaths, ver, lt, seq, op, k) = (a[0] as usize, a[1], a[2], a[3], a[4], a[5] as usize);
        if a.len() != 6 + 6 * k || k > 4 || ver > i32::MAX as u64 || lt > u32::MAX as u64 || seq > u32::MAX as u64 || npaths > 8 {
            return "bad-op".into();
        }
        let cw = match &self.chan {
            Some(c) => c,
            None => return "nochan".into(),
        };
        let (node, cid) = (cw.node_ctx.node.clone(), self.cid());
        let funding = cw.chan_ctx.setup.funding_outpoint;
        let mut outs = Vec::new();
        let mut paths = Vec::new();
        for j in 0..k {
            let o = &a[6 + 6 * j..12 + 6 * j];
            outs.push((o[0], o[1]));
            paths.push(if o[4] != 0 { path_of(o[1]) } else if (idx + j) % 2 == 0 { DerivationPath::master() } else { path_of(7) });
        }
        while paths.len() < npaths {
            paths.push(DerivationPath::master());
        }
        paths.truncate(npaths);
        // the transaction exactly as the caller hands it over: header fields and output order as given
        let tx = Transaction {
            version: Version(ver as i32),
            lock_time: LockTime::from_consensus(lt as u32),
            input: vec![TxIn {
                previous_output: if op == 1 { funding } else { OutPoint { txid: Txid::from_slice(&[8u8; 32]).unwrap(), vout: 0 } },
                script_sig: ScriptBuf::new(),
                sequence: Sequence(seq as u32),
                witness: Witness::new(),
            }],
            output: outs.iter().map(|(v, sid)| TxOut { value: Amount::from_sat(*v), script_pubkey: script_of(&node, *sid) }).collect(),
        };
        let before = self.snapshot();
        let r = catch_unwind(AssertUnwindSafe(|| node.with_channel(&cid, |c| c.sign_mutual_close_tx(&tx, &paths))));
        let (mut line, sig) = self.finish(r);
        if let Some(sig) = sig {
            let outs2: Vec<(u64, u64, bool)> = (0..k).map(|j| (a[6 + 6 * j], a[7 + 6 * j], a[10 + 6 * j] != 0)).collect();
            let txr = self.monitor_close(idx, before, None, &outs2, sig);
            line = format!("{} {}", line, txr);
        }
        line
    }

    /// (holder commitment, counterparty commitment) as (to_holder, to_cp, nhtlcs) each: the latest commitments
    /// according to the harness's own ledger of accepted requests -- not what the signer under test believes
    fn snapshot(&self) -> Option<((u64, u64, usize), (u64, u64, usize))> {
        let cw = self.chan.as_ref()?;
        let f = |c: &Commit| (c.to_holder, c.to_cp, c.offered.len() + c.received.len());
        match (&cw.led_hold, &cw.led_cp) {
            (Some(h), Some(c)) => Some((f(h), f(c))),
            _ => None,
        }
    }

    /// CloseOK evaluated independently (u128/i128) for one assignment; returns the violated kinds
    fn close_ok(&self, hv: u64, hsid: Option<u64>, hspend: bool, cv: u64, csid: Option<u64>,
        snap: &Option<((u64, u64, usize), (u64, u64, usize))>) -> Vec<(&'static str, String)> {
        let p = &self.pol;
        let cw = self.chan.as_ref().unwrap();
        let sn = &cw.setup;
        let node = &cw.node_ctx.node;
        let mut bad = Vec::new();
        let (h, c) = match snap {
            Some(x) => *x,
            None => {
                bad.push(("close-without-commitments", "a current commitment is missing".to_string()));
                return bad;
            }
        };
        if p.errs(BIT_MUTUAL_HTLCS) && (h.2 > 0 || c.2 > 0) {
            bad.push(("close-pending-htlcs", format!("{} + {} HTLCs pending in the current commitments", h.2, c.2)));
        }
        // fee
        let mut size: u128 = 4 + 1 + 41 + 1 + 4;
        if cv > 0 {
            size += 9 + csid.map(script_len).unwrap_or(0) as u128;
        }
        if hv > 0 {
            size += 9 + hsid.map(script_len).unwrap_or(0) as u128;
        }
        let weight = 4 * size + 222;
        let total = hv as u128 + cv as u128;
        if total > sn.value as u128 {
            bad.push(("close-fee-out-of-range", format!("outputs {} exceed the channel value {}", total, sn.value)));
        } else if p.errs(BIT_MUTUAL_FEE) {
            let x = (sn.value as u128 - total) * 1000 + 999;
            if x < p.min_fee as u128 * weight || x >= (p.max_fee as u128 + 1) * weight {
                bad.push(("close-fee-out-of-range",
                    format!("fee {} on weight {} = {} sat/kw outside [{}, {}]", sn.value as u128 - total, weight, x / weight, p.min_fee, p.max_fee)));
            }
        }
        // value of the side that does not pay the fee, against both latest commitments
        if p.errs(BIT_MUTUAL_VALUE) {
            let eps = p.eps as i128;
            if sn.outbound {
                for (name, due) in [("counterparty commitment", c.1), ("holder commitment", h.1)] {
                    let d = cv as i128 - due as i128;
                    if d > eps {
                        bad.push(("accepted-close-underpays-holder",
                            format!("funder close pays the counterparty {} but its balance in the {} is {} (ε {})", cv, name, due, eps)));
                    } else if -d > eps {
                        bad.push(("close-value-outside-epsilon",
                            format!("close pays the counterparty {} but its balance in the {} is {} (ε {})", cv, name, due, eps)));
                    }
                }
            } else {
                for (name, due) in [("holder commitment", h.0), ("counterparty commitment", c.0)] {
                    let d = due as i128 - hv as i128;
                    if d > eps {
                        bad.push(("accepted-close-underpays-holder",
                            format!("close pays the holder {} but its balance in the {} is {} (ε {})", hv, name, due, eps)));
                    } else if -d > eps {
                        bad.push(("close-value-outside-epsilon",
                            format!("close pays the holder {} but its balance in the {} is {} (ε {})", hv, name, due, eps)));
                    }
                }
            }
        }
        // destination
        if p.errs(BIT_MUTUAL_DEST) {
            if hv > 0 && hsid.is_none() {
                bad.push(("close-to-unknown-destination", format!("holder value {} without a script", hv)));
            }
            if let Some(sid) = hsid {
                let _ = hspend;
                if !self.dest_known(node, sid) {
                    bad.push(("close-to-unknown-destination", format!("holder output script sid {} is neither wallet-derivable nor allowlisted", sid)));
                }
                if sn.upfront != 0 && hv > 0 && sid != sn.upfront {
                    bad.push(("close-ignores-upfront-script", format!("holder output sid {} but upfront shutdown script sid {}", sid, sn.upfront)));
                }
            }
        }
        bad
    }

    fn monitor_close(&mut self, idx: usize, snap: Option<((u64, u64, usize), (u64, u64, usize))>,
        phase2: Option<((u64, Option<u64>), (u64, Option<u64>))>, outs: &[(u64, u64, bool)], sig: secp256k1::ecdsa::Signature) -> String {
        // candidate assignments: the given one (phase 2) or every reading of the outputs (phase 1)
        let mut cands: Vec<(u64, Option<u64>, bool, u64, Option<u64>)> = Vec::new();
        match phase2 {
            Some(((hv, hs), (cv, cs))) => cands.push((hv, hs, true, cv, cs)),
            None => match outs.len() {
                1 => {
                    cands.push((outs[0].0, Some(outs[0].1), outs[0].2, 0, None));
                    cands.push((0, None, false, outs[0].0, Some(outs[0].1)));
                }
                2 => {
                    cands.push((outs[0].0, Some(outs[0].1), outs[0].2, outs[1].0, Some(outs[1].1)));
                    cands.push((outs[1].0, Some(outs[1].1), outs[1].2, outs[0].0, Some(outs[0].1)));
                }
                _ => {}
            },
        }
        let mut best: Option<Vec<(&'static str, String)>> = None;
        for (hv, hs, hsp, cv, cs) in &cands {
            let bad = self.close_ok(*hv, *hs, *hsp, *cv, *cs, &snap);
            if best.as_ref().map(|b| bad.len() < b.len()).unwrap_or(true) {
                best = Some(bad);
            }
        }
        match best {
            None => self.violation(idx, "close-unreadable", format!("signed a closing tx with {} outputs", outs.len())),
            Some(bad) => {
                for (k, d) in bad {
                    self.violation(idx, k, d);
                }
            }
        }
        // closed flag
        let cw = self.chan.as_ref().unwrap();
        let node = cw.node_ctx.node.clone();
        let cid = cw.chan_ctx.channel_id.clone();
        let sn = cw.setup.clone();
        let funding = cw.chan_ctx.setup.funding_outpoint;
        let cp_funding = cw.chan_ctx.setup.counterparty_points.funding_pubkey;
        let ids = cw.ids.clone();
        self.chan.as_mut().unwrap().close_signed = true;
        for id in &ids {
            let closed = node.with_channel(id, |c| Ok(c.enforcement_state.channel_closed)).unwrap_or(false);
            if !closed {
                self.violation(idx, "close-not-marked-closed",
                    format!("closing signature returned but the channel reached through id #{} of {} is not marked closed",
                        ids.iter().position(|x| x == id).unwrap_or(0), ids.len()));
            }
        }
        // the signature must verify against the canonical closing transaction built here from scratch
        let node2 = node.clone();
        let mut txouts: Vec<TxOut> = match phase2 {
            Some(((hv, hs), (cv, cs))) => vec![(cv, cs), (hv, hs)]
                .into_iter()
                .filter(|(v, _)| *v > 0)
                .map(|(v, s)| TxOut { value: Amount::from_sat(v), script_pubkey: s.map(|sid| script_of(&node2, sid)).unwrap_or_default() })
                .collect(),
            None => outs.iter().filter(|o| o.0 > 0)
                .map(|o| TxOut { value: Amount::from_sat(o.0), script_pubkey: script_of(&node2, o.1) }).collect(),
        };
        txouts.sort_by(|a, b| a.value.cmp(&b.value).then_with(|| a.script_pubkey.as_bytes().cmp(b.script_pubkey.as_bytes())));
        let tx = Transaction {
            version: Version::TWO,
            lock_time: LockTime::ZERO,
            input: vec![TxIn { previous_output: funding, script_sig: ScriptBuf::new(), sequence: Sequence::MAX, witness: Witness::new() }],
            output: txouts,
        };
        let holder_funding = get_channel_funding_pubkey(&node, &cid);
        let redeem = make_funding_redeemscript(&holder_funding, &cp_funding);
        let sighash = SighashCache::new(&tx)
            .p2wsh_signature_hash(0, &redeem, Amount::from_sat(sn.value), EcdsaSighashType::All)
            .unwrap();
        let msg = Message::from_digest(sighash.to_byte_array());
        if self.secp.verify_ecdsa(&msg, &sig, &holder_funding).is_err() {
            self.violation(idx, "close-signature-not-canonical",
                "returned signature does not verify against the canonical closing tx on the funding outpoint".into());
        }
        self.out.tags.insert("close:signed".into());
        // the structured rendering of the transaction the signature verified against (compared with the
        // Lean `canonClose` through the correspondence)
        render_tx(&tx, &funding)
    }
}

/// chain state implied by the blocks the harness connected on top of height 3 (kind 1 = funding tx,
/// kinds 2/3/4 = a spend of the funding outpoint: plain, holder commitment, counterparty commitment): depth = number of blocks from that block to the tip
fn own_chain_of(kinds: &[u64], base: u64) -> (u64, u64, u64) {
    let n = kinds.len() as u64;
    let depth = |ks: &[u64]| kinds.iter().position(|b| ks.contains(b)).map(|i| n - i as u64).unwrap_or(0);
    (base + n, depth(&[1]), depth(&[2, 3, 4, 5, 6, 7]))
}

/// content of a commitment up to the order of its HTLCs (what `CommitmentInfo2` equality sees)
fn canonical_body(cm: &Commit) -> String {
    let mut o: Vec<(u64, usize, u64)> = cm.offered.iter().enumerate().map(|(i, (v, e))| (*v, i, *e)).collect();
    let mut r: Vec<(u64, usize, u64)> = cm.received.iter().enumerate().map(|(i, (v, e))| (*v, i, *e)).collect();
    o.sort();
    r.sort();
    format!("{} {} {} {:?} {:?}", cm.feerate, cm.to_holder, cm.to_cp, o, r)
}

/// BOLT-3 / LDK output order: by value, then script bytes; no zero-value outputs
pub fn is_canonical(outs: &[TxOut]) -> bool {
    if outs.iter().any(|o| o.value == Amount::ZERO) {
        return false;
    }
    outs.windows(2).all(|w| {
        (w[0].value, w[0].script_pubkey.as_bytes()) <= (w[1].value, w[1].script_pubkey.as_bytes())
    })
}

/// run a whole case
pub fn run_case(ops: &[String]) -> CaseOut {
    let mut w = World::new();
    if ops.iter().any(|o| o.starts_with("restart")) {
        w.persister = Some(Arc::new(KVVPersister(MemoryKVVStore::new([6u8; 16]), JsonFormat)));
    }
    for (i, op) in ops.iter().enumerate() {
        let line = match catch_unwind(AssertUnwindSafe(|| w.exec(i, op))) {
            Ok(l) => l,
            Err(e) => {
                let msg = e.downcast_ref::<String>().cloned().or_else(|| e.downcast_ref::<&str>().map(|s| s.to_string())).unwrap_or_default();
                w.dead = true;
                format!("harness-panic {}", msg.replace('\n', " "))
            }
        };
        if std::env::var("VERIF_DEBUG_BLK").is_ok() && (op.starts_with("blk") || op.starts_with("unblk")) {
            let want: Vec<&str> = op.split_whitespace().collect();
            let exp = format!("ok {}", want[want.len() - 3..].join(" "));
            if line != exp && line != "nochan" && line != "bad-op" && line != "dead" {
                eprintln!("BLK-MISMATCH at {}: got `{}`\n{}", i, line, ops[..=i].join("\n"));
            }
        }
        w.out.out.push(line);
    }
    w.out.nontrivial = w.accepted > 0 && (w.refused > 0 || w.dead);
    let mut out = std::mem::take(&mut w.out);
    // drop the node before returning (poisoned mutexes after a panic are fine to drop)
    let _ = catch_unwind(AssertUnwindSafe(move || drop(w)));
    out.tags.insert(format!("accepted:{}", out.out.iter().filter(|l| l.starts_with("ok h=")).count().min(9)));
    out
}

pub fn allowlisted_sids(_unused: &BTreeSet<u64>) {}
