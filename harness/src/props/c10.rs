//! C10 — a refused request changes nothing.
//!
//! Group 0 (`C10Sim`): the node-level simulator (`sim.rs`): random request sequences through the real
//! vls-core entry points, each inside a persister transaction as vlsd runs it.  Monitor: around every
//! request that returns `Err`, the full in-memory view (enforcement state of every channel, monitor
//! state, node invoices/payments/allowlist/velocity/high-water mark, tracker) and the committed store
//! are identical before and after, and `prepare()` reports no pending mutation.
//! Correspondence: the node-level requests (allowlist, keysend, new/forget channel) are also run on
//! the Lean model `nodereq`; channel/tracker requests are compared by the models of C01–C03/C13.
use super::sim::*;
use crate::common::*;
use lightning_signer::util::test_utils::make_test_funding_wallet_addr;

pub struct C10Sim;

pub fn node_model_line(op: &str) -> Option<String> {
    let t: Vec<&str> = op.split_whitespace().collect();
    match t.as_slice() {
        ["al", ..] | ["ks", ..] | ["ksdup", ..] | ["newch", ..] | ["forget", ..] | ["sinv", ..] | ["restart"] => Some(op.to_string()),
        // `world backup`: losing the main store and recovering from the backup is a restart for the model
        ["mainloss"] => Some("restart".to_string()),
        // the heartbeat prunes old stubs, which depends on the tracker height: block requests are in the model too
        ["hb"] | ["blk+", _] | ["blkn", _] | ["blk-", _] => Some(op.to_string()),
        // the same block through the protocol handler's AddBlock arm
        ["HBLK+", g] => Some(format!("blk+ {}", g)),
        _ => None,
    }
}

/// digest of the node-level state the `nodereq` model tracks; block requests print the tracker height
/// relative to the height at which the simulator started instead
pub fn node_digest_for(sim: &Sim, op: &str) -> String {
    if op.starts_with("blk") || op.starts_with("HBLK") {
        return format!("h={}", sim.node().get_chain_height() as i64 - sim.base_height as i64);
    }
    node_digest(sim)
}

pub fn node_digest(sim: &Sim) -> String {
    let node = sim.node();
    let own = make_test_funding_wallet_addr(&node, 5, lightning_signer::node::SpendType::P2wpkh).to_string();
    let mut al: Vec<String> = node.allowlist().unwrap_or_default().into_iter().map(|s| {
        if s.contains("hetd7") { "g".to_string() } else if s.contains("ycu764") { "g2".to_string() } else if s.contains(&own) { "x".to_string() } else { s }
    }).collect();
    al.sort();
    let st = node.get_state();
    // a channel with a permanent id is reachable under both ids: count distinct slots
    let nchan = {
        let chans = node.get_channels();
        let mut ptrs: Vec<usize> = chans.values().map(|a| std::sync::Arc::as_ptr(a) as *const () as usize).collect();
        ptrs.sort();
        ptrs.dedup();
        ptrs.len()
    };
    format!("al=[{}] inv={} iss={} hwm={} chans={}", al.join(","), st.invoices.len(), st.issued_invoices.len(), st.dbid_high_water_mark, nchan)
}

impl Group for C10Sim {
    fn property(&self) -> &'static str { "C10" }
    fn model(&self) -> Option<&'static str> { Some("nodereq") }
    fn rule(&self) -> &'static str {
        "random sequences (len 6-14 quick, up to 30 thorough) over validate-holder/revoke/sign-counterparty/counterparty-revocation/\
         sign-holder/mutual-close (commitment numbers relative to the counters: 0, +-1, +-2; good and bad signatures/secrets), allowlist \
         add/set/remove with good, bad and mixed entries, keysend (new, duplicate hash, over the velocity limit), new/forget channel, heartbeat, \
         block add/remove (good and bad), restart; non-trivial = at least one refused (Err) request after at least one accepted state-changing request"
    }
    fn budget(&self, tier: Tier) -> usize { if tier == Tier::Quick { 400 } else { 6000 } }
    fn model_line(&self, op: &str) -> Option<String> { node_model_line(op) }
    fn corpus(&self) -> Vec<Vec<String>> {
        let c = |s: &str| s.split('|').map(|x| x.to_string()).collect::<Vec<_>>();
        vec![
            // F3: allowlist update with one bad entry
            c("al add g|al set m|al rm m|al add m|al set b"),
            c("al add gg|al rm m|al add x|al rm xg|al add m|al set m"),
            // F9: refused counterparty revocation (revoking the latest signed commitment)
            c("scp 0 0|cpr 0 g|scp 0 1|cpr 0 g|cpr 1 g"),
            // F4: rejected block removal, then the correct one
            c("blk+ g|blk+ g|blk- b|blk- g|blk- g"),
            // revoke without validate, validate twice, revoke stale/future
            c("rv 0|vh 0 g 0|vh 0 g 1|vh 1 g 0|rv 1|rv 0|rv 0|rv -1|rv -2"),
            // closing then further updates are refused
            c("vh 0 g 0|sh 0|rv 0|vh 1 g 3|mc g|scp 0 0"),
            c("ks 1000|ksdup 7|newch 3|newch 3|forget 1|newch 3|newch 2|forget 0|hb|restart|newch 1"),
            // a counterparty whose revocation secrets match the signed points but do not chain
            c("scp 0 0|scpr 0 1|cpr 0 g|scp 0 2|cpr 0 g|scp 0 3|cpr 0 g"),
            c("scpr 0 0|scp 0 1|cpr 0 g|scpr 0 2|cpr 0 g"),
            // refused block requests with a full header window (100 remembered headers)
            c("blkn 100|blk+ b|blk- b|blk- g|blk+ b|blk+ g"),
            c("blkn 97|blk+ b|blk+ g|blk+ b|blk+ g|blk+ b"),
            // commitments refused by the payment-balance validation (outgoing HTLC unapproved / overpaying), every entry point
            c("vh 0 g 9|rv 0|scp 0 9|scp 0 10|scp 0 11|scp1 0 10|vh 0 g 10|vh1 0 g 11|vh 0 g 9|rv 0"),
            c("vh 0 g 10|vh 0 g 0|rv 0|scp 0 11|scp 0 0|cpr 0 g|scp1 0 11|shx 0 b|shx 0 g"),
            // the real protocol handler (world h): retries of ValidateCommitmentTx2 for the initial and for later
            // commitments, with the revocation as a separate message and in the old-protocol composite
            c("world h|HVH 0 g 0|HVH -1 g 0|HVH 0 g 1|HVH 0 g 1|HRV 0|HVH -1 g 1|HVH -1 g 2|HVHO 0 g 2|HVHO -1 g 2|HVHO 0 b 3|HVH 1 g 0|HRV 0|HRV 1"),
            c("world h|HRV 0|HVH 0 b 0|HVHO 0 g 0|HVHO 0 g 10|HVHO 0 g 9|HVHO -1 g 9|HVH 0 g 11|HVH 0 g 0|HRV 0|HRV 0"),
            // the handler's composite requests: validation followed, in the same request, by the next point /
            // the activation (protocol with a separate revoke message) or by the revocation (old protocol)
            c("hvh 0 g 0|rv 0|hvh 1 g 1|hvh 0 g 1|hvh 0 g 0|hvho 0 g 2|hvho 1 g 0|hvh1o 0 g 10|hvh1 0 g 11|hvh1o 0 g 0"),
            c("world fresh|hvh 1 g 0|hvh 0 g 0|hvh 0 g 0|hvh1 0 g 1|hvh 0 g 0|rv 0"),
            // activation requested again while a validated commitment waits for its revocation
            c("vh 0 g 1|act|rv 0|vh 0 g 0|act|shr|act"),
            // initial commitment: activation before validation, refused validation, then the regular flow
            c("world fresh|act|vh 0 b 0|act|vh1 0 g 0|act|act|vh 0 g 1|rv 0"),
            // a refused channel setup leaves the stub a stub; a different invoice for an issued hash is refused
            c("newch 2|setupbad 2 0|setupbad 2 1|newch 2|setupbad 2 2|setupbad 2 3|setupbad 3 0|forget 1"),
            c("sinv 0 100000|sinv 0 1000|sinv 0 100000|sinv 1 0|sinv 1 5000|sinv 1 0|restart|sinv 0 1000"),
            // stubs age out at the heartbeat (more than six blocks); ids can be created again, forgetting them is a no-op
            c("newch 2|newch 3|blkn 6|hb|blk+ g|hb|newch 2|forget 2|forget 1|newch 3|blk- g|blk- g|hb|newch 1"),
            // no remembered header below the tip (fresh from the checkpoint): refused removals must leave the window empty
            c("world bare|blk- b|blk+ b|blk- b|blk+ g|blk- b|blk- g|blk- b|restart|blk- b"),
            // under a filter that demotes policy-other, requests far ahead are refused later than usual
            c("world filter policy-other|sh 3|sh 4|vh 2 g 0|rv 2|scp 2 0|cpr 2 g|sh 2|sh 3|sh 0|vh 0 g 0"),
            c("world filter policy-commitment-retry-same|scp 0 0|scp -1 1|vh 0 g 0|rv 0|vh -1 g 1|cpr 0 b"),
            // the channel map fills up: creation (also of an existing stub) is refused until one is forgotten
            c("newch 1|newch 2|newch 3|newch 4|newch 2|forget 2|newch 4|newch 5|restart|newch 5|forget 1|newch 5"),
            c("world perm|newch 2|newch 3|newch 5|newch 4|newch 3|forget 3|newch 4"),
            // a stale counterparty commitment number with changed HTLCs is refused late
            c("scp 0 0|scp 0 1|scp -1 2|scp -1 5|cpr 0 g|scp -2 1"),
            // a full map of aged stubs: a creation refused for its retired id (and one refused for the full map) must
            // not collect the garbage on the way
            c("newch 5|forget 1|newch 6|newch 7|newch 8|blkn 7|newch 3|newch 9|hb|newch 9|newch 5"),
            // re-signing the funding transaction: accepted, then refused at the signing step
            c("osign g|osign b|vh 0 g 0|rv 0|osign g"),
        ]
    }
    fn gen_case(&self, rng: &mut Rng, tier: Tier) -> Vec<String> {
        let len = rng.range(6, if tier == Tier::Quick { 14 } else { 30 }) as usize;
        let mut ops = gen_ops(rng, len);
        // `osign g` rewrites the node entry, which the node-request model does not follow; issued invoices (`sinv`) are
        // the one thing that entry makes durable late: keep the two apart in model-compared cases
        if ops.iter().any(|o| o.starts_with("sinv")) {
            for o in ops.iter_mut() { if o.starts_with("osign") { *o = "hb".to_string(); } }
        }
        if rng.chance(1, 4) { ops.insert(0, "world perm".to_string()); }
        else if rng.chance(1, 10) { ops.insert(0, "world nocp".to_string()); }
        else if rng.chance(1, 6) {
            // one channel-level policy tag demoted to a warning: whatever is still refused must change nothing
            ops.insert(0, format!("world filter {}", rng.pick(super::sim::FILTER_TAGS)));
        }
        else if rng.chance(1, 10) {
            // a tracker that remembers no header below its tip: refused removals and additions first
            ops.insert(0, "world bare".to_string());
            ops.insert(1, format!("blk- b"));
            if rng.chance(1, 2) { ops.insert(2, "blk+ b".to_string()); }
        }
        else if rng.chance(1, 6) {
            // the real protocol handler on a channel it can address: holder-side requests become wire messages
            ops.insert(0, "world h".to_string());
            for i in 1..ops.len() {
                let t: Vec<String> = ops[i].split(' ').map(|x| x.to_string()).collect();
                if (t[0] == "vh" || t[0] == "vh1" || t[0] == "hvh" || t[0] == "hvh1") && t.len() == 4 {
                    ops[i] = format!("{} {} {} {}", if rng.chance(1, 3) { "HVHO" } else { "HVH" }, t[1], t[2], t[3]);
                } else if t[0] == "rv" && rng.chance(2, 3) {
                    ops[i] = format!("HRV {}", t[1]);
                }
            }
            ops.insert(1, format!("HVH{} 0 g 0", if rng.chance(1, 4) { "O" } else { "" }));
        }
        else if rng.chance(1, 6) {
            let mut pre = vec!["world fresh".to_string()];
            if rng.chance(1, 3) { pre.push("act".to_string()); }
            if rng.chance(1, 3) { pre.push("vh 0 b 0".to_string()); }
            if rng.chance(4, 5) { pre.push(format!("vh{} 0 g 0", if rng.chance(1, 2) { "1" } else { "" })); }
            if rng.chance(4, 5) { pre.push("act".to_string()); }
            for (i, o) in pre.into_iter().enumerate() { ops.insert(i, o); }
        }
        ops
    }
    fn exec_case(&self, ops: &[String]) -> CaseOut {
        let mut co = CaseOut::default();
        let mut sim = Sim::new_world(ops.first().map(|o| o.as_str()).unwrap_or(""));
        let (mut seen_ok_change, mut seen_err) = (false, false);
        for (i, op) in ops.iter().enumerate() {
            if op.starts_with("world ") { co.out.push("ok".into()); continue; }
            let before_view = view(&sim.node(), false);
            let before_store = sim.store_dump();
            let (out, pending) = exec_op(&mut sim, op);
            let after_view = view(&sim.node(), false);
            let after_store = sim.store_dump();
            let kind = op.split(' ').next().unwrap_or("");
            co.tags.insert(format!("{}:{}", kind, out.class().split(':').next().unwrap()));
            match &out {
                Outcome::Err(_) => {
                    seen_err = true;
                    let d = diff_views(&before_view, &after_view);
                    if !d.is_empty() {
                        // the kind names the request and the components that changed, so that a listed
                        // finding suppresses exactly that combination
                        let mut comps: Vec<String> = d.iter().map(|k| {
                            let k = k.split(' ').next().unwrap();
                            if k.starts_with("chan.") { if k.ends_with(".monitor") { "chan.monitor".to_string() } else { "chan".to_string() } }
                            else if k.starts_with("tracker.") { "tracker".to_string() }
                            else if k == "node.allowlist.len" { "node.allowlist".to_string() }
                            else { k.to_string() }
                        }).collect();
                        comps.sort();
                        comps.dedup();
                        co.violations.push(Violation { kind: format!("refused-request-changed-memory:{}:{}", kind, comps.join("+")), desc: format!("{} returned {} but changed {:?}", op, out.class(), d), at: i });
                    }
                    if before_store != after_store {
                        let ks: Vec<&String> = after_store.iter().filter(|(k, v)| before_store.get(*k) != Some(v)).map(|(k, _)| k).collect();
                        co.violations.push(Violation { kind: format!("refused-request-changed-store:{}", kind), desc: format!("{} returned {} but the committed store changed at {:?}", op, out.class(), ks), at: i });
                    }
                    if pending > 0 {
                        co.violations.push(Violation { kind: format!("refused-request-pending-mutations:{}", kind), desc: format!("{} returned {} with {} pending mutations in the transactional store", op, out.class(), pending), at: i });
                    }
                }
                Outcome::Ok => {
                    if before_view != after_view { seen_ok_change = true; }
                }
                Outcome::Panic(_) => {}
            }
            let line = if node_model_line(op).is_some() {
                format!("{} {}", out.class().split(':').next().unwrap(), node_digest_for(&sim, op))
            } else {
                out.class()
            };
            co.out.push(line);
        }
        co.nontrivial = seen_ok_change && seen_err;
        co
    }
}

pub fn groups() -> Vec<Box<dyn Group>> {
    vec![Box::new(C10Sim)]
}
