//! C13, node level: a real persisting `Node` whose `NodeServices` carry 1–4 trusted oracle keys;
//! blocks are connected / disconnected as the protocol handler does (tracker call + `update_tracker`)
//! with real attestations signed by chosen oracle sets, before and after restarts
//! (`Node::restore_node` from the persister).
//!
//! Monitor (independent of the implementation's own idea of the trusted set — the tracker's
//! `trusted_oracle_pubkeys` field is NOT consulted): every accepted block on top of a non-zero filter
//! header must carry valid attestations of at least ⌈n/2⌉ DISTINCT oracles of the set the node was
//! CONFIGURED with; a correctly attested block must be accepted, also after a restart.
//! Model: restart is the identity on the trusted set (Lean `Tracker.restart`, theorem
//! `C13_restart_trusted`); this group is implementation-only.
use super::{mk_block, oracle_key, W13, BAD_SIG, DUMMY_KEY};
use crate::common::*;
use crate::props::c14::world::{coinbase, panic_msg};
use lightning_signer::bitcoin::secp256k1::{PublicKey, Secp256k1};
use lightning_signer::bitcoin::{Block, Network};
use lightning_signer::node::{Node, NodeConfig, NodeServices};
use lightning_signer::persist::Persist;
use lightning_signer::policy::simple_validator::SimpleValidatorFactory;
use lightning_signer::signer::derive::KeyDerivationStyle;
use lightning_signer::txoo::proof::TxoProof;
use lightning_signer::util::clock::ManualClock;
use lightning_signer::util::test_utils::*;
use std::panic::{catch_unwind, AssertUnwindSafe};
use std::sync::Arc;
use std::time::Duration;
use vls_persist::kvv::memory::MemoryKVVStore;
use vls_persist::kvv::{JsonFormat, KVVPersister};

pub struct C13Node;

fn services(persister: Arc<dyn Persist>, trusted: &[u64]) -> NodeServices {
    NodeServices {
        validator_factory: Arc::new(SimpleValidatorFactory::new()),
        starting_time_factory: make_genesis_starting_time_factory(Network::Testnet),
        persister,
        clock: Arc::new(ManualClock::new(Duration::from_secs(1_700_000_000))),
        trusted_oracle_pubkeys: trusted.iter().map(|k| oracle_key(*k).1).collect(),
    }
}

struct WN {
    persister: Arc<dyn Persist>,
    node: Arc<Node>,
    seed: [u8; 32],
    trusted: Vec<u64>,
    blocks: Vec<Block>,
    cb: u32,
}

impl WN {
    fn new(trusted: &[u64]) -> WN {
        let persister: Arc<dyn Persist> = Arc::new(KVVPersister(MemoryKVVStore::new([9u8; 16]), JsonFormat));
        let mut seed = [0u8; 32];
        seed.copy_from_slice(&hex::decode(TEST_SEED[1]).unwrap());
        let config = NodeConfig { network: Network::Testnet, key_derivation_style: KeyDerivationStyle::Native, use_checkpoints: false, allow_deep_reorgs: true };
        let node = Arc::new(Node::new(config, &seed, vec![], services(persister.clone(), trusted)));
        persister.new_node(&node.get_id(), &config, &*node.get_state()).unwrap();
        persister.new_tracker(&node.get_id(), &node.get_tracker()).unwrap();
        node.add_allowlist(&[]).unwrap();
        let mut w = WN { persister, node, seed, trusted: trusted.to_vec(), blocks: vec![], cb: 0 };
        // the genesis tip has a zero filter header (proof bypass): two blocks attested by the full trusted set
        // bring the tip to a real filter header (and above height 0, see restore_node's checkpoint rule)
        let all: Vec<u64> = trusted.to_vec();
        for _ in 0..2 {
            let r = w.add(&all);
            assert_eq!(r, "ok", "set-up block");
        }
        w.blocks.clear();
        w
    }

    fn add(&mut self, keys: &[u64]) -> String {
        self.cb += 1;
        let node = self.node.clone();
        let mut tracker = node.get_tracker();
        let tip = tracker.tip().clone();
        let h = tracker.height();
        // regtest difficulty (the testnet genesis header carries real mainnet-like bits)
        let block = mk_block(tip.0.block_hash(), vec![coinbase(700 + self.cb)], 0x207fffff, 5000 + self.cb, true);
        let base = TxoProof::prove_unchecked(&block, &tip.1, h + 1);
        let fh = base.attestations[0].1.attestation.filter_header;
        let att = if keys.is_empty() { W13::attest(&[DUMMY_KEY], block.block_hash(), h + 1, fh) } else { W13::attest(keys, block.block_hash(), h + 1, fh) };
        let proof = TxoProof { attestations: att, proof: base.proof.clone() };
        match catch_unwind(AssertUnwindSafe(|| tracker.add_block(block.header, proof))) {
            Err(e) => format!("panic {}", panic_msg(e)),
            Ok(Err(e)) => format!("err {:?}", e),
            Ok(Ok(())) => {
                self.persister.update_tracker(&node.get_id(), &tracker).unwrap();
                self.blocks.push(block);
                "ok".into()
            }
        }
    }

    fn remove(&mut self, keys: &[u64]) -> String {
        let block = match self.blocks.last() { Some(b) => b.clone(), None => return "skip".into() };
        let node = self.node.clone();
        let mut tracker = node.get_tracker();
        let prev = tracker.headers()[0].clone();
        let h = tracker.height();
        let base = TxoProof::prove_unchecked(&block, &prev.1, h);
        let fh = base.attestations[0].1.attestation.filter_header;
        let att = if keys.is_empty() { W13::attest(&[DUMMY_KEY], block.block_hash(), h, fh) } else { W13::attest(keys, block.block_hash(), h, fh) };
        let proof = TxoProof { attestations: att, proof: base.proof.clone() };
        match catch_unwind(AssertUnwindSafe(|| tracker.remove_block(proof, prev))) {
            Err(e) => format!("panic {}", panic_msg(e)),
            Ok(Err(e)) => format!("err {:?}", e),
            Ok(Ok(_)) => {
                self.persister.update_tracker(&node.get_id(), &tracker).unwrap();
                self.blocks.pop();
                "ok".into()
            }
        }
    }

    /// (height, tip block hash, tip filter header, remembered block hashes): what the property says only a validated
    /// block may change
    fn snapshot(&self) -> String {
        let tracker = self.node.get_tracker();
        let hs: Vec<String> = tracker.headers().iter().map(|h| h.0.block_hash().to_string()[..8].to_string()).collect();
        format!("h={} tip={} fh={} window=[{}]", tracker.height(), &tracker.tip().0.block_hash().to_string()[..8],
                &tracker.tip().1.to_string()[..8], hs.join(","))
    }

    /// returns the tracker snapshots before and after `restore_node`
    fn restart(&mut self) -> (String, String) {
        let before = self.snapshot();
        let (node_id, entry) = self.persister.get_nodes().unwrap().into_iter().next().unwrap();
        self.node = Node::restore_node(&node_id, entry, &self.seed, services(self.persister.clone(), &self.trusted)).unwrap();
        (before, self.snapshot())
    }
}

fn keys_of(s: &str) -> Vec<u64> {
    if s == "-" { vec![] } else { s.split(',').map(|k| k.parse().unwrap()).collect() }
}

/// distinct configured oracles with a validly signed attestation (a `BAD_SIG + k` entry does not count)
fn distinct_trusted(trusted: &[u64], keys: &[u64]) -> usize {
    let mut d: Vec<u64> = keys.iter().cloned().filter(|k| *k < BAD_SIG && trusted.contains(k)).collect();
    d.sort();
    d.dedup();
    d.len()
}

impl Group for C13Node {
    fn property(&self) -> &'static str { "C13" }
    fn model(&self) -> Option<&'static str> { None }
    fn rule(&self) -> &'static str {
        "node level: real Node + KVV persister, NodeServices configured with 1-4 trusted oracle keys; add/remove requests \
         attested by exactly the majority, one short, one short padded with repeats, untrusted oracles only, an invalid \
         signature — before and after restarts (restore_node with the same configuration); non-trivial = a restart followed \
         by both an accepted and a refused request"
    }
    fn budget(&self, tier: Tier) -> usize { if tier == Tier::Quick { 60 } else { 1500 } }
    fn corpus(&self) -> Vec<Vec<String>> {
        let c = |s: &str| -> Vec<String> { s.split('|').map(|x| x.to_string()).collect() };
        vec![
            // seeded change C13/2 of round 2: after a restart a block attested only by an untrusted oracle must still be refused
            c("ninit 3|nadd 1,2|nrestart|nadd 9|nadd 1|nadd 2,3|nremove 9|nremove 1,3"),
            c("ninit 1|nadd 1|nrestart|nadd 5,6|nadd 1|nrestart|nremove 9|nremove 1"),
            c("ninit 4|nadd 3,4|nadd 3,3|nrestart|nadd 4,4,9|nadd 4,1"),
        ]
    }
    fn gen_case(&self, rng: &mut Rng, _tier: Tier) -> Vec<String> {
        let n = rng.range(1, 4);
        let trusted: Vec<u64> = (1..=n).collect();
        let need = ((n + 1) / 2) as usize;
        let mut ops = vec![format!("ninit {}", n)];
        let mut depth = 0;
        for _ in 0..rng.range(4, 10) {
            if rng.chance(1, 4) { ops.push("nrestart".into()); }
            let mut pool = trusted.clone();
            for i in (1..pool.len()).rev() { let j = rng.below(i as u64 + 1) as usize; pool.swap(i, j); }
            let mut ks: Vec<u64> = match rng.below(6) {
                0 | 1 => pool.iter().cloned().take(need).collect(),                       // exactly the majority
                2 => pool.iter().cloned().take(need + rng.below((n as usize - need + 1) as u64) as usize).collect(),
                3 => pool.iter().cloned().take(need - 1).collect(),                        // one short
                4 => { let mut v: Vec<u64> = pool.iter().cloned().take(need - 1).collect(); while !v.is_empty() && v.len() < need.max(2) { let r = *rng.pick(&v); v.push(r); } v } // padded with repeats
                _ => vec![DUMMY_KEY, 5],                                                   // untrusted only
            };
            if rng.chance(1, 4) { ks.push(*rng.pick(&[DUMMY_KEY, 5, 6])); }
            if rng.chance(1, 12) && !ks.is_empty() { let i = rng.below(ks.len() as u64) as usize; ks[i] += BAD_SIG; }
            let kstr = if ks.is_empty() { "-".to_string() } else { ks.iter().map(|k| k.to_string()).collect::<Vec<_>>().join(",") };
            if depth > 0 && rng.chance(1, 3) {
                ops.push(format!("nremove {}", kstr));
                if distinct_trusted(&trusted, &ks) >= need && !ks.iter().any(|k| *k >= BAD_SIG) { depth -= 1; }
            } else {
                ops.push(format!("nadd {}", kstr));
                if distinct_trusted(&trusted, &ks) >= need && !ks.iter().any(|k| *k >= BAD_SIG) { depth += 1; }
            }
        }
        ops
    }
    fn exec_case(&self, ops: &[String]) -> CaseOut {
        let mut co = CaseOut::default();
        let mut w: Option<WN> = None;
        let mut dead = false;
        let (mut restarted, mut ok_after, mut ref_after) = (false, false, false);
        for (i, op) in ops.iter().enumerate() {
            if dead { co.out.push("dead".into()); continue; }
            let t: Vec<&str> = op.split_whitespace().collect();
            match t.as_slice() {
                ["ninit", n] => {
                    let trusted: Vec<u64> = (1..=n.parse::<u64>().unwrap()).collect();
                    w = Some(WN::new(&trusted));
                    co.out.push("ok".into());
                }
                ["nrestart"] => {
                    let (before, after) = w.as_mut().expect("ninit first").restart();
                    // round 9: a restart is not a block — tip, height and the remembered headers come back as persisted
                    // (above height 0; a tracker at height 0 is fast-forwarded to the compiled-in checkpoint by design)
                    if before != after {
                        co.violations.push(Violation { kind: "restart-moved-tracker".into(),
                            desc: format!("restore_node changed the chain tracker without a validated block: before [{}], after [{}]", before, after), at: i });
                    }
                    restarted = true;
                    co.tags.insert("restart".into());
                    co.out.push("ok".into());
                }
                [kind @ ("nadd" | "nremove"), ks] => {
                    let wd = w.as_mut().expect("ninit first");
                    let keys = keys_of(ks);
                    let need = (wd.trusted.len() + 1) / 2;
                    let have = distinct_trusted(&wd.trusted, &keys);
                    let bad_sig = keys.iter().any(|k| *k >= BAD_SIG);
                    let correct = have >= need && !bad_sig;
                    let r = if *kind == "nadd" { wd.add(&keys) } else { wd.remove(&keys) };
                    if r == "skip" { co.out.push(r); continue; }
                    let phase = if restarted { "after-restart" } else { "before-restart" };
                    if r.starts_with("panic") {
                        dead = true;
                        co.violations.push(Violation { kind: "tracker-abort".into(), desc: format!("{} panicked: {}", op, r), at: i });
                    } else if r == "ok" {
                        co.tags.insert(format!("{}:ok:{}", kind, phase));
                        if restarted { ok_after = true; }
                        if !correct {
                            co.violations.push(Violation {
                                kind: "accepted-block-without-oracle-majority".into(),
                                desc: format!("{} ({}) accepted although only {} distinct configured oracle(s) of {} attested validly (need {}{})", op, phase, have, wd.trusted.len(), need, if bad_sig { "; the proof carries an invalid signature" } else { "" }),
                                at: i,
                            });
                        }
                    } else {
                        co.tags.insert(format!("{}:refused:{}", kind, phase));
                        if restarted { ref_after = true; }
                        if correct {
                            co.violations.push(Violation { kind: "correct-request-rejected".into(), desc: format!("{} ({}) with {} of {} configured oracles was refused: {}", op, phase, have, wd.trusted.len(), r), at: i });
                        }
                    }
                    co.out.push(r.split(' ').next().unwrap().to_string());
                }
                _ => co.out.push("bad-op".into()),
            }
        }
        let _: Option<PublicKey> = None;
        let _ = Secp256k1::new();
        co.nontrivial = restarted && ok_after && ref_after;
        co
    }
}
