//! Shared test world for C13–C15: a real node + channel, a pool of real transactions around the
//! channel (funding, closes built with the channel's keys, sweeps, HTLC spends), real blocks.
use lightning_signer::bitcoin::absolute::LockTime;
use lightning_signer::bitcoin::consensus::serialize;
use lightning_signer::bitcoin::hashes::Hash;
use lightning_signer::bitcoin::transaction::Version;
use lightning_signer::bitcoin::{Amount, Block, OutPoint, ScriptBuf, Sequence, Transaction, TxIn, TxOut, Txid, Witness};
use lightning_signer::chain::tracker::ChainTracker;
use lightning_signer::channel::{ChannelBase, ChannelId, CommitmentType};
use lightning_signer::lightning::types::payment::PaymentHash;
use lightning_signer::monitor::ChainMonitor;
use lightning_signer::node::{Node, NodeConfig, NodeServices};
use lightning_signer::persist::Persist;
use lightning_signer::policy::simple_validator::SimpleValidatorFactory;
use lightning_signer::signer::derive::KeyDerivationStyle;
use lightning_signer::util::clock::ManualClock;
use vls_persist::kvv::memory::MemoryKVVStore;
use vls_persist::kvv::{JsonFormat, KVVPersister};
use lightning_signer::tx::tx::{CommitmentInfo2, HTLCInfo2};
use lightning_signer::txoo::proof::{ProofType, TxoProof};
use lightning_signer::util::test_utils::*;
use std::collections::{BTreeMap, HashMap};
use std::panic::{catch_unwind, AssertUnwindSafe};
use std::str::FromStr;
use std::sync::{Arc, OnceLock};

pub const F: u64 = 1; // funding tx (inputs 0.1, 0.2)
pub const D: u64 = 2; // double-spend of funding input 0.2
pub const M: u64 = 3; // mutual close
pub const U: u64 = 4; // holder commitment: our output + 2 offered HTLCs
pub const S: u64 = 5; // sweep of our output
pub const T1: u64 = 6; // HTLC 1 spend
pub const T2: u64 = 7; // HTLC 2 spend
pub const T12: u64 = 8; // one tx spending both HTLC outputs
pub const V1: u64 = 9; // second-level spend of T1:0
pub const V2: u64 = 10; // second-level spend of T2:0
pub const V12A: u64 = 11; // second-level spend of T12:0
pub const V12B: u64 = 12; // second-level spend of T12:1
pub const D2: u64 = 13; // double-spend of the other funding input 0.1 (independent of D)
pub const UC: u64 = 14; // counterparty commitment (no HTLC) paying us a to_remote output
pub const SC: u64 = 15; // sweep of our to_remote output of UC
pub const UR: u64 = 16; // an OLD (revoked) counterparty commitment, number 5, no HTLC (breach)
pub const SR: u64 = 17; // sweep of our to_remote output of UR
pub const JR: u64 = 18; // justice spend of the counterparty's to_local output of UR
pub const UN: u64 = 19; // counterparty commitment that pays us nothing (no to_remote output): nothing of ours to sweep
pub const X0: u64 = 20; // unrelated transactions X0..X0+9
pub const UP: u64 = 31; // the counterparty's PREVIOUS, not yet revoked commitment (number 22) with an HTLC we offered
pub const SP: u64 = 32; // sweep of our to_remote output of UP
pub const TP: u64 = 33; // our timeout claim of the HTLC output of UP
pub const VP: u64 = 34; // spend of that claim's output
pub const TC: u64 = 35; // our timeout claim of the HTLC output of UC (an HTLC that exists only in the current commitment)
pub const VC: u64 = 36; // spend of that claim's output

/// Deliver a block connection the way the real front end does: compact proof, or — when requested, or
/// when the compact filter has a false positive for a watched outpoint (`TxoProof::verify` refuses the
/// filter proof) — streamed (`block_chunk` + `ProofType::ExternalBlock`).  May panic (caller catches).
/// Compact proof as a real follower builds it (`TxoProof::prove`): the SPV part contains only the transactions
/// matched by the watches the signer reports (`ForwardWatches` for a connection, `ReverseWatches` for a
/// disconnection) and their descendants.  Every second block (by hash) gets such a proof, the others a proof with
/// all transactions of the block.
pub fn compact_proof(tracker: &ChainTracker<ChainMonitor>, block: &Block, prev_fh: &lightning_signer::bitcoin::hash_types::FilterHeader, height: u32, reverse: bool) -> TxoProof {
    let base = TxoProof::prove_unchecked(block, prev_fh, height);
    if block.block_hash().to_byte_array()[1] % 2 == 0 {
        return base;
    }
    let (txids, outpoints) = if reverse { tracker.get_all_reverse_watches() } else { tracker.get_all_forward_watches() };
    let spv = lightning_signer::txoo::spv::SpvProof::build(block, &txids, &outpoints).0;
    match &base.proof {
        ProofType::Filter(f, _) => TxoProof { attestations: base.attestations.clone(), proof: ProofType::Filter(f.clone(), spv) },
        _ => base,
    }
}

pub fn deliver_add(tracker: &mut ChainTracker<ChainMonitor>, block: &Block, want_streamed: bool) -> Result<bool, lightning_signer::chain::tracker::Error> {
    let tip = tracker.tip().clone();
    let h = tracker.height();
    let proof = compact_proof(tracker, block, &tip.1, h + 1, false);
    let secp = lightning_signer::bitcoin::secp256k1::Secp256k1::new();
    let watches = tracker.get_all_forward_watches().1;
    let zero = tip.1.to_byte_array().iter().all(|x| *x == 0);
    let fp = !zero && proof.verify(h + 1, &block.header, None, &tip.1, &watches, &secp).is_err();
    if want_streamed || fp {
        let ext = TxoProof { attestations: proof.attestations.clone(), proof: ProofType::ExternalBlock() };
        stream_block(tracker, block);
        tracker.add_block(block.header, ext).map(|_| fp)
    } else {
        tracker.add_block(block.header, proof).map(|_| fp)
    }
}

/// The same for the disconnection of the tip `block`.
pub fn deliver_remove(tracker: &mut ChainTracker<ChainMonitor>, block: &Block, want_streamed: bool) -> Result<bool, lightning_signer::chain::tracker::Error> {
    // the previous headers as the tracker remembers them; if its window is exhausted the request names the parent by
    // hash only (the tracker then answers ReorgTooDeep unless deep reorgs are allowed)
    let prev = match tracker.headers().get(0) {
        Some(p) => p.clone(),
        None => {
            let mut h = block.header;
            h.prev_blockhash = lightning_signer::bitcoin::BlockHash::all_zeros();
            lightning_signer::chain::tracker::Headers(h, lightning_signer::bitcoin::hash_types::FilterHeader::all_zeros())
        }
    };
    let h = tracker.height();
    let proof = compact_proof(tracker, block, &prev.1, h, true);
    let secp = lightning_signer::bitcoin::secp256k1::Secp256k1::new();
    let watches = tracker.get_all_reverse_watches().1;
    let zero = prev.1.to_byte_array().iter().all(|x| *x == 0);
    let fp = !zero && proof.verify(h, &block.header, None, &prev.1, &watches, &secp).is_err();
    if want_streamed || fp {
        let ext = TxoProof { attestations: proof.attestations.clone(), proof: ProofType::ExternalBlock() };
        stream_block(tracker, block);
        tracker.remove_block(ext, prev).map(|_| fp)
    } else {
        tracker.remove_block(proof, prev).map(|_| fp)
    }
}

/// stream a block in one to three chunks (split points derived from the block hash)
pub fn stream_block(tracker: &mut ChainTracker<ChainMonitor>, block: &Block) {
    let bytes = serialize(block);
    let hash = block.block_hash();
    let hb = hash.to_byte_array();
    let pieces = 1 + (hb[0] % 3) as usize;
    let mut cuts: Vec<usize> = (1..pieces).map(|i| (bytes.len() * i / pieces + (hb[i] as usize % 7)).min(bytes.len() - 1).max(1)).collect();
    cuts.push(bytes.len());
    let mut off = 0usize;
    for c in cuts {
        if c <= off { continue; }
        tracker.block_chunk(hash, off as u32, &bytes[off..c]).unwrap();
        off = c;
    }
}

fn world_services(persister: Arc<dyn Persist>) -> NodeServices {
    NodeServices {
        validator_factory: Arc::new(SimpleValidatorFactory::new()),
        starting_time_factory: make_genesis_starting_time_factory(lightning_signer::bitcoin::Network::Testnet),
        persister,
        clock: Arc::new(ManualClock::new(std::time::Duration::from_secs(1_700_000_000))),
        trusted_oracle_pubkeys: vec![],
    }
}

pub enum StepResult {
    Ok,
    Err(String),
    Panic(String),
}

pub fn panic_msg(e: Box<dyn std::any::Any + Send>) -> String {
    if let Some(s) = e.downcast_ref::<String>() {
        s.replace('\n', " ")
    } else if let Some(s) = e.downcast_ref::<&str>() {
        s.to_string()
    } else {
        "?".into()
    }
}

pub fn mk_tx(inputs: Vec<OutPoint>, n_out: usize, tag: u32) -> Transaction {
    Transaction {
        version: Version::non_standard(0),
        lock_time: LockTime::from_consensus(tag),
        input: inputs
            .into_iter()
            .map(|previous_output| TxIn {
                previous_output,
                script_sig: Default::default(),
                sequence: Sequence::ZERO,
                witness: Witness::default(),
            })
            .collect(),
        output: (0..n_out).map(|_| TxOut { value: Amount::from_sat(tag as u64), script_pubkey: ScriptBuf::new() }).collect(),
    }
}

pub fn coinbase(n: u32) -> Transaction {
    Transaction {
        version: Version::non_standard(0),
        lock_time: LockTime::from_consensus(400_000 + n),
        input: vec![],
        output: vec![TxOut { value: Default::default(), script_pubkey: Default::default() }],
    }
}

pub struct World {
    pub node: Arc<Node>,
    pub channel_id: ChannelId,
    pub funding_outpoint: OutPoint,
    pub txs: BTreeMap<u64, Transaction>,
    pub ids: HashMap<Txid, u64>,
    pub blocks: Vec<Block>,
    pub cb: u32,
    pub base_height: u32,
    pub filter_false_positives: u32,
    pub persister: Arc<dyn Persist>,
    pub seed: [u8; 32],
    /// per closing tx: (index of the output the harness built as ours, HTLC output indices it built)
    pub built: BTreeMap<u64, (Option<u32>, Vec<u32>)>,
    /// spender id -> [(vout of the closing tx it spends, input index)] for the tracked non-ours outputs
    pub htlc_spends: BTreeMap<u64, Vec<(u32, u32)>>,
    pub ctype: String,
}

pub fn parse_token_id(tk: &str) -> u64 {
    tk.trim_start_matches('T').split(':').next().unwrap().parse().expect("tx token")
}

static TOKENS: OnceLock<std::sync::Mutex<BTreeMap<String, &'static BTreeMap<u64, String>>>> = OnceLock::new();

impl World {
    /// pool transactions that do not depend on the node
    fn funding_tx() -> Transaction {
        mk_tx(vec![make_outpoint(1), make_outpoint(2)], 1, 11)
    }

    pub fn new() -> World {
        Self::new_typed("s")
    }

    /// channel type: "s" static-remotekey, "a" anchors zero-fee-HTLC, "l" legacy
    pub fn new_typed(ct: &str) -> World {
        let funding_tx = Self::funding_tx();
        let funding_outpoint = OutPoint::new(funding_tx.compute_txid(), 0);
        let mut setup = make_test_channel_setup();
        setup.funding_outpoint = funding_outpoint;
        setup.commitment_type = match ct {
            "a" => CommitmentType::AnchorsZeroFeeHtlc,
            "l" => CommitmentType::Legacy,
            _ => CommitmentType::StaticRemoteKey,
        };
        // a persisting node (so that the world can be restarted through `Node::restore_node`), set up exactly like
        // the repo's `init_node_and_channel` otherwise
        let persister: Arc<dyn Persist> = Arc::new(KVVPersister(MemoryKVVStore::new([5u8; 16]), JsonFormat));
        let mut seed = [0u8; 32];
        seed.copy_from_slice(&hex::decode(TEST_SEED[1]).unwrap());
        let config = NodeConfig { network: lightning_signer::bitcoin::Network::Testnet, key_derivation_style: KeyDerivationStyle::Native, use_checkpoints: false, allow_deep_reorgs: false };
        let node = Arc::new(Node::new(config, &seed, vec![], world_services(persister.clone())));
        persister.new_node(&node.get_id(), &config, &*node.get_state()).unwrap();
        persister.new_tracker(&node.get_id(), &node.get_tracker()).unwrap();
        node.add_allowlist(&[]).unwrap();
        let channel_id = init_channel(setup.clone(), node.clone());
        // what sign_onchain_tx does for the funding inputs
        node.with_channel(&channel_id, |chan| {
            chan.monitor.add_funding_inputs(&funding_tx);
            Ok(())
        })
        .unwrap();
        {
            let mut tracker = node.get_tracker();
            let inputs = funding_tx.input.iter().map(|i| i.previous_output).collect();
            tracker.add_listener_watches(&funding_outpoint, inputs);
            persister.update_tracker(&node.get_id(), &tracker).unwrap();
        }
        // holder commitment 23 with our output and two offered HTLCs, known to the enforcement state
        let commit_num = 23u64;
        let cp_point = lightning_signer::util::test_utils::key::make_test_pubkey(12);
        let prev_point = lightning_signer::util::test_utils::key::make_test_pubkey(14);
        let (up_to_holder, up_to_cp) = (1_400_000u64, 1_500_000u64);
        let we_offered = vec![HTLCInfo2 { value_sat: 50_000, payment_hash: PaymentHash([7; 32]), cltv_expiry: 130 }];
        let we_offered_now = vec![HTLCInfo2 { value_sat: 60_000, payment_hash: PaymentHash([8; 32]), cltv_expiry: 140 }];
        let (uc_to_holder, uc_to_cp) = (1_100_000u64, 1_820_000u64);
        let (to_holder, to_cp, feerate) = (1_000_000u64, 1_900_000u64, 1000u32);
        let offered = vec![
            HTLCInfo2 { value_sat: 30_000, payment_hash: PaymentHash([1; 32]), cltv_expiry: 100 },
            HTLCInfo2 { value_sat: 40_000, payment_hash: PaymentHash([2; 32]), cltv_expiry: 150 },
        ];
        node.with_channel(&channel_id, |chan| {
            chan.set_next_holder_commit_num_for_testing(commit_num + 1);
            // the counterparty has signed 22 (previous, not yet revoked) and 23 (current)
            chan.set_next_counterparty_commit_num_for_testing(commit_num, prev_point);
            chan.set_next_counterparty_commit_num_for_testing(commit_num + 1, cp_point);
            chan.set_next_counterparty_revoke_num_for_testing(commit_num - 1);
            chan.enforcement_state.previous_counterparty_commit_info =
                Some(CommitmentInfo2::new(true, up_to_holder, up_to_cp, vec![], we_offered.clone(), feerate));
            // the current commitment 23 carries a DIFFERENT HTLC (the one of 22 was resolved, a new one was offered)
            chan.enforcement_state.current_counterparty_commit_info =
                Some(CommitmentInfo2::new(true, uc_to_holder, uc_to_cp, vec![], we_offered_now.clone(), feerate));
            chan.enforcement_state.current_holder_commit_info =
                Some(CommitmentInfo2::new(false, to_cp, to_holder, offered.clone(), vec![], feerate));
            persister.update_channel(&node.get_id(), chan).unwrap();
            Ok(())
        })
        .unwrap();
        // the counterparty's commitment 23 (one HTLC we offered, not present in 22): to_local of the counterparty + our to_remote output
        // (p2wpkh for static-remotekey, anchored p2wsh for anchors) + anchors outputs where the type has them
        let uc = node
            .with_channel(&channel_id, |chan| {
                let oic = lightning_signer::channel::Channel::htlcs_info2_to_oic(&vec![], &we_offered_now);
                Ok(chan.make_counterparty_commitment_tx(&cp_point, commit_num, feerate, uc_to_holder, uc_to_cp, oic))
            })
            .unwrap()
            .trust()
            .built_transaction()
            .transaction
            .clone();
        let uc_our = uc.output.iter().position(|o| o.value.to_sat() == uc_to_holder).expect("to_remote output") as u32;
        let uc_h = uc.output.iter().position(|o| o.value.to_sat() == 60_000).expect("htlc output") as u32;
        let tc = mk_tx(vec![OutPoint::new(uc.compute_txid(), uc_h)], 1, 30);
        let vc = mk_tx(vec![OutPoint::new(tc.compute_txid(), 0)], 1, 31);
        let up = node
            .with_channel(&channel_id, |chan| {
                let oic = lightning_signer::channel::Channel::htlcs_info2_to_oic(&vec![], &we_offered);
                Ok(chan.make_counterparty_commitment_tx(&prev_point, commit_num - 1, feerate, up_to_holder, up_to_cp, oic))
            })
            .unwrap()
            .trust()
            .built_transaction()
            .transaction
            .clone();
        let up_our = up.output.iter().position(|o| o.value.to_sat() == up_to_holder).expect("to_remote output") as u32;
        let up_h = up.output.iter().position(|o| o.value.to_sat() == 50_000).expect("htlc output") as u32;
        let sp = mk_tx(vec![OutPoint::new(up.compute_txid(), up_our)], 1, 27);
        let tp = mk_tx(vec![OutPoint::new(up.compute_txid(), up_h)], 1, 28);
        let vp = mk_tx(vec![OutPoint::new(tp.compute_txid(), 0)], 1, 29);
        let un = node
            .with_channel(&channel_id, |chan| Ok(chan.make_counterparty_commitment_tx(&cp_point, commit_num, feerate, 0, 2_975_000, vec![])))
            .unwrap()
            .trust()
            .built_transaction()
            .transaction
            .clone();
        let old_point = lightning_signer::util::test_utils::key::make_test_pubkey(13);
        let (ur_to_holder, ur_to_cp) = (1_200_000u64, 1_780_000u64);
        let ur = node
            .with_channel(&channel_id, |chan| Ok(chan.make_counterparty_commitment_tx(&old_point, 5, feerate, ur_to_holder, ur_to_cp, vec![])))
            .unwrap()
            .trust()
            .built_transaction()
            .transaction
            .clone();
        let ur_our = ur.output.iter().position(|o| o.value.to_sat() == ur_to_holder).expect("to_remote output") as u32;
        let ur_local = ur.output.iter().position(|o| o.value.to_sat() == ur_to_cp).expect("to_local output") as u32;
        let sr = mk_tx(vec![OutPoint::new(ur.compute_txid(), ur_our)], 1, 25);
        let jr = mk_tx(vec![OutPoint::new(ur.compute_txid(), ur_local)], 1, 26);
        let secp_ctx = lightning_signer::bitcoin::secp256k1::Secp256k1::signing_only();
        let node_ctx = TestNodeContext { node: node.clone(), secp_ctx };
        let counterparty_keys = make_test_counterparty_keys(&node_ctx, &channel_id, setup.channel_value_sat);
        let chan_ctx = TestChannelContext { channel_id: channel_id.clone(), setup: setup.clone(), counterparty_keys };
        let commit = channel_commitment(&node_ctx, &chan_ctx, commit_num, feerate, to_holder, to_cp, offered.clone(), vec![])
            .tx
            .unwrap();
        let u = commit.trust().built_transaction().transaction.clone();
        let utxid = u.compute_txid();
        let pos = |sat: u64| u.output.iter().position(|o| o.value.to_sat() == sat).expect("output") as u32;
        let (our, h1, h2) = (pos(to_holder), pos(30_000), pos(40_000));

        let mut txs = BTreeMap::new();
        txs.insert(F, funding_tx.clone());
        txs.insert(D, mk_tx(vec![make_outpoint(2)], 1, 12));
        txs.insert(D2, mk_tx(vec![make_outpoint(1)], 1, 23));
        txs.insert(M, mk_tx(vec![funding_outpoint], 2, 13));
        txs.insert(U, u);
        txs.insert(SC, mk_tx(vec![OutPoint::new(uc.compute_txid(), uc_our)], 1, 24));
        txs.insert(UC, uc);
        txs.insert(UR, ur);
        txs.insert(UN, un);
        txs.insert(TC, tc);
        txs.insert(VC, vc);
        txs.insert(UP, up);
        txs.insert(SP, sp);
        txs.insert(TP, tp);
        txs.insert(VP, vp);
        txs.insert(SR, sr);
        txs.insert(JR, jr);
        txs.insert(S, mk_tx(vec![OutPoint::new(utxid, our)], 1, 15));
        let t1 = mk_tx(vec![OutPoint::new(utxid, h1)], 1, 16);
        let t2 = mk_tx(vec![OutPoint::new(utxid, h2)], 1, 17);
        let t12 = mk_tx(vec![OutPoint::new(utxid, h1), OutPoint::new(utxid, h2)], 2, 18);
        txs.insert(V1, mk_tx(vec![OutPoint::new(t1.compute_txid(), 0)], 1, 19));
        txs.insert(V2, mk_tx(vec![OutPoint::new(t2.compute_txid(), 0)], 1, 20));
        txs.insert(V12A, mk_tx(vec![OutPoint::new(t12.compute_txid(), 0)], 1, 21));
        txs.insert(V12B, mk_tx(vec![OutPoint::new(t12.compute_txid(), 1)], 1, 22));
        txs.insert(T1, t1);
        txs.insert(T2, t2);
        txs.insert(T12, t12);
        for i in 0..10u64 {
            txs.insert(X0 + i, mk_tx(vec![make_outpoint(50 + i as u32)], 1, 100 + i as u32));
        }
        let mut ids = HashMap::new();
        ids.insert(Txid::all_zeros(), 0u64);
        for (k, t) in &txs {
            ids.insert(t.compute_txid(), *k);
        }
        let base_height = node.get_tracker().height();
        World { persister, seed, node, channel_id, funding_outpoint, txs, ids, blocks: vec![], cb: 0, base_height, filter_false_positives: 0, built: BTreeMap::from([(U, (Some(our), vec![h1.min(h2), h1.max(h2)])), (UC, (Some(uc_our), vec![uc_h])), (UR, (Some(ur_our), vec![ur_local])), (UN, (None, vec![])), (UP, (Some(up_our), vec![up_h]))]), htlc_spends: BTreeMap::from([(T1, vec![(h1, 0)]), (T2, vec![(h2, 0)]), (T12, vec![(h1, 0), (h2, 1)]), (JR, vec![(ur_local, 0)]), (TP, vec![(up_h, 0)]), (TC, vec![(uc_h, 0)])]), ctype: ct.to_string() }
    }

    /// tx tokens `T<id>:<inputs>:<nOut>:<kind>`; the kind of the two closing transactions comes from
    /// the real decoder, observed through a scratch monitor.
    fn tokens() -> &'static BTreeMap<u64, String> {
        Self::tokens_typed("s")
    }

    pub fn tokens_typed(ct: &str) -> &'static BTreeMap<u64, String> {
        let reg = TOKENS.get_or_init(|| std::sync::Mutex::new(BTreeMap::new()));
        if let Some(t) = reg.lock().unwrap().get(ct) {
            return t;
        }
        let built: &'static BTreeMap<u64, String> = Box::leak(Box::new({
            let w = World::new_typed(ct);
            // kind of the closing transactions = what the commitment decoder must answer for the transactions
            // the harness built (our output index, HTLC output indices in output order); the real decoder's answer
            // is compared with it after every block that confirms one of them (`our-output-not-recognised`)
            let mut kinds: BTreeMap<u64, String> = BTreeMap::new();
            kinds.insert(M, "p".to_string());
            for id in [U, UC, UR, UN, UP] {
                let (our, hs) = w.built[&id].clone();
                let our = our.map(|x| x.to_string()).unwrap_or("-".into());
                let hs: Vec<String> = hs.iter().map(|x| x.to_string()).collect();
                kinds.insert(id, format!("c{}/{}", our, if hs.is_empty() { "-".into() } else { hs.join(",") }));
            }
            let mut m = BTreeMap::new();
            for (k, t) in &w.txs {
                let ins: Vec<String> = t.input.iter().map(|i| w.op_str(&i.previous_output)).collect();
                m.insert(
                    *k,
                    format!(
                        "T{}:{}:{}:{}",
                        k,
                        if ins.is_empty() { "-".into() } else { ins.join(";") },
                        t.output.len(),
                        kinds.get(k).cloned().unwrap_or("p".into())
                    ),
                );
            }
            m
        }));
        reg.lock().unwrap().insert(ct.to_string(), built);
        built
    }

    /// a world used only to print tokens (generation side)
    pub fn shared() -> TokenWorld {
        TokenWorld { base_height: Self::base_height() }
    }

    fn base_height() -> u32 {
        static H: OnceLock<u32> = OnceLock::new();
        *H.get_or_init(|| World::new().base_height)
    }

    pub fn token(&self, id: u64) -> String {
        Self::tokens().get(&id).expect("pool id").clone()
    }

    pub fn init_line(&self) -> String {
        TokenWorld { base_height: self.base_height }.init_line()
    }

    pub fn op_str(&self, o: &OutPoint) -> String {
        op_str_ids(&self.ids, o)
    }

    /// crash + `Node::restore_node` from the persister
    pub fn restart(&mut self) -> StepResult {
        let (node_id, entry) = self.persister.get_nodes().unwrap().into_iter().next().unwrap();
        let seed = self.seed;
        let p = self.persister.clone();
        match catch_unwind(AssertUnwindSafe(|| Node::restore_node(&node_id, entry, &seed, world_services(p)))) {
            Ok(Ok(n)) => { self.node = n; StepResult::Ok }
            Ok(Err(e)) => StepResult::Err(format!("{:?}", e)),
            Err(e) => StepResult::Panic(panic_msg(e)),
        }
    }

    pub fn monitor(&self) -> ChainMonitor {
        self.node.get_tracker().listeners.get(&self.funding_outpoint).expect("listener").0.clone()
    }

    pub fn state_json(&self) -> serde_json::Value {
        let m = self.monitor();
        let st = m.get_state();
        serde_json::to_value(&*st).unwrap()
    }

    pub fn state_digest(&self, st: &serde_json::Value) -> String {
        state_digest_ids(&self.ids, st)
    }

    pub fn set_str(&self, s: &lightning_signer::OrderedSet<OutPoint>) -> String {
        set_str_ids(&self.ids, s)
    }
}

pub fn op_str_ids(ids: &HashMap<Txid, u64>, o: &OutPoint) -> String {
    format!("{}.{}", ids.get(&o.txid).cloned().unwrap_or(999), o.vout)
}

pub fn set_str_ids(ids: &HashMap<Txid, u64>, s: &lightning_signer::OrderedSet<OutPoint>) -> String {
    let mut v: Vec<(u64, u32)> = s.iter().map(|o| (ids.get(&o.txid).cloned().unwrap_or(999), o.vout)).collect();
    v.sort();
    format!("[{}]", v.iter().map(|(a, b)| format!("{}.{}", a, b)).collect::<Vec<_>>().join(","))
}

pub fn listener_digest_ids(tracker: &ChainTracker<ChainMonitor>, key: &OutPoint, ids: &HashMap<Txid, u64>) -> String {
    let (m, slot) = tracker.listeners.get(key).expect("listener");
    let st = serde_json::to_value(&*m.get_state()).unwrap();
    // the views other components read, through the real accessors
    // (`as_chain_state` does plain u32 arithmetic under the state lock: evaluated on a copy of the state, so that an
    // underflow - possible only after a removal that did not carry the transactions of the block it removes, as the
    // C13 generator produces on top of a zero filter header - does not poison the monitor's own mutex)
    let copy = lightning_signer::monitor::ChainMonitorBase::new_from_persistence(
        *key, m.get_state().clone(), &lightning_signer::channel::ChannelId::new(&[0u8; 32]));
    let cs = match catch_unwind(AssertUnwindSafe(|| copy.as_chain_state())) {
        Ok(c) => format!("{},{},{},{}", c.current_height, c.funding_depth, c.funding_double_spent_depth, c.closing_depth),
        Err(_) => "panic".to_string(),
    };
    let view = format!("v={},{},{};{}", m.funding_depth(), m.funding_double_spent_depth(), m.closing_depth(), cs);
    format!("{} w={} seen={} {}", state_digest_ids(ids, &st), set_str_ids(ids, &slot.watches), set_str_ids(ids, &slot.seen), view)
}

pub struct StateDigester<'a> {
    ids: &'a HashMap<Txid, u64>,
}

pub fn state_digest_ids(ids: &HashMap<Txid, u64>, st: &serde_json::Value) -> String {
    StateDigester { ids }.state_digest(st)
}

impl<'a> StateDigester<'a> {
    fn json_op(&self, v: &serde_json::Value) -> String {
        if v.is_null() {
            return "-".into();
        }
        let o = OutPoint::from_str(v.as_str().expect("outpoint string")).expect("outpoint");
        op_str_ids(self.ids, &o)
    }

    pub fn state_digest(&self, st: &serde_json::Value) -> String {
        let on = |v: &serde_json::Value| if v.is_null() { "-".to_string() } else { v.to_string() };
        let bit = |v: &serde_json::Value| if v.as_bool().unwrap_or(false) { "1" } else { "0" };
        let co = &st["closing_outpoints"];
        let cos = if co.is_null() {
            "-".to_string()
        } else {
            let txid = Txid::from_str(co["txid"].as_str().unwrap()).unwrap();
            let our = if co["our_output"].is_null() {
                "-".to_string()
            } else {
                format!("{}+{}", co["our_output"][0], bit(&co["our_output"][1]))
            };
            let j = |a: &serde_json::Value, f: &dyn Fn(&serde_json::Value) -> String, sep: &str| {
                let v: Vec<String> = a.as_array().unwrap().iter().map(|x| f(x)).collect();
                if v.is_empty() { "-".to_string() } else { v.join(sep) }
            };
            format!(
                "{}/{}/{}/{}/{}",
                self.ids.get(&txid).cloned().unwrap_or(999),
                our,
                j(&co["htlc_outputs"], &|x| x.to_string(), ","),
                j(&co["htlc_spents"], &|x| bit(x).to_string(), ","),
                j(&co["second_level_htlc_outputs"], &|x| format!("{}+{}", self.json_op(&x["outpoint"]), bit(&x["spent"])), ";")
            )
        };
        format!(
            "h={} fh={} fo={} ds={} mc={} uc={} co={} csh={} osh={} sb={} sf={}",
            st["height"],
            on(&st["funding_height"]),
            self.json_op(&st["funding_outpoint"]),
            on(&st["funding_double_spent_height"]),
            on(&st["mutual_closing_height"]),
            on(&st["unilateral_closing_height"]),
            cos,
            on(&st["closing_swept_height"]),
            on(&st["our_output_swept_height"]),
            bit(&st["saw_block"]),
            bit(&st["saw_forget_channel"])
        )
    }

}

impl World {
    pub fn listener_digest(tracker: &ChainTracker<ChainMonitor>, key: &OutPoint, w: &World) -> String {
        listener_digest_ids(tracker, key, &w.ids)
    }

    /// monitor State + ListenSlot
    pub fn digest(&self) -> String {
        let tracker = self.node.get_tracker();
        Self::listener_digest(&tracker, &self.funding_outpoint, self)
    }

    pub fn make_block(&mut self, ids: &[u64]) -> Block {
        let tracker = self.node.get_tracker();
        self.cb += 1;
        let mut txs = vec![coinbase(self.cb)];
        for id in ids {
            txs.push(self.txs.get(id).expect("pool id").clone());
        }
        make_block(tracker.tip().0, txs)
    }

    pub fn add_block(&mut self, ids: &[u64], streamed: bool) -> StepResult {
        let block = self.make_block(ids);
        let mut tracker = self.node.get_tracker();
        let r = catch_unwind(AssertUnwindSafe(|| deliver_add(&mut tracker, &block, streamed)));
        match r {
            Err(e) => StepResult::Panic(panic_msg(e)),
            Ok(Err(e)) => StepResult::Err(format!("{:?}", e)),
            Ok(Ok(fp)) => {
                if fp { self.filter_false_positives += 1; }
                self.persister.update_tracker(&self.node.get_id(), &tracker).unwrap();
                self.blocks.push(block);
                StepResult::Ok
            }
        }
    }

    /// a block that does not build on the tip (start of a reorg seen too early): must be refused
    pub fn add_orphan(&mut self, ids: &[u64], streamed: bool) -> StepResult {
        self.cb += 1;
        let mut txs = vec![coinbase(self.cb)];
        for id in ids {
            txs.push(self.txs.get(id).expect("pool id").clone());
        }
        let mut tracker = self.node.get_tracker();
        let old = tracker.headers()[0].clone();
        let block = make_block(old.0, txs);
        let h = tracker.height();
        let proof = TxoProof::prove_unchecked(&block, &old.1, h);
        let r = catch_unwind(AssertUnwindSafe(|| {
            if streamed {
                let ext = TxoProof { attestations: proof.attestations.clone(), proof: ProofType::ExternalBlock() };
                stream_block(&mut tracker, &block);
                tracker.add_block(block.header, ext)
            } else {
                tracker.add_block(block.header, proof)
            }
        }));
        match r {
            Err(e) => StepResult::Panic(panic_msg(e)),
            Ok(Err(e)) => StepResult::Err(format!("{:?}", e)),
            Ok(Ok(())) => StepResult::Ok,
        }
    }

    pub fn remove_block(&mut self, ids: &[u64]) -> StepResult {
        self.remove_block_with(ids, false)
    }

    pub fn remove_block_with(&mut self, ids: &[u64], streamed: bool) -> StepResult {
        let block = self.blocks.last().expect("malformed case: remove on empty chain").clone();
        let have: Vec<u64> = block.txdata[1..].iter().map(|t| *self.ids.get(&t.compute_txid()).unwrap()).collect();
        assert_eq!(have, ids, "malformed case: remove of a block that is not the tip");
        let mut tracker = self.node.get_tracker();
        let r = catch_unwind(AssertUnwindSafe(|| deliver_remove(&mut tracker, &block, streamed)));
        match r {
            Err(e) => StepResult::Panic(panic_msg(e)),
            Ok(Err(e)) => StepResult::Err(format!("{:?}", e)),
            Ok(Ok(fp)) => {
                if fp { self.filter_false_positives += 1; }
                self.persister.update_tracker(&self.node.get_id(), &tracker).unwrap();
                self.blocks.pop();
                StepResult::Ok
            }
        }
    }
}

pub struct TokenWorld {
    pub base_height: u32,
}

impl TokenWorld {
    pub fn token(&self, id: u64) -> String {
        World::tokens().get(&id).expect("pool id").clone()
    }
    pub fn init_line(&self) -> String {
        format!("init {} {} 0 0.1;0.2", self.base_height, F)
    }
}

pub fn tok(id: u64) -> String {
    World::shared().token(id)
}

pub fn tok_typed(ct: &str, id: u64) -> String {
    World::tokens_typed(ct).get(&id).expect("pool id").clone()
}

pub fn init_line() -> String {
    World::shared().init_line()
}

/// Reference view computed from the harness' own knowledge of the chain (which pool transaction is in which
/// block and what each of them is), independent of the implementation and of the Lean model: the state part and
/// the watch sets a monitor must show after connecting exactly `chain` (in order) on top of the base height.
pub fn expected_view(w: &World, chain: &[Vec<u64>]) -> String {
    let h0 = w.base_height as u64;
    let height_of = |id: u64| chain.iter().position(|b| b.contains(&id)).map(|i| h0 + i as u64 + 1);
    let on = |x: Option<u64>| x.map(|v| v.to_string()).unwrap_or("-".into());
    let order: Vec<u64> = chain.iter().flatten().cloned().collect(); // confirmation order
    let fh = height_of(F);
    let ds = if fh.is_some() { None } else { [height_of(D), height_of(D2)].into_iter().flatten().min() };
    let mc = height_of(M);
    let close = [U, UC, UR, UN, UP].into_iter().find(|c| height_of(*c).is_some());
    let uc = close.and_then(|c| height_of(c));
    let our_sweeper = |c: u64| if c == U { S } else if c == UC { SC } else if c == UP { SP } else { SR };
    let second_spender = |t: u64, idx: u32| match (t, idx) { (T1, 0) => Some(V1), (T2, 0) => Some(V2), (T12, 0) => Some(V12A), (T12, 1) => Some(V12B), (TP, 0) => Some(VP), (TC, 0) => Some(VC), _ => None };
    let mut tracked: Vec<((u64, u32), bool)> = vec![((0, 1), false), ((0, 2), false)]; // (outpoint, spent on chain)
    let spent_input = |id: u64, inp: (u64, u32)| -> bool {
        order.iter().any(|t| *t != id && w.txs[t].input.iter().any(|i| (w.ids.get(&i.previous_output.txid).cloned().unwrap_or(999), i.previous_output.vout) == inp))
    };
    let (mut co, mut csh, mut osh) = ("-".to_string(), None, None);
    if fh.is_some() { tracked.push(((F, 0), false)); }
    if let Some(c) = close {
        let (our, htlcs) = w.built[&c].clone();
        let ch = uc.unwrap();
        let our_spent_h = match our { Some(_) => height_of(our_sweeper(c)), None => Some(ch) };
        if let Some(o) = our { tracked.push(((c, o), false)); }
        let mut flags = Vec::new();
        let mut needed: Vec<Option<u64>> = vec![Some(ch), our_spent_h]; // heights that must all exist for "swept"
        for hv in &htlcs {
            tracked.push(((c, *hv), false));
            let spender = w.htlc_spends.iter().find(|(t, v)| height_of(**t).is_some() && v.iter().any(|(vo, _)| vo == hv)).map(|(t, _)| *t);
            flags.push(spender.is_some());
            needed.push(spender.and_then(|t| height_of(t)));
        }
        // second-level entries in confirmation order (input order inside a transaction)
        let mut second = Vec::new();
        for t in order.iter() {
            if let Some(v) = w.htlc_spends.get(t) {
                if v.iter().all(|(vo, _)| htlcs.contains(vo)) && w.txs[t].input.iter().any(|i| w.ids.get(&i.previous_output.txid) == Some(&c)) {
                    for (_, idx) in v {
                        let sp = second_spender(*t, *idx).and_then(|x| height_of(x));
                        tracked.push(((*t, *idx), false));
                        second.push(format!("{}.{}+{}", t, idx, if sp.is_some() { 1 } else { 0 }));
                        needed.push(sp);
                    }
                }
            }
        }
        let j = |v: Vec<String>, sep: &str| if v.is_empty() { "-".to_string() } else { v.join(sep) };
        co = format!(
            "{}/{}/{}/{}/{}",
            c, match our { Some(o) => format!("{}+{}", o, if our_spent_h.is_some() { 1 } else { 0 }), None => "-".to_string() },
            j(htlcs.iter().map(|x| x.to_string()).collect(), ","),
            j(flags.iter().map(|b| if *b { "1".to_string() } else { "0".to_string() }).collect(), ","),
            j(second, ";")
        );
        if needed.iter().all(|x| x.is_some()) { csh = needed.iter().flatten().max().cloned(); }
        osh = our_spent_h;
    }
    for e in tracked.iter_mut() { e.1 = spent_input(u64::MAX, e.0); }
    let fmt = |v: Vec<(u64, u32)>| { let mut v = v; v.sort(); v.dedup(); format!("[{}]", v.iter().map(|(a, b)| format!("{}.{}", a, b)).collect::<Vec<_>>().join(",")) };
    let watches = fmt(tracked.iter().filter(|e| !e.1).map(|e| e.0).collect());
    let seen = fmt(tracked.iter().filter(|e| e.1).map(|e| e.0).collect());
    // the depths other components read: number of blocks of the surviving chain from the event's block to the tip,
    // both inclusive; 0 if the event is not on the chain (counted here from the chain itself, no height arithmetic)
    let depth = |id: Option<u64>| -> u64 {
        id.and_then(|x| chain.iter().position(|b| b.contains(&x))).map(|i| (chain.len() - i) as u64).unwrap_or(0)
    };
    let ds_id = if fh.is_some() { None } else { [D, D2].into_iter().filter(|x| height_of(*x).is_some()).min_by_key(|x| height_of(*x)) };
    let close_id = close.or(if mc.is_some() { Some(M) } else { None });
    let (fd, dd, cd) = (depth(fh.map(|_| F)), depth(ds_id), depth(close_id));
    format!(
        "h={} fh={} fo={} ds={} mc={} uc={} co={} csh={} osh={} sf=0 w={} seen={} v={},{},{};{},{},{},{}",
        h0 + chain.len() as u64, on(fh), if fh.is_some() { format!("{}.0", F) } else { "-".into() }, on(ds), on(mc), on(uc), co, on(csh), on(osh), watches, seen,
        fd, dd, cd, h0 + chain.len() as u64, fd, dd, cd
    )
}
