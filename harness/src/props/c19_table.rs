//! C19: table of the message structs of `vls_protocol::msgs` known to the harness (default build, feature
//! `developer` off).  The set is compared at run time with the registry the translator extracts from
//! the source of `enum Message` (op `registry`): a variant added to / removed from the enum without
//! updating this table makes the check fail.
use vls_protocol::msgs::{self, DeBolt, SerBolt};

macro_rules! table {
    ($($n:ident),* $(,)?) => {
        /// (struct name, compiled `DeBolt::TYPE`)
        pub fn type_ids() -> Vec<(&'static str, u16)> {
            vec![$((stringify!($n), <msgs::$n as DeBolt>::TYPE)),*]
        }
        /// typed `DeBolt::from_vec` by struct name
        pub fn typed_from_vec(name: &str, b: Vec<u8>) -> Option<Result<Box<dyn SerBolt>, String>> {
            match name {
                $(stringify!($n) => Some(
                    <msgs::$n as DeBolt>::from_vec(b)
                        .map(|m| Box::new(m) as Box<dyn SerBolt>)
                        .map_err(|e| format!("{:?}", e)),
                ),)*
                _ => None,
            }
        }
        /// typed decode, then the framed typed writer `msgs::write(&mut w, value)`
        pub fn framed_write(name: &str, b: Vec<u8>) -> Option<Result<Vec<u8>, String>> {
            match name {
                $(stringify!($n) => Some(
                    <msgs::$n as DeBolt>::from_vec(b)
                        .and_then(|m| {
                            let mut w: Vec<u8> = Vec::new();
                            msgs::write(&mut w, m).map(|_| w)
                        })
                        .map_err(|e| format!("{:?}", e)),
                ),)*
                _ => None,
            }
        }
        /// framed typed reader `msgs::read_message::<T>` on any reader (the stream stays with the caller)
        pub fn typed_read_message_from<R: vls_protocol::serde_bolt::io::Read>(
            name: &str,
            r: &mut R,
        ) -> Option<Result<Box<dyn SerBolt>, String>> {
            match name {
                $(stringify!($n) => Some(
                    msgs::read_message::<_, msgs::$n>(r)
                        .map(|m| Box::new(m) as Box<dyn SerBolt>)
                        .map_err(|e| format!("{:?}", e)),
                ),)*
                _ => None,
            }
        }
        /// framed typed reader `msgs::read_message::<T>`
        pub fn typed_read_message(name: &str, frame: Vec<u8>) -> Option<Result<Box<dyn SerBolt>, String>> {
            match name {
                $(stringify!($n) => Some({
                    let mut c = vls_protocol::serde_bolt::io::Cursor::new(frame);
                    msgs::read_message::<_, msgs::$n>(&mut c)
                        .map(|m| Box::new(m) as Box<dyn SerBolt>)
                        .map_err(|e| format!("{:?}", e))
                }),)*
                _ => None,
            }
        }
    };
}

table!(
    Ecdh, EcdhReply, SignChannelAnnouncement, SignChannelAnnouncementReply,
    SignChannelUpdate, SignChannelUpdateReply, SignAnyChannelAnnouncement, SignAnyChannelAnnouncementReply,
    SignCommitmentTx, SignCommitmentTxReply, SignNodeAnnouncement, SignNodeAnnouncementReply,
    SignWithdrawal, SignWithdrawalReply, SignInvoice, SignInvoiceReply,
    ClientHsmFd, ClientHsmFdReply, GetChannelBasepoints, GetChannelBasepointsReply,
    HsmdInit, HsmdInitReplyV2, HsmdInitReplyV4, SignDelayedPaymentToUs,
    SignTxReply, SignRemoteHtlcToUs, SignPenaltyToUs, SignLocalHtlcTx,
    GetPerCommitmentPoint, GetPerCommitmentPointReply, SignRemoteCommitmentTx, SignRemoteHtlcTx,
    SignLocalHtlcTx2, SignMutualCloseTx, CheckFutureSecret, CheckFutureSecretReply,
    SignMessage, SignMessageReply, SignBolt12, SignBolt12Reply,
    DeriveSecret, DeriveSecretReply, CheckPubKey, CheckPubKeyReply,
    SignSpliceTx, NewChannel, NewChannelReply, SetupChannel,
    SetupChannelReply, CheckOutpoint, CheckOutpointReply, Memleak,
    MemleakReply, ForgetChannel, ForgetChannelReply, ValidateCommitmentTx,
    ValidateCommitmentTxReply, ValidateRevocation, ValidateRevocationReply, LockOutpoint,
    LockOutpointReply, PreapproveInvoice, PreapproveInvoiceReply, PreapproveKeysend,
    PreapproveKeysendReply, RevokeCommitmentTx, RevokeCommitmentTxReply, SignBolt12V2,
    SignBolt12V2Reply, SignAnyDelayedPaymentToUs, SignAnyRemoteHtlcToUs, SignAnyPenaltyToUs,
    SignAnyLocalHtlcTx, SignAnchorspend, SignAnchorspendReply, SignHtlcTxMingle,
    SignHtlcTxMingleReply, Ping, Pong, SignLocalCommitmentTx2,
    SignGossipMessage, SignGossipMessageReply, HsmdInit2, HsmdInit2Reply,
    NodeInfo, NodeInfoReply, GetPerCommitmentPoint2, GetPerCommitmentPoint2Reply,
    SignRemoteCommitmentTx2, SignCommitmentTxWithHtlcsReply, SignMutualCloseTx2, ValidateCommitmentTx2,
    GetSecureRandomBytes, GetSecureRandomBytesReply, TipInfo, TipInfoReply,
    ForwardWatches, ForwardWatchesReply, ReverseWatches, ReverseWatchesReply,
    AddBlock, AddBlockReply, RemoveBlock, RemoveBlockReply,
    GetHeartbeat, GetHeartbeatReply, BlockChunk, BlockChunkReply,
    SignerError
);
