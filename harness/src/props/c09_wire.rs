//! C09 over the WIRE protocol: a real node driven only through hsmd messages - `InitHandler` (HsmdInit) -> `RootHandler`
//! (NewChannel) -> `for_new_client` `ChannelHandler` (SetupChannel) - and then asked for delayed-output sweeps and
//! second-level HTLC signatures.  Implementation-only, monitor-only group (no Lean model: the Lean side of these
//! requests is the `sweep` model of the main group, which takes the negotiated delay / keys as given; THIS group checks
//! that what the signer takes as given is what the wire said).
//!
//! The SetupChannel message is encoded by the harness ITSELF, byte by byte, in the CLN hsmd wire order (it does not go
//! through the Rust structs `msgs::SetupChannel` / `model::Basepoints`, so a signer whose structs disagree with the wire
//! format cannot agree with itself here):
//!
//!   u16  type = 31                       (big endian, like every integer below)
//!   u8   is_outbound                     (bool: 0 / 1)
//!   u64  channel_value                   (sat)
//!   u64  push_value                      (msat)
//!   [32] funding_txid                    (consensus byte order)
//!   u16  funding_txout
//!   u16  to_self_delay                   (CLN `local_to_self_delay`)
//!   u16  len, [len] local_shutdown_script
//!   u8   0 | 1 + u32 local_shutdown_wallet_index   (optional: presence byte first)
//!   [33] remote_basepoints.revocation
//!   [33] remote_basepoints.payment
//!   [33] remote_basepoints.htlc
//!   [33] remote_basepoints.delayed_payment
//!   [33] remote_funding_pubkey
//!   u16  remote_to_self_delay
//!   u16  len, [len] remote_shutdown_script
//!   u16  len, [len] channel_type         (BOLT-9 feature bits, big endian: static_remotekey = bit 12 -> 10 00,
//!                                         + anchors_zero_fee_htlc_tx = bit 22 -> 40 10 00)
//!
//! Ground truth (CLN hsmd semantics): `to_self_delay` (`local_to_self_delay`) is the delay the HOLDER imposes on the
//! counterparty's delayed outputs (holder-selected contest delay); `remote_to_self_delay` is the delay the counterparty
//! imposes on OURS (counterparty-selected contest delay).  Hence
//!   (i)   a sweep of our own delayed to_local / HTLC-delayed output (`SignDelayedPaymentToUs`,
//!         `SignAnyDelayedPaymentToUs`) must carry nSequence == remote_to_self_delay as sent on the wire;
//!   (ii)  the counterparty's second-level HTLC tx (`SignRemoteHtlcTx`): output[0] must be the revokeable script of
//!         (revocation key from OUR revocation basepoint and the remote per-commitment point, to_self_delay as sent,
//!         delayed key from the COUNTERPARTY's delayed_payment basepoint as sent on the wire);
//!   (iii) our own second-level HTLC tx (`SignLocalHtlcTx`, `SignAnyLocalHtlcTx`): revocation key from the
//!         counterparty's revocation basepoint as sent, delay = remote_to_self_delay as sent, delayed key from OUR
//!         delayed_payment basepoint.
//! The counterparty basepoints are the ones the harness put on the wire; the holder's are read from the channel's own
//! key set by name (`keys.pubkeys()`), not through any wire message.
//!
//! Op lines:
//!   wsetup <to_self_delay> <remote_to_self_delay> <ct s|z>
//!   wsweep <any 0|1> <sequence> <commitment_number>
//!   whtlc  <who r|l> <any 0|1> <offered 0|1> <delay> <delayed key: side c|h + basepoint kind d|h|p|r> <revocation side c|h>
use super::{features, txid_of, NET};
use crate::common::*;
use lightning_signer::bitcoin::absolute::LockTime;
use lightning_signer::bitcoin::bip32::{DerivationPath, Fingerprint};
use lightning_signer::bitcoin::hashes::Hash;
use lightning_signer::bitcoin::psbt::Psbt;
use lightning_signer::bitcoin::secp256k1::{PublicKey, Secp256k1};
use lightning_signer::bitcoin::transaction::Version;
use lightning_signer::bitcoin::{Amount, OutPoint, ScriptBuf, Sequence, Transaction, TxIn, TxOut, Txid, Witness};
use lightning_signer::channel::{ChannelBase, ChannelId, CommitmentType};
use lightning_signer::lightning::ln::chan_utils::{
    get_htlc_redeemscript, get_revokeable_redeemscript, ChannelPublicKeys, HTLCOutputInCommitment, TxCreationKeys,
};
use lightning_signer::lightning::ln::channel_keys::{DelayedPaymentBasepoint, DelayedPaymentKey, RevocationBasepoint, RevocationKey};
use lightning_signer::lightning::sign::ChannelSigner;
use lightning_signer::lightning::types::payment::PaymentHash;
use lightning_signer::node::{Node, NodeConfig, NodeServices};
use lightning_signer::persist::Persist;
use lightning_signer::policy::simple_validator::{make_default_simple_policy, SimpleValidatorFactory};
use lightning_signer::signer::derive::KeyDerivationStyle;
use lightning_signer::util::clock::StandardClock;
use lightning_signer::util::test_utils::key::{make_test_counterparty_points, make_test_pubkey};
use lightning_signer::util::test_utils::*;
use std::collections::BTreeMap;
use std::panic::{catch_unwind, AssertUnwindSafe};
use std::sync::Arc;
use vls_persist::kvv::memory::MemoryKVVStore;
use vls_persist::kvv::{JsonFormat, KVVPersister};
use vls_protocol::model::PubKey;
use vls_protocol::msgs::{self, Message, SerBolt};
use vls_protocol::serde_bolt::{Octets, WithSize};
use vls_protocol_signer::approver::PositiveApprover;
use vls_protocol_signer::handler::{ChannelHandler, Handler, InitHandler, RootHandler};

const PEER: [u8; 33] = [2u8; 33];
const DBID: u64 = 1;
const VALUE: u64 = 3_000_000;
const MSG_SETUP_CHANNEL: u16 = 31;
/// BOLT-9 feature bytes of the channel type, big endian
const CT_STATIC_REMOTEKEY: [u8; 2] = [0x10, 0x00];
const CT_ANCHORS_ZERO_FEE: [u8; 3] = [0x40, 0x10, 0x00];
const WALLET_INDEX: u32 = 3;
const HTLC_AMOUNT: u64 = 10_000;
const SWEEP_AMOUNT: u64 = 20_000;

/// what goes on the wire in SetupChannel
struct SetupWire {
    is_outbound: bool,
    channel_value: u64,
    push_value: u64,
    funding_txid: Txid,
    funding_txout: u16,
    to_self_delay: u16,
    local_shutdown_script: Vec<u8>,
    local_shutdown_wallet_index: Option<u32>,
    remote: ChannelPublicKeys,
    remote_to_self_delay: u16,
    remote_shutdown_script: Vec<u8>,
    channel_type: Vec<u8>,
}

fn encode_setup_channel(s: &SetupWire) -> Vec<u8> {
    let mut b: Vec<u8> = vec![];
    let octets = |b: &mut Vec<u8>, v: &[u8]| {
        b.extend_from_slice(&(v.len() as u16).to_be_bytes());
        b.extend_from_slice(v);
    };
    b.extend_from_slice(&MSG_SETUP_CHANNEL.to_be_bytes());
    b.push(s.is_outbound as u8);
    b.extend_from_slice(&s.channel_value.to_be_bytes());
    b.extend_from_slice(&s.push_value.to_be_bytes());
    b.extend_from_slice(&s.funding_txid.to_byte_array());
    b.extend_from_slice(&s.funding_txout.to_be_bytes());
    b.extend_from_slice(&s.to_self_delay.to_be_bytes());
    octets(&mut b, &s.local_shutdown_script);
    match s.local_shutdown_wallet_index {
        None => b.push(0),
        Some(i) => {
            b.push(1);
            b.extend_from_slice(&i.to_be_bytes());
        }
    }
    // struct basepoints: revocation, payment, htlc, delayed_payment - in this order
    b.extend_from_slice(&s.remote.revocation_basepoint.0.serialize());
    b.extend_from_slice(&s.remote.payment_point.serialize());
    b.extend_from_slice(&s.remote.htlc_basepoint.0.serialize());
    b.extend_from_slice(&s.remote.delayed_payment_basepoint.0.serialize());
    b.extend_from_slice(&s.remote.funding_pubkey.serialize());
    b.extend_from_slice(&s.remote_to_self_delay.to_be_bytes());
    octets(&mut b, &s.remote_shutdown_script);
    octets(&mut b, &s.channel_type);
    b
}

/// does the signer's decoder read, by field name, what the harness put on the wire
fn decoded_as_sent(m: &msgs::SetupChannel, s: &SetupWire) -> Vec<&'static str> {
    let mut d = vec![];
    if m.is_outbound != s.is_outbound { d.push("is_outbound"); }
    if m.channel_value != s.channel_value { d.push("channel_value"); }
    if m.push_value != s.push_value { d.push("push_value"); }
    if m.funding_txid != s.funding_txid { d.push("funding_txid"); }
    if m.funding_txout != s.funding_txout { d.push("funding_txout"); }
    if m.to_self_delay != s.to_self_delay { d.push("to_self_delay"); }
    if m.local_shutdown_script.0 != s.local_shutdown_script { d.push("local_shutdown_script"); }
    if m.local_shutdown_wallet_index != s.local_shutdown_wallet_index { d.push("local_shutdown_wallet_index"); }
    if m.remote_basepoints.revocation.0 != s.remote.revocation_basepoint.0.serialize() { d.push("remote_basepoints.revocation"); }
    if m.remote_basepoints.payment.0 != s.remote.payment_point.serialize() { d.push("remote_basepoints.payment"); }
    if m.remote_basepoints.htlc.0 != s.remote.htlc_basepoint.0.serialize() { d.push("remote_basepoints.htlc"); }
    if m.remote_basepoints.delayed_payment.0 != s.remote.delayed_payment_basepoint.0.serialize() { d.push("remote_basepoints.delayed_payment"); }
    if m.remote_funding_pubkey.0 != s.remote.funding_pubkey.serialize() { d.push("remote_funding_pubkey"); }
    if m.remote_to_self_delay != s.remote_to_self_delay { d.push("remote_to_self_delay"); }
    if m.remote_shutdown_script.0 != s.remote_shutdown_script { d.push("remote_shutdown_script"); }
    if m.channel_type.0 != s.channel_type { d.push("channel_type"); }
    d
}

struct Wire {
    node: Arc<Node>,
    root: RootHandler,
    chan: ChannelHandler,
    tsd: u16,
    rtsd: u16,
    ct: char,
    /// the counterparty's basepoints as sent on the wire
    cp: ChannelPublicKeys,
    /// the signer's own basepoints of this channel
    holder: ChannelPublicKeys,
    /// per-commitment point of holder commitment 0
    holder_pcp: PublicKey,
    note: String,
}

fn short_err(e: &str) -> &'static str {
    if e.contains("policy-sweep-sequence") || e.contains("bad sequence") {
        "sequence"
    } else if e.contains("sighash mismatch") {
        "sighash"
    } else if e.contains("fail-fast") {
        "commitment-number"
    } else if e.contains("policy") {
        "policy-other"
    } else {
        "other"
    }
}

/// bytes -> decode (what arrives over the wire) -> handle
fn send<H: Handler>(h: &H, bytes: Vec<u8>) -> String {
    let decoded = match msgs::from_vec(bytes) {
        Ok(d) => d,
        Err(e) => return format!("decode-refused {:?}", e),
    };
    match catch_unwind(AssertUnwindSafe(|| h.handle(decoded))) {
        Err(_) => "panic".into(),
        Ok(Ok(_)) => "signed".into(),
        Ok(Err(e)) => format!("refused:{}", short_err(&format!("{:?}", e))),
    }
}

impl Wire {
    fn open(tsd: u16, rtsd: u16, ct: char) -> Result<Wire, String> {
        let persister: Arc<dyn Persist> = Arc::new(KVVPersister(MemoryKVVStore::new([6u8; 16]), JsonFormat));
        let seed = [7u8; 32];
        let cfg = NodeConfig { network: NET, key_derivation_style: KeyDerivationStyle::Native, use_checkpoints: true, allow_deep_reorgs: true };
        let services = NodeServices {
            validator_factory: Arc::new(SimpleValidatorFactory::new_with_policy(make_default_simple_policy(NET))),
            starting_time_factory: make_genesis_starting_time_factory(NET),
            persister: persister.clone(),
            clock: Arc::new(StandardClock()),
            trusted_oracle_pubkeys: vec![],
        };
        let node = Arc::new(Node::new(cfg, &seed, vec![], services));
        persister.new_node(&node.get_id(), &cfg, &*node.get_state()).map_err(|_| "new_node".to_string())?;
        persister.new_tracker(&node.get_id(), &node.get_tracker()).map_err(|_| "new_tracker".to_string())?;
        let mut init = InitHandler::new(0, node.clone(), Arc::new(PositiveApprover()), 6);
        let hi = msgs::HsmdInit {
            key_version: vls_protocol::model::Bip32KeyVersion { pubkey_version: 0, privkey_version: 0 },
            chain_params: lightning_signer::bitcoin::BlockHash::all_zeros(),
            encryption_key: None,
            dev_privkey: None,
            dev_bip32_seed: None,
            dev_channel_secrets: None,
            dev_channel_secrets_shaseed: None,
            hsm_wire_min_version: 2,
            hsm_wire_max_version: 6,
        };
        let (done, _) = init.handle(Message::HsmdInit(hi)).map_err(|e| format!("HsmdInit {:?}", e))?;
        if !done {
            return Err("HsmdInit not done".into());
        }
        let root: RootHandler = init.into();
        // NewChannel over the wire, then the per-channel handler
        let nc = msgs::from_vec(msgs::NewChannel { peer_id: PubKey(PEER), dbid: DBID }.as_vec()).map_err(|e| format!("NewChannel decode {:?}", e))?;
        root.handle(nc).map_err(|e| format!("NewChannel {:?}", e))?;
        let chan = root.for_new_client(1, PubKey(PEER), DBID);
        let cid = ChannelId::new_from_peer_id_and_oid(&PEER, DBID);

        let cp = make_test_counterparty_points();
        let wire = SetupWire {
            is_outbound: true,
            channel_value: VALUE,
            push_value: 0,
            funding_txid: Txid::from_slice(&[2u8; 32]).unwrap(),
            funding_txout: 0,
            to_self_delay: tsd,
            local_shutdown_script: vec![],
            local_shutdown_wallet_index: None,
            remote: cp.clone(),
            remote_to_self_delay: rtsd,
            remote_shutdown_script: vec![],
            channel_type: if ct == 'z' { CT_ANCHORS_ZERO_FEE.to_vec() } else { CT_STATIC_REMOTEKEY.to_vec() },
        };
        let bytes = encode_setup_channel(&wire);
        let decoded = msgs::from_vec(bytes).map_err(|e| format!("SetupChannel bytes do not decode: {:?}", e))?;
        let differs = match &decoded {
            Message::SetupChannel(m) => decoded_as_sent(m, &wire),
            other => return Err(format!("SetupChannel bytes decode as {:?}", other)),
        };
        match catch_unwind(AssertUnwindSafe(|| chan.handle(decoded))) {
            Err(_) => return Err("SetupChannel panicked".into()),
            Ok(Err(e)) => return Err(format!("SetupChannel refused {:?}", e)),
            Ok(Ok(_)) => {}
        }
        // the holder's own basepoints (by name, from the channel's key set) and commitment point 0
        let (holder, holder_pcp, stored) = node
            .with_channel(&cid, |c| {
                let s = &c.setup;
                let want_ct = if ct == 'z' { CommitmentType::AnchorsZeroFeeHtlc } else { CommitmentType::StaticRemoteKey };
                let mut d: Vec<&'static str> = vec![];
                if s.holder_selected_contest_delay != tsd { d.push("holder_selected_contest_delay"); }
                if s.counterparty_selected_contest_delay != rtsd { d.push("counterparty_selected_contest_delay"); }
                if s.counterparty_points.delayed_payment_basepoint != cp.delayed_payment_basepoint { d.push("counterparty.delayed_payment_basepoint"); }
                if s.counterparty_points.htlc_basepoint != cp.htlc_basepoint { d.push("counterparty.htlc_basepoint"); }
                if s.counterparty_points.revocation_basepoint != cp.revocation_basepoint { d.push("counterparty.revocation_basepoint"); }
                if s.counterparty_points.payment_point != cp.payment_point { d.push("counterparty.payment_point"); }
                if s.counterparty_points.funding_pubkey != cp.funding_pubkey { d.push("counterparty.funding_pubkey"); }
                if s.commitment_type != want_ct { d.push("commitment_type"); }
                Ok((c.keys.pubkeys().clone(), c.get_per_commitment_point(0)?, d))
            })
            .map_err(|e| format!("channel after SetupChannel: {}", e.message()))?;
        if stored.contains(&"commitment_type") {
            return Err("the channel type bytes did not give the intended commitment type".into());
        }
        let note = format!(
            "decoded={} stored={}",
            if differs.is_empty() { "as-sent".to_string() } else { format!("differs[{}]", differs.join(",")) },
            if stored.is_empty() { "as-sent".to_string() } else { format!("differs[{}]", stored.join(",")) }
        );
        Ok(Wire { node, root, chan, tsd, rtsd, ct, cp, holder, holder_pcp, note })
    }

    fn basepoint(&self, side: char, kind: char) -> PublicKey {
        let k = if side == 'c' { &self.cp } else { &self.holder };
        match kind {
            'd' => k.delayed_payment_basepoint.0,
            'h' => k.htlc_basepoint.0,
            'p' => k.payment_point,
            _ => k.revocation_basepoint.0,
        }
    }

    /// wallet destination p2wpkh at [WALLET_INDEX] and its key
    fn wallet_dest(&self) -> (PublicKey, ScriptBuf) {
        let secp = Secp256k1::new();
        let x = self.node.get_account_extended_key().derive_priv(&secp, &super::to_dp(&[WALLET_INDEX])).unwrap();
        let pk = PublicKey::from_secret_key(&secp, &x.private_key);
        (pk, super::key_script(&pk, 'w'))
    }

    fn sweep(&self, any: bool, seq: u32, cnum: u64) -> String {
        let secp = Secp256k1::new();
        // the to_local script of holder commitment `cnum` (not validated by the signer; the true one for commitment 0)
        let rev = RevocationKey::from_basepoint(&secp, &RevocationBasepoint(self.cp.revocation_basepoint.0), &self.holder_pcp);
        let dk = DelayedPaymentKey::from_basepoint(&secp, &DelayedPaymentBasepoint(self.holder.delayed_payment_basepoint.0), &self.holder_pcp);
        let redeem = get_revokeable_redeemscript(&rev, self.rtsd, &dk);
        let (pk, dest) = self.wallet_dest();
        let tx = Transaction {
            version: Version::TWO,
            lock_time: LockTime::ZERO,
            input: vec![TxIn { previous_output: OutPoint { txid: txid_of(1), vout: 0 }, script_sig: ScriptBuf::new(), sequence: Sequence(seq), witness: Witness::default() }],
            output: vec![TxOut { value: Amount::from_sat(SWEEP_AMOUNT - 1000), script_pubkey: dest }],
        };
        let mut psbt = match Psbt::from_unsigned_tx(tx.clone()) {
            Ok(p) => p,
            Err(_) => return "harness-psbt".into(),
        };
        psbt.inputs[0].witness_utxo = Some(TxOut { value: Amount::from_sat(SWEEP_AMOUNT), script_pubkey: redeem.to_p2wsh() });
        let mut der = BTreeMap::new();
        let path: DerivationPath = super::to_dp(&[WALLET_INDEX]);
        der.insert(pk, (Fingerprint::default(), path));
        psbt.outputs[0].bip32_derivation = der;
        if any {
            let m = msgs::SignAnyDelayedPaymentToUs { commitment_number: cnum, tx: WithSize(tx), psbt: WithSize(psbt.into()), wscript: Octets(redeem.to_bytes()), input: 0, peer_id: PubKey(PEER), dbid: DBID };
            send(&self.root, m.as_vec())
        } else {
            let m = msgs::SignDelayedPaymentToUs { commitment_number: cnum, tx: WithSize(tx), psbt: WithSize(psbt.into()), wscript: Octets(redeem.to_bytes()) };
            send(&self.chan, m.as_vec())
        }
    }

    /// (answer, deviations of the submitted output[0] from the negotiated one)
    fn htlc(&self, remote: bool, any: bool, offered: bool, delay: u16, dk_side: char, dk_kind: char, rev_side: char) -> (String, Vec<String>) {
        let secp = Secp256k1::new();
        let anchors = self.ct == 'z';
        // the commitment this HTLC tx hangs off: the counterparty's (any remote point) or holder commitment 0
        let pcp = if remote { make_test_pubkey(0x21) } else { self.holder_pcp };
        // negotiated: broadcaster's delayed key, countersignatory's revocation key, the delay the countersignatory selected
        let (exp_dk_side, exp_rev_side, exp_delay) = if remote { ('c', 'h', self.tsd) } else { ('h', 'c', self.rtsd) };
        let mk_dk = |side: char, kind: char| DelayedPaymentKey::from_basepoint(&secp, &DelayedPaymentBasepoint(self.basepoint(side, kind)), &pcp);
        let mk_rev = |side: char| RevocationKey::from_basepoint(&secp, &RevocationBasepoint(self.basepoint(side, 'r')), &pcp);
        let (exp_dk, exp_rev) = (mk_dk(exp_dk_side, 'd'), mk_rev(exp_rev_side));
        let (dk, rev) = (mk_dk(dk_side, dk_kind), mk_rev(rev_side));
        let mut dev = vec![];
        if delay != exp_delay {
            dev.push(format!("delay {} instead of {}", delay, exp_delay));
        }
        if dk != exp_dk {
            dev.push(format!("delayed key from the {} basepoint of kind {} instead of the {} delayed_payment basepoint", if dk_side == 'c' { "counterparty's" } else { "holder's" }, dk_kind, if exp_dk_side == 'c' { "counterparty's" } else { "holder's" }));
        }
        if rev != exp_rev {
            dev.push(format!("revocation key from the {} revocation basepoint", if rev_side == 'c' { "counterparty's" } else { "holder's" }));
        }
        let witscript = get_revokeable_redeemscript(&rev, delay, &dk);
        // the HTLC output being spent, with the broadcaster's true keys
        let (b, c) = if remote { (&self.cp, &self.holder) } else { (&self.holder, &self.cp) };
        let txkeys = TxCreationKeys::derive_new(&secp, &pcp, &b.delayed_payment_basepoint, &b.htlc_basepoint, &c.revocation_basepoint, &c.htlc_basepoint);
        let locktime: u32 = if offered { 131_072 } else { 0 };
        let htlc = HTLCOutputInCommitment { offered, amount_msat: HTLC_AMOUNT * 1000, cltv_expiry: if offered { locktime } else { 77 }, payment_hash: PaymentHash([5; 32]), transaction_output_index: Some(0) };
        let redeem = get_htlc_redeemscript(&htlc, &features(anchors), &txkeys);
        // feerate 1000 without anchors (HTLC-timeout 663 / HTLC-success 703 weight units), zero fee with
        let fee = if anchors { 0 } else if offered { 663 } else { 703 };
        let tx = Transaction {
            version: Version::TWO,
            lock_time: LockTime::from_consensus(locktime),
            input: vec![TxIn { previous_output: OutPoint { txid: txid_of(5), vout: 0 }, script_sig: ScriptBuf::new(), sequence: Sequence(if anchors { 1 } else { 0 }), witness: Witness::default() }],
            output: vec![TxOut { value: Amount::from_sat(HTLC_AMOUNT - fee), script_pubkey: witscript.to_p2wsh() }],
        };
        let mut psbt = match Psbt::from_unsigned_tx(tx.clone()) {
            Ok(p) => p,
            Err(_) => return ("harness-psbt".into(), dev),
        };
        psbt.inputs[0].witness_utxo = Some(TxOut { value: Amount::from_sat(HTLC_AMOUNT), script_pubkey: redeem.to_p2wsh() });
        psbt.outputs[0].witness_script = Some(witscript.clone());
        let r = if remote {
            let m = msgs::SignRemoteHtlcTx { tx: WithSize(tx), psbt: WithSize(psbt.into()), wscript: Octets(redeem.to_bytes()), remote_per_commitment_point: PubKey(pcp.serialize()), option_anchors: anchors };
            send(&self.chan, m.as_vec())
        } else if any {
            let m = msgs::SignAnyLocalHtlcTx { commitment_number: 0, tx: WithSize(tx), psbt: WithSize(psbt.into()), wscript: Octets(redeem.to_bytes()), option_anchors: anchors, input: 0, peer_id: PubKey(PEER), dbid: DBID };
            send(&self.root, m.as_vec())
        } else {
            let m = msgs::SignLocalHtlcTx { commitment_number: 0, tx: WithSize(tx), psbt: WithSize(psbt.into()), wscript: Octets(redeem.to_bytes()), option_anchors: anchors };
            send(&self.chan, m.as_vec())
        };
        (r, dev)
    }
}

pub struct C09Wire;

impl Group for C09Wire {
    fn property(&self) -> &'static str { "C09" }
    fn model(&self) -> Option<&'static str> { None }
    fn rule(&self) -> &'static str {
        "wire: real node behind InitHandler/RootHandler/ChannelHandler; NewChannel, then SetupChannel as raw bytes encoded by the harness \
         field by field in the CLN hsmd order (contest delays 5..20, mostly different on the two sides; distinct counterparty basepoints; \
         static_remotekey / anchors-zero-fee-htlc channel type); then SignDelayedPaymentToUs / SignAnyDelayedPaymentToUs with nSequence \
         in {remote_to_self_delay, to_self_delay, +-1, BIP68 flag bits, classics}, SignRemoteHtlcTx / SignLocalHtlcTx / SignAnyLocalHtlcTx whose \
         output[0] is revokeable(revocation key of either side, delay in {to_self_delay, remote_to_self_delay, +-1, 144}, delayed key from \
         either side's delayed / htlc / payment / revocation basepoint), offered and received; the oracle is what was SENT on the wire; \
         non-trivial = at least one signed and one refused request"
    }
    fn budget(&self, tier: Tier) -> usize { if tier == Tier::Quick { 250 } else { 3000 } }
    fn corpus(&self) -> Vec<Vec<String>> {
        let c = |s: &str| s.split('|').map(|x| x.to_string()).collect::<Vec<String>>();
        vec![
            // delays 6 (ours on them) / 9 (theirs on us): our delayed outputs are swept with nSequence 9, never 6
            c("wsetup 6 9 s|wsweep 0 9 0|wsweep 0 6 0|wsweep 1 9 0|wsweep 1 6 0|wsweep 0 10 0|wsweep 0 2147483657 0"),
            // the counterparty's HTLC txs: delay 6, their delayed key, our revocation key; ours: delay 9, our delayed key, theirs
            c("wsetup 6 9 s|whtlc r 0 1 6 cd h|whtlc r 0 1 9 cd h|whtlc r 0 0 6 ch h|whtlc r 0 0 6 cd h|whtlc l 0 1 9 hd c|whtlc l 1 0 9 hd c|whtlc l 1 1 6 hd c|whtlc l 0 0 9 hh c|whtlc l 0 0 9 hd h"),
            c("wsetup 12 5 z|whtlc r 0 1 12 cd h|whtlc r 0 0 5 cd h|whtlc r 0 1 12 cp h|whtlc l 1 1 5 hd c|whtlc l 0 0 12 hd c|wsweep 1 5 1|wsweep 0 12 0|wsweep 0 5 2"),
            // equal delays: only the keys can deviate
            c("wsetup 7 7 s|wsweep 0 7 0|whtlc r 0 1 7 cd h|whtlc r 0 1 7 hd h|whtlc l 0 1 7 hd c|whtlc l 0 1 7 cd c"),
        ]
    }
    fn gen_case(&self, rng: &mut Rng, tier: Tier) -> Vec<String> {
        let tsd = rng.range(5, 20) as u16;
        let rtsd = match rng.below(8) {
            0 => tsd,
            1 => tsd + 1,
            2 => tsd - 1,
            _ => {
                let mut r = rng.range(5, 20) as u16;
                if r == tsd { r = if tsd == 20 { 5 } else { tsd + 2 } }
                r
            }
        };
        let ct = if rng.chance(1, 3) { 'z' } else { 's' };
        let mut ops = vec![format!("wsetup {} {} {}", tsd, rtsd, ct)];
        let n = rng.range(4, if tier == Tier::Quick { 8 } else { 12 });
        for _ in 0..n {
            if rng.chance(1, 3) {
                let good = rtsd as u32;
                let seq = match rng.below(12) {
                    0 | 1 | 2 => tsd as u32,
                    3 => good + 1,
                    4 => good - 1,
                    5 => *rng.pick(&[0u32, 1, 0xffff_ffff, 0xffff_fffd, 144]),
                    6 => good | *rng.pick(&[0x8000_0000u32, 0x0040_0000, 0x0001_0000]),
                    7 => (tsd as u32) | 0x0040_0000,
                    _ => good,
                };
                let cnum = match rng.below(10) { 0 => 1, 1 => 2, _ => 0 };
                ops.push(format!("wsweep {} {} {}", rng.below(2), seq, cnum));
            } else {
                let remote = rng.chance(1, 2);
                let (exp_delay, other_delay, exp_dk, exp_rev) = if remote { (tsd, rtsd, 'c', 'h') } else { (rtsd, tsd, 'h', 'c') };
                let delay = match rng.below(10) { 0 | 1 | 2 => other_delay, 3 => exp_delay + 1, 4 => exp_delay - 1, 5 => 144, _ => exp_delay };
                let (dk_side, dk_kind) = match rng.below(10) {
                    0 | 1 => (exp_dk, 'h'),
                    2 => (exp_dk, *rng.pick(&['p', 'r'])),
                    3 => (exp_rev, 'd'),
                    4 => (exp_rev, *rng.pick(&['h', 'p', 'r'])),
                    _ => (exp_dk, 'd'),
                };
                let rev_side = if rng.chance(1, 8) { exp_dk } else { exp_rev };
                ops.push(format!("whtlc {} {} {} {} {}{} {}", if remote { 'r' } else { 'l' }, if remote { 0 } else { rng.below(2) }, rng.below(2), delay, dk_side, dk_kind, rev_side));
            }
        }
        ops
    }
    fn exec_case(&self, ops: &[String]) -> CaseOut {
        let mut co = CaseOut::default();
        let mut w: Option<Wire> = None;
        let (mut acc, mut rej) = (false, false);
        for (i, op) in ops.iter().enumerate() {
            let t: Vec<&str> = op.split_whitespace().collect();
            let line = match t.as_slice() {
                ["wsetup", tsd, rtsd, ct] => match (tsd.parse::<u16>(), rtsd.parse::<u16>(), ct.chars().next()) {
                    (Ok(a), Ok(b), Some(c)) if c == 's' || c == 'z' => match catch_unwind(AssertUnwindSafe(|| Wire::open(a, b, c))) {
                        Ok(Ok(x)) => {
                            let l = format!("ok {}", x.note);
                            for part in x.note.split(' ') {
                                co.tags.insert(format!("wire:setup:{}", part.split('[').next().unwrap_or("")));
                            }
                            w = Some(x);
                            l
                        }
                        Ok(Err(e)) => format!("harness-setup-failed {}", e),
                        Err(_) => "harness-setup-failed panic".into(),
                    },
                    _ => "bad-op".into(),
                },
                ["wsweep", any, seq, cnum] => match (w.as_ref(), seq.parse::<u32>(), cnum.parse::<u64>()) {
                    (Some(x), Ok(seq), Ok(cnum)) => {
                        let any = *any == "1";
                        let name = if any { "SignAnyDelayedPaymentToUs" } else { "SignDelayedPaymentToUs" };
                        let r = x.sweep(any, seq, cnum);
                        let correct = seq == x.rtsd as u32;
                        if r == "signed" {
                            acc = true;
                            if !correct {
                                co.violations.push(Violation {
                                    kind: "wire-sweep-sequence-not-negotiated".into(),
                                    desc: format!(
                                        "SetupChannel on the wire said to_self_delay={} (what we impose on the peer) and remote_to_self_delay={} (what the peer imposes on us); {} signed a sweep of our delayed output with nSequence {} instead of {}",
                                        x.tsd, x.rtsd, name, seq, x.rtsd
                                    ),
                                    at: i,
                                });
                            }
                        } else {
                            rej = true;
                            if correct && cnum <= 1 {
                                co.tags.insert("wire:correct-refused".into());
                                co.tags.insert("wire:correct-refused:sweep".into());
                            }
                        }
                        co.tags.insert(format!("wire:sweep:{}:{}", if correct { "negotiated" } else { "deviating" }, r.split(' ').next().unwrap_or("")));
                        let (tsd, rtsd, ct) = (x.tsd, x.rtsd, x.ct);
                        if r == "panic" {
                            w = Wire::open(tsd, rtsd, ct).ok();
                        }
                        r
                    }
                    _ => "bad-op".into(),
                },
                ["whtlc", who, any, off, delay, dk, rev] => {
                    let dkc: Vec<char> = dk.chars().collect();
                    let revc = rev.chars().next().unwrap_or('x');
                    match (w.as_ref(), delay.parse::<u16>()) {
                        (Some(x), Ok(delay)) if (*who == "r" || *who == "l") && dkc.len() == 2 && "ch".contains(dkc[0]) && "dhpr".contains(dkc[1]) && "ch".contains(revc) => {
                            let remote = *who == "r";
                            let any = *any == "1" && !remote;
                            let name = if remote { "SignRemoteHtlcTx" } else if any { "SignAnyLocalHtlcTx" } else { "SignLocalHtlcTx" };
                            let (r, dev) = x.htlc(remote, any, *off == "1", delay, dkc[0], dkc[1], revc);
                            if r == "signed" {
                                acc = true;
                                if !dev.is_empty() {
                                    co.violations.push(Violation {
                                        kind: "wire-htlc-tx-not-negotiated".into(),
                                        desc: format!(
                                            "SetupChannel on the wire said to_self_delay={} remote_to_self_delay={} and the counterparty basepoints revocation/payment/htlc/delayed_payment in the hsmd order; {} signed a second-level HTLC tx ({}) whose output[0] deviates from the negotiated revokeable script: {}",
                                            x.tsd, x.rtsd, name, if *off == "1" { "HTLC-timeout" } else { "HTLC-success" }, dev.join("; ")
                                        ),
                                        at: i,
                                    });
                                }
                            } else {
                                rej = true;
                                if dev.is_empty() {
                                    co.tags.insert("wire:correct-refused".into());
                                    co.tags.insert(format!("wire:correct-refused:{}", name));
                                }
                            }
                            co.tags.insert(format!("wire:htlc:{}:{}:{}", who, if dev.is_empty() { "negotiated" } else { "deviating" }, r.split(' ').next().unwrap_or("")));
                            let (tsd, rtsd, ct) = (x.tsd, x.rtsd, x.ct);
                            if r == "panic" {
                                w = Wire::open(tsd, rtsd, ct).ok();
                            }
                            r
                        }
                        _ => "bad-op".into(),
                    }
                }
                _ => "bad-op".into(),
            };
            co.out.push(line);
        }
        co.nontrivial = acc && rej;
        co
    }
}
